"""C14 -- applying or removing formatting touches exactly the named attributes."""
import itertools

import canon
from canon import COLORS, STYLES, coq_fs, coq_str, coq_atts, coq_list, exn_name, Unrepresentable

from curtsies.formatstring import FmtStr, fmtstr, parse_args
from curtsies import fmtfuncs

ID = "C14"
LEVEL = "proof"
PROPS_FILE = "Props/C14.v"
CORR_VO = "Corr/C14.vo"
REQUIRE = "From Curtsies Require Import Model.Base Model.Atts Corr.C14."
CASE_TYPE = "C14.case"
MODEL_OK = "C14.model_ok"
SPEC_OK = "C14.spec_ok"
EXHAUSTIVE = {"quick": False, "thorough": False}
SHARD = 250
RULE = ("chains of formatting calls (fmtstr with positional names in any case / fg= bg= by name or number / style= / "
        "bold=True|False, the fmtfuncs helpers incl. on_dark and plain with extra arguments, copy_with_new_atts, "
        "new_with_atts_removed with every kind of key subset) applied to plain strs and to random multi-run FmtStrs "
        "(empty runs, explicit False, control/wide/combining characters): every one of the 256 attribute subsets with "
        "random values and spellings per subset, nestings that override / keep earlier attributes, every family of the "
        "invalid catalogue planted into otherwise valid specifications, parse_args called directly, copy_with_new_str, "
        "shared_atts (incl. layouts whose first runs are empty); a share of the start values is derived through the "
        "public API with str/len/s/width/hash/repr observed first and intermediates observed between the calls (filled "
        "caches); observation: per-character cells of the result (or the exception), plus str(result) and result.s "
        "judged against the expected cells. non-trivial = the start has "
        "a character and some call names an attribute or is invalid; distinct = distinct input")
TRUSTED = [
    "Coq 8.16.1 kernel incl. vm_compute (no native_compute); Print Assumptions: closed under the global context",
    "reference reading coq/Spec/AttSpec.v (override/clear on cells, reference colour and style names, spelling "
    "classes, validity, the invalid catalogue), independent of the generated tables",
    "translator gen/gen_tables.py (FG_COLORS, BG_COLORS, STYLES, *_NUMBER_TO_COLOR, the fmtfuncs name -> style= table)",
    "harness canonicaliser harness/canon.py and harness/props/c14.py (values, kwargs, FmtStr runs -> Coq literals)",
    "modelled, not verified: Python dict semantics (insertion order, unique keys), ==/hash of int/bool/str/None "
    "(True == 1), functools.partial keyword merging, str.lower() (ASCII + KELVIN SIGN; the rest is checked by brute "
    "force on every run to be unable to produce a table name)",
]
ASSUMPTIONS = [
    "positional arguments and keyword values are int, bool, str or None; floats (fg=31.0) and unhashable values are "
    "outside the model",
    "a specification is VALID when every element names an attribute (colour names and 'on_' names in any case, "
    "style names exactly, fg=/bg= exact lower-case name or number in range, style kwargs True/False) and no attribute "
    "is named twice; bold=0 / bold=None and ('bold', bold=False) are accepted by the library but deliberately outside "
    "the property as read (DESIGN section 6)",
    "deliberate narrowing: 'uniformly formatted' for copy_with_new_str means every RUN, empty runs included, has the "
    "same effective attributes (fmtstr('', 'bold') + 'ab' is uniformly plain per character but copy_with_new_str "
    "returns bold text)",
    "deliberate reading: U+212A KELVIN SIGN is a case variant of 'k' (str.lower() says so), so 'blac\\u212a' names black",
    "fmtstr() on a str containing ESC '[' goes through the escape-sequence parser, which is modelled under C05/C17; "
    "here start strings are free of ESC '['",
    "shared_atts raising IndexError on a FmtStr without runs is not a violation (it reports nothing)",
]

KELVIN = "\u212a"
IDOT = "\u0130"


# ---- values ---------------------------------------------------------------------
def jv(x):
    """python value -> JSON-able tagged value"""
    if x is None:
        return ["n"]
    if isinstance(x, bool):
        return ["b", x]
    if isinstance(x, int):
        return ["i", x]
    if isinstance(x, str):
        return ["s", x]
    raise TypeError(x)


def pv(v):
    return None if v[0] == "n" else v[1]


def coq_value(v):
    t = v[0]
    if t == "n":
        return "VNone"
    if t == "b":
        return "(VBool %s)" % ("true" if v[1] else "false")
    if t == "i":
        return "(VInt (%d)%%Z)" % v[1]
    return "(VStr %s)" % coq_str(v[1])


def coq_args(args):
    return coq_list([coq_value(v) for v in args])


def coq_kw(kw):
    return coq_list(["(%s, %s)" % (coq_str(k), coq_value(v)) for k, v in kw])


def coq_op(op):
    k = op[0]
    if k == "fmt":
        return "C14.OFmt %s %s" % (coq_args(op[1]), coq_kw(op[2]))
    if k == "func":
        return "C14.OFunc %s %s %s" % (coq_str(op[1]), coq_args(op[2]), coq_kw(op[3]))
    if k == "copy":
        return "C14.OCopy %s" % coq_atts(op[1])
    if k == "remove":
        return "C14.ORemove %s" % coq_list([coq_str(s) for s in op[1]])
    raise ValueError(op)


def coq_start(st, extra=None):
    if st[0] in ("e", "su"):
        return "(SFmt %s)" % coq_fs(extra["start"])
    if st[0] == "s":
        return "(SStr %s)" % coq_str(st[1])
    if st[0] == "f":
        return "(SFmt %s)" % coq_fs(st[1])
    return "SOther"


# ---- running the implementation ------------------------------------------------------
def apply_op(op, x):
    k = op[0]
    if k == "fmt":
        return fmtstr(x, *[pv(v) for v in op[1]], **{kk: pv(v) for kk, v in op[2]})
    if k == "func":
        return getattr(fmtfuncs, op[1])(x, *[pv(v) for v in op[2]], **{kk: pv(v) for kk, v in op[3]})
    if k == "copy":
        return x.copy_with_new_atts(**canon.atts_dict(tuple(op[1])))
    if k == "remove":
        return x.new_with_atts_removed(*op[1])
    if k == "obs":
        canon.observe(x, op[1])
        return x
    raise ValueError(op)


def run(inp):
    kind = inp[0]
    if kind == "prog":
        st = inp[1]
        extra = {}
        if st[0] == "e":
            # a start value derived through the API, observed so that its memoised values are filled
            x = canon.eval_expr(st[1])
            canon.observe(x, ["str", "len", "s", "width", "hash", "repr"])
            extra["start"] = canon.canon_fs(x)
        elif st[0] == "su":
            # a plain str of terminal output that fmtstr() cannot parse entirely (SGR parameters it does not know):
            # the calls are made on the STR; they are judged as calls on what fmtstr(str) alone gives
            x = st[1]
            extra["start"] = canon.canon_fs(fmtstr(st[1]))
            first = next((op[0] for op in inp[2] if op[0] != "obs"), None)
            if first not in ("fmt", "func"):
                x = fmtstr(st[1])                 # methods of FmtStr cannot be called on a str
        else:
            x = st[1] if st[0] == "s" else canon.build_fs(st[1]) if st[0] == "f" else 3
        try:
            for op in inp[2]:
                x = apply_op(op, x)
        except Exception as e:  # noqa
            return ["raise", exn_name(e), extra]
        if not isinstance(x, FmtStr):          # a call answered with something that is not a FmtStr
            return ["raise", "OtherError", extra]
        try:
            runs = canon.canon_fs(x)
        except Unrepresentable:
            return ["unrepr", None, extra]
        extra["str"] = str(x)
        extra["s"] = x.s
        return ["ok", runs, extra]
    if kind == "parse":
        try:
            d = parse_args(tuple(pv(v) for v in inp[1]), {k: pv(v) for k, v in inp[2]})
        except Exception as e:  # noqa
            return ["raise", exn_name(e)]
        try:
            return ["ok", list(canon.canon_atts(d))]
        except Unrepresentable:
            return ["unrepr"]
    if kind == "newstr":
        return ["ok", canon.canon_fs(canon.build_fs(inp[1]).copy_with_new_str(inp[2]))]
    if kind == "shared":
        try:
            d = canon.build_fs(inp[1]).shared_atts
        except Exception as e:  # noqa
            return ["raise", exn_name(e)]
        return ["ok", list(canon.canon_atts(d))]
    raise ValueError(kind)


def to_coq(inp, out):
    kind = inp[0]
    if kind == "prog":
        impl = ("None" if out[0] == "unrepr" else "(Some (Raise %s))" % out[1] if out[0] == "raise"
                else "(Some (Ok %s))" % coq_fs(out[1]))
        extra = out[2] if len(out) > 2 else {}
        obs = "(Some (%s, %s))" % (coq_str(extra["str"]), coq_str(extra["s"])) if "str" in extra else "None"
        return "C14.Prog %s %s %s %s" % (coq_start(inp[1], extra), coq_list([coq_op(o) for o in inp[2] if o[0] != "obs"]),
                                         impl, obs)
    if kind == "parse":
        impl = ("None" if out[0] == "unrepr" else "(Some (Raise %s))" % out[1] if out[0] == "raise"
                else "(Some (Ok %s))" % coq_atts(out[1]))
        return "C14.Parse %s %s %s" % (coq_args(inp[1]), coq_kw(inp[2]), impl)
    if kind == "newstr":
        return "C14.NewStr %s %s %s" % (coq_fs(inp[1]), coq_str(inp[2]), coq_fs(out[1]))
    if kind == "shared":
        impl = "(Raise %s)" % out[1] if out[0] == "raise" else "(Ok %s)" % coq_atts(out[1])
        return "C14.Shared %s %s" % (coq_fs(inp[1]), impl)
    raise ValueError(kind)


def to_json_input(inp):
    return {"case": inp}


def to_json_output(out):
    return out


def _tup(x):
    return x


def from_json(obj):
    return obj["case"]


def key(inp):
    return repr(inp)


# ---- generators ------------------------------------------------------------------------
def mixcase(rng, name):
    """a random case variant of a name (sometimes with the Kelvin sign for k)"""
    out = []
    for ch in name:
        r = rng.random()
        if ch == "k" and r < 0.15:
            out.append(KELVIN)
        elif r < 0.5:
            out.append(ch.upper())
        else:
            out.append(ch)
    return "".join(out)


def spell(rng, atts, style_kw=True, exact_only=False):
    """a VALID specification (args, kw) naming exactly the attributes of the 8-tuple `atts`
    (0 absent; colours 1..8; styles 1 True / 2 False), every attribute in a random spelling"""
    args, kw = [], []
    style_used = not style_kw or rng.random() < 0.4
    labels = set()

    def positional(name, ci):
        nonlocal style_used
        if ci and not exact_only and rng.random() < 0.4:
            name = mixcase(rng, name)
            labels.add("sp:mixed-case")
        if not style_used and rng.random() < 0.35:
            style_used = True
            kw.append(["style", jv(name)])
            labels.add("sp:style=")
        else:
            args.append(jv(name))
            labels.add("sp:positional")

    for idx, (key_, base, prefix) in enumerate((("fg", 30, ""), ("bg", 40, "on_"))):
        v = atts[idx]
        if not v:
            continue
        r = rng.random()
        if r < 0.4:
            positional(prefix + COLORS[v - 1], True)
        elif r < 0.7:
            kw.append([key_, jv(COLORS[v - 1])])
            labels.add("sp:%s=name" % key_)
        else:
            kw.append([key_, jv(base + v - 1)])
            labels.add("sp:%s=number" % key_)
    for s, v in zip(STYLES, atts[2:]):
        if v == 1:
            if rng.random() < 0.5:
                positional(s, False)
            else:
                kw.append([s, jv(True)])
                labels.add("sp:style-kw-True")
        elif v == 2:
            kw.append([s, jv(False)])
            labels.add("sp:style-kw-False")
    rng.shuffle(args)
    rng.shuffle(kw)
    return args, kw, labels


def as_func_op(rng, args, kw):
    """turn a valid fmt spec into a fmtfuncs call where possible: one exact positional name
    (or nothing: plain) moves into the helper's name"""
    if any(k == "style" for k, _ in kw):
        return None
    cands = [i for i, v in enumerate(args) if v[0] == "s" and hasattr(fmtfuncs, v[1]) and v[1] != "fmtstr"
             and not v[1].startswith("_")]
    if cands and rng.random() < 0.9:
        i = rng.choice(cands)
        name = args[i][1]
        if name == "on_black" and rng.random() < 0.5:
            name = "on_dark"
        return ["func", name, args[:i] + args[i + 1:], kw]
    if rng.random() < 0.3:
        return ["func", "plain", args, kw]
    return None


BAD_POS_NAMES = ["purple", "on_purple", "redd", "", "on_", "fg", "bg", "on_bold", "red ", " red", "on-red",
                 "onred", "on_on_red", "Bold", "BOLD", "dar" + KELVIN, "Underline", IDOT + "talic", "bl" + IDOT + "nk",
                 "on_" + IDOT, "style", "plain", "on_dark", "31", "None", "bright_red", "r", "grey"]
BAD_POS_VALUES = [31, 0, True, False, None, 1]
BAD_KW = [["color", "red"], ["Bold", True], ["FG", "red"], ["foreground", 31], ["on_red", True], ["red", True],
          ["Fg", 31], ["BG", 41], ["colour", None], ["underlined", True], ["bold ", True], ["ITALIC", False],
          ["on", "red"], ["bol" + "d" * 2, True], ["dar" + KELVIN, True]]
BAD_FG = ["on_red", "RED", "Red", "purple", "", "fg", "bold", "31", 29, 38, 0, 41, 47, -31, 1, 131, None, True, False,
          "blac" + KELVIN]
BAD_BG = ["on_blue", "BLUE", "Blue", "purple", "", "bg", "dark", "44", 39, 48, 0, 30, 37, -44, 1, 144, None, True, False]


def col_spellings(rng, which):
    """all ways to name a colour attribute; returns list of ('pos'|'kw'|'style', payload)"""
    i = rng.randrange(8)
    prefix = "" if which == "fg" else "on_"
    base = 30 if which == "fg" else 40
    name = prefix + COLORS[i]
    return [("pos", name), ("pos", mixcase(rng, name)), ("kw", [which, COLORS[i]]), ("kw", [which, base + i]),
            ("style", name)]


def invalid_spec(rng):
    """a specification from the invalid catalogue: a valid one with one defect planted; returns
    (args, kw, family)"""
    base = canon.rand_atts(rng)
    if rng.random() < 0.4:
        base = (0,) * 8
    fam = rng.choice(["pos-unknown", "pos-nonstr", "style-unknown", "style-nonstr", "kw-unknown", "fg-bad",
                      "bg-bad", "fg-twice", "bg-twice"])
    base = list(base)
    if fam in ("fg-bad", "fg-twice"):
        base[0] = 0
    if fam in ("bg-bad", "bg-twice"):
        base[1] = 0
    args, kw, _ = spell(rng, base, style_kw=fam not in ("style-unknown", "style-nonstr", "fg-twice", "bg-twice"))
    if fam == "pos-unknown":
        args.insert(rng.randint(0, len(args)), jv(rng.choice(BAD_POS_NAMES)))
    elif fam == "pos-nonstr":
        args.insert(rng.randint(0, len(args)), jv(rng.choice(BAD_POS_VALUES)))
    elif fam == "style-unknown":
        kw.insert(rng.randint(0, len(kw)), ["style", jv(rng.choice(BAD_POS_NAMES))])
    elif fam == "style-nonstr":
        kw.insert(rng.randint(0, len(kw)), ["style", jv(rng.choice(BAD_POS_VALUES))])
    elif fam == "kw-unknown":
        k, v = rng.choice(BAD_KW)
        kw.insert(rng.randint(0, len(kw)), [k, jv(v)])
    elif fam == "fg-bad":
        kw.insert(rng.randint(0, len(kw)), ["fg", jv(rng.choice(BAD_FG))])
    elif fam == "bg-bad":
        kw.insert(rng.randint(0, len(kw)), ["bg", jv(rng.choice(BAD_BG))])
    else:
        which = fam[:2]
        while True:
            a = rng.choice(col_spellings(rng, which))
            b = rng.choice(col_spellings(rng, which))
            kinds = sorted([a[0], b[0]])
            if kinds in (["kw", "kw"], ["style", "style"]):
                continue
            break
        for kind, payload in (a, b):
            if kind == "pos":
                args.insert(rng.randint(0, len(args)), jv(payload))
            elif kind == "kw":
                kw.insert(rng.randint(0, len(kw)), [payload[0], jv(payload[1])])
            else:
                kw.insert(rng.randint(0, len(kw)), ["style", jv(payload)])
    assert len({k for k, _ in kw}) == len(kw), kw
    return args, kw, fam


def outside_spec(rng):
    """accepted by the library, outside the property as read"""
    base = list(canon.rand_atts(rng))
    r = rng.random()
    if r < 0.5:
        j = rng.randrange(6)
        base[2 + j] = 0
        args, kw, _ = spell(rng, base)
        kw.append([STYLES[j], jv(rng.choice([0, 1, None, "yes", 2]))])
        return args, kw, "style-kw-nonbool"
    j = rng.randrange(6)
    base[2 + j] = 0
    args, kw, _ = spell(rng, base, style_kw=False)
    if r < 0.75:
        args += [jv(STYLES[j]), jv(STYLES[j])]
        return args, kw, "style-twice-positional"
    args.append(jv(STYLES[j]))
    kw.append([STYLES[j], jv(rng.choice([True, False]))])
    return args, kw, "style-positional-and-kw"


def _fmtfunc_names():
    """the formatting helpers the module defines: partials, and functions defined in the module itself (not what it
    merely imports: typing names, classes, fmtstr / parse_args of formatstring)"""
    import functools
    names = []
    for n, v in sorted(vars(fmtfuncs).items()):
        if n.startswith("_") or n == "fmtstr" or isinstance(v, type) or not callable(v):
            continue
        if isinstance(v, functools.partial) or getattr(v, "__module__", None) == fmtfuncs.__name__:
            names.append(n)
    return names


UNPARSED = ["\x1b[22mab", "a\x1b[1;mb", "\x1b[90mx\x1b[39m", "p\x1b[24mq\x1b[29m", "\x1b[38;2;1;2;3mrgb", "k\x1b[2Aup", "\x9b97mz",
            # ... and terminal output it parses entirely, in either CSI form (judged the same way)
            "\x9b1mbold\x9b0m rest", "\x9b31mr", "a\x9b44mz\x9b49m", "\x1b[1mb\x1b[0m", "\x1b[4;32mu\x1b[24mv", "q\x9b7m"]


def rand_start(rng):
    r = rng.random()
    if r < 0.08:
        return ["su", rng.choice(UNPARSED)]
    if r < 0.3:
        return ["s", canon.rand_text(rng, 5)]
    if r < 0.5:
        return ["e", canon.rand_expr(rng, depth=rng.choice([0, 1, 2]))]
    return ["f", canon.rand_runs(rng)]


def with_observations(rng, ops):
    """observe (str/len/hash/...) intermediates between the calls, so that later calls see filled caches"""
    out = []
    for op in ops:
        out.append(op)
        if rng.random() < 0.4:
            out.append(["obs", rng.sample(canon.OBS, rng.randint(1, 3))])
    return out


KEY_POOL = ["fg", "bg"] + STYLES + ["FG", "Bold", "style", "", "on_red", "red", "bol"]


def rand_keys(rng):
    n = rng.choice([0, 1, 1, 2, 3, 5])
    return [rng.choice(KEY_POOL if rng.random() < 0.3 else KEY_POOL[:8]) for _ in range(n)]


def rand_valid_op(rng, atts=None):
    if atts is None:
        atts = canon.rand_atts(rng)
    r = rng.random()
    if r < 0.12:
        return ["copy", list(atts)]
    if r < 0.24:
        return ["remove", rand_keys(rng)]
    args, kw, _ = spell(rng, atts)
    if rng.random() < 0.4:
        op = as_func_op(rng, args, kw)
        if op:
            return op
    return ["fmt", args, kw]


def check_lower_assumption():
    """the model's str.lower(): every non-ASCII character other than KELVIN SIGN lower-cases to a string
    without ASCII characters, except U+0130 -> 'i' + U+0307 (cannot complete a table name)"""
    bad = []
    for cp in range(128, 0x110000):
        if 0xD800 <= cp < 0xE000:
            continue
        low = chr(cp).lower()
        if any(ord(x) < 128 for x in low):
            bad.append((cp, low))
    if bad != [(0x130, "i\u0307"), (0x212A, "k")]:
        raise RuntimeError("str.lower() assumption of Model/Atts.v no longer holds: %r" % (bad[:10],))
    for cp in range(128):
        c = chr(cp)
        exp = chr(cp + 32) if "A" <= c <= "Z" else c
        if c.lower() != exp:
            raise RuntimeError("ASCII lower() assumption broken at %d" % cp)


def generate(rng, tier):
    check_lower_assumption()
    thorough = tier == "thorough"
    # 1. every subset of the 8 attributes, random values and spellings, on a str and on a FmtStr
    reps = 24 if thorough else 2
    for present in itertools.product([0, 1], repeat=8):
        for _ in range(reps):
            atts = [0] * 8
            for j, p in enumerate(present):
                if p:
                    atts[j] = rng.randint(1, 8) if j < 2 else rng.choice([1, 1, 2])
            args, kw, _ = spell(rng, atts)
            op = ["fmt", args, kw]
            if rng.random() < 0.3:
                op = as_func_op(rng, args, kw) or op
            yield ["prog", rand_start(rng), [op]]
    # 2. all fmtfuncs on their own, each on a str and on a FmtStr
    for name in _fmtfunc_names():
        yield ["prog", ["s", canon.rand_text(rng, 4) or "x"], [["func", name, [], []]]]
        yield ["prog", ["f", canon.rand_runs(rng)], [["func", name, [], []]]]
    # 3. nestings: chains of calls, same and different attributes, removals in between
    n = 6000 if thorough else 500
    for _ in range(n):
        k = rng.choice([2, 2, 3, 4])
        ops = [rand_valid_op(rng) for _ in range(k)]
        st = rand_start(rng)
        if ops[0][0] not in ("fmt", "func") and st[0] == "s":
            st = ["f", canon.rand_runs(rng)]
        yield ["prog", st, with_observations(rng, ops)]
    # 3b. order independence / later wins, made explicit: the same two calls in both orders
    for _ in range(n // 4):
        a, b = rand_valid_op(rng), rand_valid_op(rng)
        st = ["f", canon.rand_runs(rng)]
        yield ["prog", st, [a, b]]
        yield ["prog", st, [b, a]]
    # 4. the invalid catalogue, alone and inside chains, through fmtstr, the helpers and parse_args
    n = 8000 if thorough else 700
    for _ in range(n):
        args, kw, fam = invalid_spec(rng)
        r = rng.random()
        if r < 0.5:
            yield ["prog", rand_start(rng), [["fmt", args, kw]]]
        elif r < 0.7:
            yield ["parse", args, kw]
        elif r < 0.85:
            pre = [rand_valid_op(rng)]
            yield ["prog", ["f", canon.rand_runs(rng)], pre + [["fmt", args, kw]]]
        else:
            if any(k == "style" for k, _ in kw):
                yield ["prog", rand_start(rng), [["fmt", args, kw]]]
            else:
                name = rng.choice(COLORS + ["on_" + c for c in COLORS] + STYLES + ["plain", "on_dark"])
                yield ["prog", rand_start(rng), [["func", name, args, kw]]]
    # 5. parse_args directly on valid specifications
    for _ in range(n // 2):
        args, kw, _ = spell(rng, canon.rand_atts(rng))
        yield ["parse", args, kw]
    # 6. mis-typed first argument
    for _ in range(20 if thorough else 6):
        args, kw, _ = spell(rng, canon.rand_atts(rng))
        yield ["prog", ["o"], [["fmt", args, kw]]]
    # 7. accepted but outside the property: the model must still agree
    for _ in range(n // 6):
        args, kw, _ = outside_spec(rng)
        if rng.random() < 0.5:
            yield ["parse", args, kw]
        else:
            yield ["prog", rand_start(rng), [["fmt", args, kw]]]
    # 8. new_with_atts_removed: every subset of the eight keys on values that have them
    for present in itertools.product([0, 1], repeat=8):
        keys = [k for k, p in zip(["fg", "bg"] + STYLES, present) if p]
        rng.shuffle(keys)
        runs = canon.rand_runs(rng)
        if runs and rng.random() < 0.7:
            runs[0][1] = [rng.randint(1, 8), rng.randint(1, 8)] + [rng.choice([1, 1, 2]) for _ in range(6)]
        yield ["prog", ["f", runs], [["remove", keys]]]
    # 9. copy_with_new_str and shared_atts
    n = 3000 if thorough else 300
    for _ in range(n):
        runs = canon.rand_runs(rng)
        r = rng.random()
        if runs and r < 0.5:
            # make it uniform in effect (empty runs included), possibly with different False/absent spellings
            a0 = runs[0][1]
            for run_ in runs[1:]:
                run_[1] = [a0[0], a0[1]] + [v if v == 1 else rng.choice([0, 2]) for v in a0[2:]]
        elif runs and r < 0.7:
            a0 = runs[0][1]
            for run_ in runs[1:]:
                if rng.random() < 0.7:
                    run_[1] = list(a0)
        yield ["newstr", runs, canon.rand_text(rng, 4)]
        if runs and rng.random() < 0.35:
            # layouts whose FIRST run(s) are empty: shared_atts takes its candidates from the first non-empty run
            k = rng.choice([1, 1, 2])
            runs = [["", list(canon.rand_atts(rng))] for _ in range(k)] + runs
        yield ["shared", runs]


def nontrivial(inp, out):
    kind = inp[0]
    if kind == "prog":
        st = inp[1]
        has_char = ((st[0] == "s" and st[1]) or (st[0] == "f" and any(s for s, _ in st[1])) or
                    (st[0] == "e" and len(out) > 2 and any(s for s, _ in out[2].get("start", []))))
        return bool(has_char) and any(op[0] != "obs" and len(op) > 1 and (op[1] or (len(op) > 2 and op[2]))
                                      for op in inp[2])
    if kind == "parse":
        return bool(inp[1] or inp[2])
    return any(s and any(a) for s, a in inp[1])


def _spec_labels(args, kw):
    for v in args:
        if v[0] != "s":
            yield "arg:non-str"
        elif v[1] != v[1].lower():
            yield "arg:mixed-case"
    for k, v in kw:
        if k in ("fg", "bg"):
            yield "kw:%s=%s" % (k, {"s": "name", "i": "number", "b": "bool", "n": "None"}[v[0]])
        elif k == "style":
            yield "kw:style="
        elif k in STYLES:
            yield "kw:style-flag=%s" % (v[1] if v[0] == "b" else "nonbool")
        else:
            yield "kw:unknown"


def stats(inp, out):
    kind = inp[0]
    yield "kind=%s" % kind
    yield "outcome=%s" % (out[0] if out[0] != "raise" else "raise:" + out[1])
    if kind == "prog":
        yield "start=%s" % inp[1][0]
        yield "ops=%d" % len([o for o in inp[2] if o[0] != "obs"])
        if inp[1][0] == "e":
            yield "start_has_filled_caches"
        for op in inp[2]:
            yield "op=%s" % op[0]
            if op[0] == "fmt":
                yield from _spec_labels(op[1], op[2])
            elif op[0] == "func":
                yield "func=%s" % op[1]
                yield from _spec_labels(op[2], op[3])
        if inp[1][0] == "f":
            runs = inp[1][1]
            yield "runs=%d" % min(len(runs), 5)
            if any(not s for s, _ in runs):
                yield "has_empty_run"
    elif kind == "parse":
        yield from _spec_labels(inp[1], inp[2])
    else:
        runs = inp[1]
        yield "runs=%d" % min(len(runs), 5)
        if any(not s for s, _ in runs):
            yield "has_empty_run"
        if runs and not runs[0][0]:
            yield "first_run_empty"
        if kind == "shared" and out[0] == "ok" and any(out[1]):
            yield "shared_nonempty_result"


def shrink(inp):
    kind = inp[0]
    if kind == "prog":
        st, ops = inp[1], inp[2]
        for i in range(len(ops)):
            if len(ops) > 1:
                yield ["prog", st, ops[:i] + ops[i + 1:]]
        if st[0] == "f":
            runs = st[1]
            for i in range(len(runs)):
                yield ["prog", ["f", runs[:i] + runs[i + 1:]], ops]
            for i, (s, a) in enumerate(runs):
                if len(s) > 1:
                    yield ["prog", ["f", runs[:i] + [[s[:1], a]] + runs[i + 1:]], ops]
                if any(a):
                    yield ["prog", ["f", runs[:i] + [[s, [0] * 8]] + runs[i + 1:]], ops]
        elif st[0] == "s" and len(st[1]) > 1:
            yield ["prog", ["s", st[1][:1]], ops]
        elif st[0] == "e":
            for c in canon.shrink_expr(st[1]):
                yield ["prog", ["e", c], ops]
        for i, op in enumerate(ops):
            if op[0] in ("fmt", "func"):
                off = 1 if op[0] == "fmt" else 2
                args, kw = op[off], op[off + 1]
                for j in range(len(args)):
                    yield ["prog", st, ops[:i] + [op[:off] + [args[:j] + args[j + 1:], kw]] + ops[i + 1:]]
                for j in range(len(kw)):
                    yield ["prog", st, ops[:i] + [op[:off] + [args, kw[:j] + kw[j + 1:]]] + ops[i + 1:]]
            elif op[0] == "remove":
                for j in range(len(op[1])):
                    yield ["prog", st, ops[:i] + [["remove", op[1][:j] + op[1][j + 1:]]] + ops[i + 1:]]
    elif kind == "parse":
        args, kw = inp[1], inp[2]
        for j in range(len(args)):
            yield ["parse", args[:j] + args[j + 1:], kw]
        for j in range(len(kw)):
            yield ["parse", args, kw[:j] + kw[j + 1:]]
    else:
        runs = inp[1]
        rest = inp[2:]
        for i in range(len(runs)):
            yield [kind, runs[:i] + runs[i + 1:]] + rest
        for i, (s, a) in enumerate(runs):
            if len(s) > 1:
                yield [kind, runs[:i] + [[s[:1], a]] + runs[i + 1:]] + rest
            for j in range(8):
                if a[j]:
                    b = list(a)
                    b[j] = 0
                    yield [kind, runs[:i] + [[s, b]] + runs[i + 1:]] + rest


LEVEL_TEXT = ("Machine-checked theorems (Coq) for ALL FmtStrs and ALL specifications over int/bool/str/None values: a valid "
              "specification in any spelling and order parses to exactly the named attributes, fmtstr/fmtfuncs/"
              "copy_with_new_atts change every cell by the override function and nothing else, spellings agree, distinct "
              "attributes commute and the later call wins on the same attribute, new_with_atts_removed clears exactly the "
              "named keys, copy_with_new_str keeps a uniform FmtStr's display, every member of the invalid catalogue raises "
              "ValueError, shared_atts reports only what every character has; the name/number tables are regenerated from "
              "the code on every run and the model is compared with the implementation inside Coq on generated calls")
LEVEL_NOTE = ("Trusted: Coq kernel+vm_compute, Spec/AttSpec.v, gen_tables.py, the canonicalisers. Modelled not verified: dict "
              "semantics, ==/hash of the four value types, functools.partial, str.lower() (assumption re-checked by brute "
              "force each run). Narrowings: values are int/bool/str/None; start strs without ESC '['; 'uniformly formatted' "
              "counts empty runs; Kelvin sign is a case variant of k; bold=0/None and ('bold', bold=False) are outside")
TECHNIQUE = ("Coq proof: loop invariant over the positional arguments against a declarative classification, table facts by "
             "kernel computation on the generated tables, field-wise case analysis; in-Coq differential correspondence")
