"""C11 -- width_aware_splitlines wraps to the column limit without losing anything."""
import itertools
import signal

from cwcwidth import wcwidth

import canon
from canon import coq_fs, coq_z, coq_list, coq_res

ID = "C11"
LEVEL = "proof"
PROPS_FILE = "Props/C11.v"
CORR_VO = "Corr/C11.vo"
REQUIRE = "From Curtsies Require Import Model.Base Corr.C11."
CASE_TYPE = "C11.case"
MODEL_OK = "C11.model_ok"
SPEC_OK = "C11.spec_ok"
SHARD = 600
RUN_ALARM = False     # every call already runs under this module's own interval timer (_guarded)

WIDE = "Ｅ"      # FULLWIDTH LATIN CAPITAL LETTER E
COMB = "̀"      # COMBINING GRAVE ACCENT
ALPHA = ["a", WIDE, COMB]
EXPECTED_WIDTHS = {"a": 1, "b": 1, WIDE: 2, COMB: 0, " ": 1}
for _c, _w in EXPECTED_WIDTHS.items():
    if wcwidth(_c) != _w:
        raise RuntimeError("cwcwidth.wcwidth(%r) = %r, expected %r" % (_c, wcwidth(_c), _w))

ATTS3 = [[0, 0, 0, 0, 0, 0, 0, 0], [2, 0, 1, 0, 0, 0, 0, 0], [0, 5, 0, 0, 0, 2, 0, 0]]

EXHAUSTIVE = {"quick": True, "thorough": True}
RULE = ("EXHAUSTIVE part: every string over {a, U+FF25 (width 2), U+0300 (width 0)} of length <= 5 (quick) / <= 6 "
        "(thorough) x every layout with 0, 1 or 2 cuts into runs of different formatting (empty runs included, plus the "
        "FmtStr without runs) x columns 2, 3, 4; the same run 2 or 3 times in a row, as one shared Chunk object (what f * n "
        "and x + x build) and as equal distinct objects; one case = one FmtStr with the three column values. RANDOM part: longer "
        "FmtStrs (up to 5 runs, random attributes, spaces, more wide/combining characters) with random columns 2..12 and "
        "the out-of-range values 1, 0, -1, and a malformed stream with control characters (ValueError). Widths are read "
        "from cwcwidth at run time and handed to Coq with the case. Half of the cases consume the wraps for their column values one after the other with list(), the other half "
        "keep all of them alive as generators and advance them in turn. Observation: list(f.width_aware_splitlines(n)) as "
        "per-character cells per line, exception class. non-trivial = a wide character is pushed to the next line "
        "(padding) or a zero-width character is present; distinct = distinct (runs, columns)")
TRUSTED = [
    "Coq 8.16.1 kernel incl. vm_compute (no native_compute); Print Assumptions: closed under the global context",
    "reference notions coq/Spec/Columns.v (column expansion, greedy wrap, the predicates widths_ok / pads_ok)",
    "cwcwidth (C library): its wcwidth values are data of each case; wcswidth modelled as sum or -1",
    "harness canonicaliser harness/canon.py (FmtStr runs -> Coq literal) and the parser of coqc's answer",
    "modelled, not verified: generator protocol (list() of the generator: a raise loses the lines yielded before), "
    "Python str slicing, list append / del",
]
ASSUMPTIONS = [
    "columns >= 2 (below, ValueError: in the model and the correspondence)",
    "every character of the input has wcwidth 0, 1 or 2 (a character with wcwidth -1 gives ValueError: model and "
    "correspondence only); wcwidth(' ') = 1",
]


def layouts(s):
    n = len(s)
    yield [[s, ATTS3[0]]]
    for i in range(n + 1):
        yield [[s[:i], ATTS3[0]], [s[i:], ATTS3[1]]]
    for i in range(n + 1):
        for j in range(i, n + 1):
            yield [[s[:i], ATTS3[0]], [s[i:j], ATTS3[1]], [s[j:], ATTS3[2]]]


def generate(rng, tier):
    maxlen = 6 if tier == "thorough" else 5
    yield {"runs": [], "columns": [2, 3, 4]}
    for n in range(maxlen + 1):
        for tup in itertools.product(ALPHA, repeat=n):
            s = "".join(tup)
            for runs in layouts(s):
                yield {"runs": runs, "columns": [2, 3, 4]}
    # the same run several times in a row, as ONE Chunk object (what f * n and x + x build) and as equal but
    # distinct objects
    for n in range(1, 4):
        for tup in itertools.product(ALPHA, repeat=n):
            s = "".join(tup)
            for k in (2, 3):
                for share in (True, False):
                    yield {"runs": [[s, ATTS3[1]]] * k, "columns": [2, 3, 4], "share": share}
                    yield {"runs": [["a", ATTS3[0]]] + [[s, ATTS3[1]]] * k + [[WIDE, ATTS3[2]]], "columns": [2, 3, 5],
                           "share": share}
    for text in (WIDE * 50, "a" + WIDE * 40, WIDE * 20 + "ab" + WIDE * 25 + COMB, ("a" + WIDE) * 30):
        yield {"runs": [[text, ATTS3[1]]], "columns": [31, 33, 45], "share": False}
        yield {"runs": [[text[:25], ATTS3[0]], [text[25:], ATTS3[2]]], "columns": [30, 32, 63, 79], "share": False}
    nrand = 8000 if tier == "thorough" else 400
    alpha_ok = "ab " + WIDE * 3 + COMB * 2 + "中́x\u0902\u0e34"      # incl. zero-width marks of combining class 0
    for k in range(nrand):
        alphabet = alpha_ok + "\n\t\x00\x7f" if k % 12 == 11 else alpha_ok
        runs = canon.rand_runs(rng, maxruns=5, maxlen=9, alphabet=alphabet)
        cols = [rng.randint(2, 12) for _ in range(3)]
        if k % 7 == 0:
            cols.append(rng.choice([1, 0, -1]))
        yield {"runs": runs, "columns": cols}


class Hang(Exception):
    """the implementation did not finish within HANG_SECONDS (reported as OtherError)"""


HANG_SECONDS = 2.0
_hangs = 0


def _guarded(thunk):
    """the loops of request / _width_aware_splitlines are `while True`: a defect there can spin and allocate
    without bound, so every call runs under a wall-clock alarm.  A normal call takes microseconds; the
    allowance starts at HANG_SECONDS and is halved after every observed hang (floor 10 ms) so that a tree
    in which most inputs hang still finishes and is reported"""
    global _hangs

    def on_alarm(signum, frame):
        raise Hang()
    old = signal.signal(signal.SIGALRM, on_alarm)
    signal.setitimer(signal.ITIMER_REAL, max(0.01, HANG_SECONDS / 2 ** _hangs))
    try:
        return thunk()
    except Hang:
        _hangs += 1
        raise
    finally:
        signal.setitimer(signal.ITIMER_REAL, 0)
        signal.signal(signal.SIGALRM, old)


def _lines_consistent(lines):
    """every line handed out must measure itself correctly: .width and len() of a line are those of its characters
    (a line is an ordinary FmtStr; what built it must not leave wrong memoised measurements behind)"""
    for ln in lines:
        if ln.width != sum(max(wcwidth(c), 0) for c in ln.s) or len(ln) != len(ln.s):
            return False
    return True


def _interleaved(f, cols):
    """the wraps for all column values as generators that are alive at the same time and advanced in turn (side by
    side layout, zip() of two wraps): each must behave as if it were alone"""
    gens, res = [], []
    for n in cols:
        try:
            gens.append(f.width_aware_splitlines(n))
            res.append(["ok", []])
        except Exception as e:  # noqa
            gens.append(None)
            res.append(["raise", canon.exn_name(e)])
    live = [g is not None for g in gens]
    while any(live):
        for i, g in enumerate(gens):
            if not live[i]:
                continue
            try:
                res[i][1].append(canon.canon_fs(next(g)))
            except StopIteration:
                live[i] = False
            except Exception as e:  # noqa   (list() of a generator that raises loses the lines yielded before)
                live[i] = False
                res[i] = ["raise", canon.exn_name(e)]
    return res


def run(inp):
    f = canon.build_fs(inp["runs"], inp.get("share"))
    if (len(inp["runs"]) + len(inp["columns"]) + sum(len(s) for s, _ in inp["runs"])) % 2:
        try:
            return _guarded(lambda: _interleaved(f, inp["columns"]))
        except Hang:
            return [["raise", "OtherError"] for _ in inp["columns"]]
    def conv(ls):
        if not _lines_consistent(ls):
            raise canon.Unrepresentable("a line's own width / len disagree with its characters")
        return [canon.canon_fs(x) for x in ls]
    outs = []
    for n in inp["columns"]:
        try:
            outs.append(canon.outcome(lambda: _guarded(lambda: list(f.width_aware_splitlines(n))), conv))
        except canon.Unrepresentable:
            outs.append(["raise", "OtherError"])
    return outs


def widths_literal(chars):
    return coq_list(["(%d, %s)" % (ord(c), coq_z(wcwidth(c))) for c in sorted(set(chars) | {" "})])


def to_coq(inp, out):
    chars = set("".join(t for t, _ in inp["runs"]))
    qs = ["(%s, %s)" % (coq_z(n), coq_res(o, lambda ls: coq_list([coq_fs(x) for x in ls])))
          for n, o in zip(inp["columns"], out)]
    return "(%s, %s, %s)" % (widths_literal(chars), coq_fs(inp["runs"]), coq_list(qs))


def to_json_input(inp):
    return inp


def to_json_output(out):
    return out


def from_json(obj):
    return {"runs": obj["runs"], "columns": obj["columns"]}


def key(inp):
    return repr((inp["runs"], inp["columns"], inp.get("share")))


def _padded(inp, o):
    if o[0] != "ok":
        return False
    n_in = sum(len(t) for t, _ in inp["runs"])
    n_out = sum(len(t) for line in o[1] for t, _ in line)
    return n_out > n_in


def nontrivial(inp, out):
    s = "".join(t for t, _ in inp["runs"])
    return any(wcwidth(c) == 0 for c in s) or any(_padded(inp, o) for o in out)


def stats(inp, out):
    runs = inp["runs"]
    s = "".join(t for t, _ in runs)
    yield "runs=%d" % min(len(runs), 5)
    yield "chars=%s" % ("0" if not s else "1-3" if len(s) <= 3 else "4-6" if len(s) <= 6 else "7+")
    if any(not t for t, _ in runs):
        yield "has_empty_run"
    if any(wcwidth(c) == 2 for c in s):
        yield "has_wide"
    if any(wcwidth(c) == 0 for c in s):
        yield "has_zero_width"
    if any(wcwidth(c) < 0 for c in s):
        yield "has_negative_width_char"
    for n, o in zip(inp["columns"], out):
        if o[0] == "raise":
            yield "raises_" + o[1]
            continue
        yield "lines=%s" % ("0" if not o[1] else "1" if len(o[1]) == 1 else "2-3" if len(o[1]) <= 3 else "4+")
        if _padded(inp, o):
            yield "q_padding_added"
        if o[1] and all(wcwidth(c) == 0 for t, _ in o[1][-1] for c in t):
            yield "q_last_line_zero_width_only"
        # a run ends exactly at a line boundary
        w = 0
        for t, _ in runs:
            w += sum(max(wcwidth(c), 0) for c in t)
            if t and w and w % n == 0:
                yield "q_run_ends_at_line_boundary"
                break
        if n < 2:
            yield "q_columns<2"


def shrink(inp):
    runs, cols = inp["runs"], inp["columns"]
    if len(cols) > 1:
        for c in cols:
            yield {"runs": runs, "columns": [c]}
        return
    for i in range(len(runs)):
        yield {"runs": runs[:i] + runs[i + 1:], "columns": cols}
    for i, (s, a) in enumerate(runs):
        for j in range(len(s)):
            yield {"runs": runs[:i] + [[s[:j] + s[j + 1:], a]] + runs[i + 1:], "columns": cols}
        if any(a):
            yield {"runs": runs[:i] + [[s, [0] * 8]] + runs[i + 1:], "columns": cols}


LEVEL_TEXT = ("Machine-checked theorems (Coq) for ALL FmtStrs whose characters have width 0, 1 or 2, any number of runs, "
              "all columns >= 2, about the model of ChunkSplitter.request / _width_aware_splitlines annotated with which "
              "cells are paddings: the inner loop's fuel is never exhausted and no assertion fires; the original cells of "
              "all lines concatenated are exactly the input's cells; every line is at most `columns` wide, every line but "
              "the last exactly, none empty; every padding is the last cell of its line, a space, and followed by an "
              "original double-width character in the same graphic state. Agreement of the model with the implementation "
              "is checked exhaustively on small inputs in every run")
LEVEL_NOTE = ("Trusted: Coq kernel+vm_compute, Spec/Columns.v, the canonicaliser; cwcwidth's per-character widths are inputs "
              "(Section variable wc; theorems assume range {0,1,2} on the input's characters). Modelled not verified: "
              "generator protocol, Python str slicing, list operations")
TECHNIQUE = ("Coq proof: simulation of the splitter loops by a per-character greedy machine, invariants by induction; "
             "exhaustive small-scope in-Coq differential correspondence with widths read from cwcwidth at run time")
