"""C12 -- leaving any curtsies context restores terminal, tty and signal state.

A case is one scenario run on a REAL pty with the REAL managers of /repo (Input, Cbreak,
Termmode, Nonblocking, ReplacedSigIntHandler, BaseWindow / FullscreenWindow /
CursorAwareWindow), in a forked child process of the check (so that nothing a scenario does to
signal handlers, wake-up descriptors, descriptor tables or threads can leak into the next one):

  input  = thread kind, terminal size, initial environment (toggled c_iflag / c_lflag bits,
           VMIN/VTIME/VSTART/VSTOP, O_NONBLOCK / O_APPEND, SIGINT handler, wake-up descriptor
           installed or not), a scripted program and one cut point (or none)
  output = the environment observed before and after (tcgetattr, F_GETFL, getsignal, wake-up
           descriptor probe, /proc/self/fd), every out_stream.write, the place the exception
           really came out, snapshots of the environment at labelled steps, the observed shape
           of every request (returned before waiting? how many os.read calls?) and of every
           render (the writes it made)

Program (JSON):  op ::= ["site", id] | ["with", mgr, [op...]] | ["request", input_obj, id, kind]
                      | ["render", id, [[text, colour|null]...], bomb_row] | ["trig_create", input_obj]
                      | ["trig_call", id, k] | ["repeat", n, [op...]]
mgr ::= ["input", obj, sigint_event, disable_start_stop] | ["cbreak"] | ["termmode", [lflag names], [[cc index, value]...]]
      | ["nonblocking"] | ["rsh", handler] | ["base", hide] | ["fs", hide] | ["caw", hide, keep_last_line]
kind ::= timeout0 | timeout | key | keys2 | paste | queued | badkey | sigint
cut ::= null | ["site", id] | ["select", req] | ["read", req, j] | ["decode", req, j] | ["render", id]

Harness-side patches inside the child (nothing in /repo is touched): curtsies.input.select ->
wrapper that polls the real select (no real waiting: an expired timeout is simulated), snapshots,
raises the injected exception "out of select" and, for a `sigint` request, lets a helper thread
os.kill(SIGINT) the process while the main thread is REALLY blocked inside select.select;
curtsies.input.os -> proxy whose read() on the input stream snapshots / raises inside
`with Nonblocking`; curtsies.input.events -> proxy whose get_key() raises "out of decoding";
curtsies.input.getpreferredencoding -> utf-8; blessed.Terminal.height/width -> the case's size.
The output stream is an in-memory recorder (one entry per write call) that answers the cursor
position query of CursorAwareWindow.__enter__ through the pty master.

Determinism: nothing is synchronised by sleeping.  Typed bytes are waited for with FIONREAD; a
request never really waits for its timeout (the select wrapper polls; "nothing ready" = expired);
the SIGINT helper blocks SIGINT for itself, sends it once the main thread is on its way into the
real select, then writes to a harness-private wake pipe, so the main thread runs the handler
before control is back in curtsies whatever the scheduling (the same scenario gives byte-identical
observations under heavy load).  In the child every inherited descriptor except 0-2 is closed;
the result goes back to the check through descriptor 200 (visible, and constant, in every observed
descriptor table); the wake pipe exists only in scenarios with a `sigint` request.
"""
import array
import fcntl
import io
import json
import os
import select as real_select_mod
import signal
import sys
import termios
import threading
import time as real_time

import blessed

import curtsies.input as ci
from curtsies import events
from curtsies.formatstring import FmtStr, fmtstr
from curtsies.input import ReplacedSigIntHandler
from curtsies.termhelpers import Cbreak, Termmode, Nonblocking
from curtsies.window import BaseWindow, FullscreenWindow, CursorAwareWindow

import termref
from canon import coq_str

ID = "C12"
LEVEL = "proof"
PROPS_FILE = "Props/C12.v"
CORR_VO = "Corr/C12.vo"
REQUIRE = ("From Curtsies Require Import Model.Base Spec.Sgr Spec.Term Model.Ctx Spec.CtxSpec Corr.C12.\n"
           "Import C12.")
CASE_TYPE = "C12.case"
MODEL_OK = "C12.model_ok"
SPEC_OK = "C12.spec_ok"
EXHAUSTIVE = {"quick": False, "thorough": False}
SHARD = 24

RULE = ("scenario = thread kind (main / non-main) x random initial environment (c_lflag/c_iflag bits, VMIN/VTIME/VSTART/VSTOP, "
        "O_NONBLOCK/O_APPEND, SIGINT handler default/SIG_IGN/custom raising/custom silent, a wake-up descriptor installed "
        "or not) x a program skeleton (each manager alone; Input in Input; Input in/around FullscreenWindow and "
        "CursorAwareWindow; random nestings of Cbreak/Termmode/Nonblocking/ReplacedSigIntHandler/Input/one window; "
        "unrolled repetitions; the same Input object re-entered inside other managers; 200-cycle (quick) / 1000-cycle (thorough) enter-exit loops for the descriptor-leak clause) "
        "whose bodies hold renders, requests (timeout, key, two keys, paste, queued event, undecodable key, real SIGINT "
        "while blocked in select), trigger creations and calls, x EVERY cut point of that skeleton: no exception, an "
        "exception at each statement boundary of every body, out of select, out of each os.read inside `with "
        "Nonblocking`, out of decoding, at a row of a render, KeyboardInterrupt / custom handler exception from a real "
        "os.kill(SIGINT) during a blocked select. non-trivial = the program enters at least one manager and either "
        "nests, repeats or is cut; distinct = distinct (initial environment, program, cut)")
TRUSTED = [
    "Coq 8.16.1 kernel incl. vm_compute; Print Assumptions: closed under the global context",
    "reference terminal model coq/Spec/Term.v (cursor visibility, alternate screen, main buffer); pyte ignores ?1049 so it "
    "is the only oracle for 'main screen untouched'",
    "tokeniser harness/termref.py; the harness's snapshot code (tcgetattr, F_GETFL, getsignal, set_wakeup_fd probe, "
    "/proc/self/fd) and its abstraction of termios lists to the model's tty record",
    "modelled, not verified: `with` statement semantics (exit runs iff enter returned; the managers' __exit__ return None), "
    "termios/fcntl/signal/os.pipe semantics (lowest free descriptor; tcsetattr(tcgetattr()) is the identity), blessed "
    "capability strings for xterm-256color, sys.platform != darwin",
    "harness: one forked child per scenario, the select / os.read / events.get_key proxies and the out_stream recorder "
    "described in the module docstring of harness/props/c12.py; the request shapes (returned before waiting, number of "
    "reads) and the writes of each render are OBSERVED and handed to the model, not predicted by it",
]
ASSUMPTIONS = [
    "PARTIAL: asynchronous exceptions arriving while an __enter__/__exit__ itself or a C call is executing are not "
    "expressible in the model (an exception is raised between atomic steps: statements of a body, writes of a render, the "
    "select / os.read / decode steps of a request)",
    "the SIGINT handler in place before entering is one Python can see and re-install (signal.getsignal() is not None)",
    "the cursor-position query of CursorAwareWindow.__enter__ is answered and nothing is typed ahead of the answer "
    "(otherwise __enter__ raises after cbreak was set: witness ctx_cursor_query_failure_leaves_cbreak)",
    "window contexts on one terminal are not nested inside a FullscreenWindow body in a way that switches screens (witness "
    "ctx_nested_fullscreen_touches_main); same-object re-entrant nesting is outside the quantifier",
    "trigger pipes (threadsafe_event_trigger) stay open by design and are excepted from the leak clause",
    "the whole program runs on one thread (enter, body and exit on the same thread)",
]
LEVEL_TEXT = ("Machine-checked theorems (Coq) about a model of every context manager of curtsies (what __enter__ changes and "
              "saves, what __exit__ puts back; `with` semantics: exit runs iff enter returned) over an explicit environment "
              "(tty attributes, file status flags, SIGINT handler, wake-up descriptor, descriptor table with owners, "
              "reference terminal): for EVERY program (any nesting of the managers around renders, requests, trigger "
              "creations / calls, any repetition), every initial environment, main and non-main thread and EVERY cut point "
              "(the step after which an exception leaves), the environment after is the environment before up to trigger "
              "pipes, nothing leaks, the cursor is visible and the main screen active and untouched, and the stream is never "
              "left non-blocking outside a Nonblocking region.  The model is tied to the code on every run by executing "
              "scripted programs with the real managers on a real pty (real signals, real descriptors) and comparing, inside "
              "Coq, every observed environment, the place of the exception and every byte written")
LEVEL_NOTE = ("PARTIAL: an exception is raised only BETWEEN atomic steps of the model (statements of a body, writes of a "
              "render, the select / os.read / decode steps of a request).  Asynchronous exceptions (KeyboardInterrupt from a "
              "signal, exceptions from other handlers) arriving while an __enter__ or __exit__ itself is executing, or inside a "
              "C call (tcsetattr, fcntl, os.pipe, set_wakeup_fd), cannot be modelled and are not covered; neither is "
              "same-object re-entrant nesting.  Refuted variants are stated as witnesses: a SIGINT handler invisible to Python "
              "(getsignal() is None), a failing cursor query in CursorAwareWindow.__enter__ (leaves cbreak), a window nested "
              "in a FullscreenWindow body.  Trusted: the environment semantics (termios, fcntl, signal, lowest free "
              "descriptor), Spec/Term.v, the tokeniser and the harness's snapshot code.  Judged by the harness alone, outside "
              "the model (whose contexts are all over a working terminal): in every scenario's process an Input.__enter__ over a "
              "pipe is refused with termios.error and must leave SIGINT handler, wake-up descriptor and descriptor table as they were")
TECHNIQUE = ("Coq: structural induction over program trees with a budget-indexed big-step semantics and a trace of "
             "environments (restore / no-leak / flags-outside-Nonblocking invariants), witnesses by kernel evaluation; in-Coq "
             "differential correspondence against the real managers on a pty in a forked child per scenario, with exceptions "
             "injected at every cut point and real SIGINTs sent while the main thread is blocked in select")

# ---------------------------------------------------------------------------------------------
IFLAGS = ["ICRNL", "INLCR", "ISTRIP", "IXON", "IXANY"]
LFLAGS = ["ECHO", "ECHOE", "ECHOK", "ECHONL", "ICANON", "IEXTEN", "ISIG", "NOFLSH", "TOSTOP"]
OFLAGS = ["ONLCR", "OCRNL"]
CC_IDX = [termios.VTIME, termios.VMIN, termios.VSTART, termios.VSTOP]      # 5 6 8 9
CC_VALUES = [0, 1, 2, 17, 19, 65, 66]       # never a byte the harness types (lower-case letters, ESC [ digits ; R, >= 0x80)
FLBITS = {"APPEND": os.O_APPEND, "NONBLOCK": os.O_NONBLOCK}
HANDLERS = ["default", "dfl", "ign", "user1", "user2"]     # user1 raises, user2 is silent
RSH_HANDLERS = ["default", "ign", "user3", "user4"]        # user3 raises, user4 is silent
KEY_DATA = {"key": b"a", "keys2": b"bc", "paste": b"pastedtextxyz", "badkey": b"\x1b\xc3\xa9"}
MAXSNAPS = 48
RESULT_FD = 200
SCENARIO_TIMEOUT = 15.0        # a scenario takes 20-60 ms on the unchanged tree; the 1000-cycle leak loops about 1 s


class Cut(Exception):
    """the injected exception"""


class UserSigint(Exception):
    """raised by the custom raising SIGINT handlers"""


class HarnessError(Exception):
    pass


def _user1(signum, frame):
    raise UserSigint("user1")


def _user2(signum, frame):
    return None


def _user3(signum, frame):
    raise UserSigint("user3")


def _user4(signum, frame):
    return None


USER = {"user1": (_user1, 1), "user2": (_user2, 2), "user3": (_user3, 3), "user4": (_user4, 4)}


def _handler_obj(name):
    if name == "default":
        return signal.default_int_handler
    if name == "dfl":
        return signal.SIG_DFL
    if name == "ign":
        return signal.SIG_IGN
    return USER[name][0]


class Proxy:
    def __init__(self, real, **over):
        self.__dict__["_real"] = real
        self.__dict__.update(over)

    def __getattr__(self, name):
        return getattr(self._real, name)


def _cc_int(c):
    return c if isinstance(c, int) else (c[0] if len(c) else 0)


def abs_tty(a):
    """termios list -> the model's tty record [icrnl, echo, icanon, vmin, vtime, vstart, vstop, rest]"""
    iflag, oflag, cflag, lflag, isp, osp, cc = a
    ccn = [_cc_int(c) for c in cc]
    rest = [iflag & ~termios.ICRNL, oflag, cflag, lflag & ~(termios.ECHO | termios.ICANON), isp, osp]
    rest += [v for i, v in enumerate(ccn) if i not in CC_IDX]
    return [bool(iflag & termios.ICRNL), bool(lflag & termios.ECHO), bool(lflag & termios.ICANON),
            ccn[termios.VMIN], ccn[termios.VTIME], ccn[termios.VSTART], ccn[termios.VSTOP], rest]


class _Recorder(io.StringIO):
    """out_stream: one entry per write call; answers the cursor position query"""

    def __init__(self, sc):
        io.StringIO.__init__(self)
        self.sc = sc
        self.writes = []

    def write(self, s):
        self.writes.append(s)
        if "\x1b[6n" in s:
            self.sc.answer_cursor_query()
        return len(s)

    def flush(self):
        return None


class Scenario:
    def __init__(self, inp):
        self.inp = inp
        self.main = bool(inp["main"])
        self.cut = list(inp["cut"]) if inp.get("cut") else None
        self.cut_done = False
        self.cut_label = None
        self.snaps = []
        self.snapped = set()
        self.shapes = {}
        self.renders = {}
        self.termmode = []          # abstract attrs, in order of first entry of each termmode op
        self.termmode_attrs = {}    # id(op) -> termios list
        self.notes = []
        self.ntrig = 0
        self.triggers = []
        self.inputs = {}
        self.input_of = {}          # id(Input object) -> obj number
        self.windows = []
        self.cur = None             # the request in progress
        self.hw = None              # harness wake pipe (sigint requests only)

    # ---- observation --------------------------------------------------------------------
    def fionread(self):
        buf = array.array("i", [0])
        fcntl.ioctl(self.slave, termios.FIONREAD, buf)
        return buf[0]

    def open_fds(self):
        """the descriptor table; the descriptor listdir itself uses for the listing is gone again afterwards"""
        fds = []
        for name in os.listdir("/proc/self/fd"):
            try:
                os.fstat(int(name))
            except OSError:
                continue
            fds.append(int(name))
        return sorted(fds)

    def handler_name(self, h):
        if h is None:
            return ["HNone"]
        if h == signal.SIG_DFL:
            return ["HDfl"]
        if h == signal.SIG_IGN:
            return ["HIgn"]
        if h is signal.default_int_handler:
            return ["HPyDefault"]
        for f, n in USER.values():
            if h is f:
                return ["HUser", n]
        owner = getattr(h, "__self__", None)
        if owner is not None and id(owner) in self.input_of and getattr(h, "__name__", "") == "sigint_handler":
            return ["HInput", self.input_of[id(owner)]]
        return ["HUser", 999]

    def observe(self, full):
        o = {"tty": abs_tty(termios.tcgetattr(self.slave)),
             "fl": fcntl.fcntl(self.slave, fcntl.F_GETFL),
             "handler": self.handler_name(signal.getsignal(signal.SIGINT))}
        if full:
            old = signal.set_wakeup_fd(-1)
            signal.set_wakeup_fd(old, warn_on_full_buffer=False)
            o["wakeup"] = old
        else:
            o["wakeup"] = None
        o["fds"] = self.open_fds()
        return o

    def snap(self, label, outside):
        key = tuple(label)
        if key in self.snapped or len(self.snaps) >= MAXSNAPS:
            return
        self.snapped.add(key)
        full = threading.current_thread() is threading.main_thread()
        self.snaps.append({"label": list(label), "partial": not full, "outside_nb": bool(outside),
                           "obs": self.observe(full)})

    # ---- the pty ----------------------------------------------------------------------------
    def feed(self, data):
        """type bytes on the terminal and wait until the line discipline has delivered them"""
        if termios.tcgetattr(self.slave)[3] & termios.ICANON:
            self.notes.append("canonical mode: %d bytes not typed" % len(data))
            return
        n0 = self.fionread()
        os.write(self.master, data)
        t = real_time.time()
        while self.fionread() != n0 + len(data):
            if real_time.time() - t > 10:
                raise HarnessError("pty did not deliver %r: %d readable, expected %d" % (data, self.fionread(), n0 + len(data)))
            real_time.sleep(0)

    def answer_cursor_query(self):
        row = min(1, self.inp["h"] - 1)
        self.feed(b"\x1b[%d;1R" % (row + 1))

    # ---- proxies installed into curtsies.input ----------------------------------------------------
    def fire(self, kind, *args):
        return (not self.cut_done) and self.cut is not None and self.cut == [kind] + list(args)

    def raise_cut(self, label):
        self.cut_done = True
        self.cut_label = list(label)
        raise Cut("%s" % (label,))

    def sel(self, rl, wl, xl, timeout=None):
        cur = self.cur
        if cur is None:
            return real_select_mod.select(rl, wl, xl, 0)
        first = cur["selects"] == 0
        cur["selects"] += 1
        cur["phase"] = "select"
        if first:
            self.snap(("NSelect", cur["id"], 0), cur["nbd"] == 0)
            if self.fire("select", cur["id"]):
                self.raise_cut(("NSelect", cur["id"], 0))
        rs = real_select_mod.select(rl, [], [], 0)[0]
        if not rs and cur["sigint"]:
            cur["sigint"] = False
            rs = self.blocked_sigint(rl, cur)
        return rs, [], []

    def blocked_sigint(self, rl, cur):
        """the calling (main) thread blocks in the real select; a helper thread sends SIGINT to the process"""
        if signal.getsignal(signal.SIGINT) == signal.SIG_DFL:
            self.notes.append("SIGINT not sent: the disposition is SIG_DFL")
            return []
        hr, hw = self.hw
        entered = threading.Event()

        def helper():
            signal.pthread_sigmask(signal.SIG_BLOCK, {signal.SIGINT})      # the main thread takes it
            entered.wait()
            os.kill(os.getpid(), signal.SIGINT)
            os.write(hw, b"x")

        th = threading.Thread(target=helper, daemon=True)
        th.start()
        try:
            try:
                entered.set()
                rs = real_select_mod.select(list(rl) + [hr], [], [], 30.0)[0]
            finally:
                th.join()
                os.read(hr, 1)
            if not rs:
                raise HarnessError("blocked select was not woken")
            # whatever the signal made readable (the handler has run by now)
            return real_select_mod.select(rl, [], [], 0)[0]
        except HarnessError:
            raise
        except BaseException:
            if self.cut_label is None:
                self.cut_done = True
                self.cut_label = ["NSelect", cur["id"], 0]
            raise

    def os_read(self, fd, n):
        cur = self.cur
        if cur is None or fd != self.slave:
            return os.read(fd, n)
        j = cur["reads"]
        cur["reads"] += 1
        cur["phase"] = "read"
        if j < 3:
            self.snap(("NRead", cur["id"], j), False)
        if self.fire("read", cur["id"], j):
            self.raise_cut(("NRead", cur["id"], j))
        try:
            return os.read(fd, n)
        finally:
            cur["phase"] = "decode"

    def get_key(self, *a, **k):
        cur = self.cur
        if cur is not None and cur["reads"] > 0 and self.fire("decode", cur["id"], cur["reads"] - 1):
            self.raise_cut(("NDecode", cur["id"], cur["reads"] - 1))
        return self.real_events.get_key(*a, **k)

    # ---- managers -------------------------------------------------------------------------------------
    def make_mgr(self, op):
        m = op[1]
        k = m[0]
        if k == "input":
            return self.inputs[m[1]]
        if k == "cbreak":
            return Cbreak(self.stream)
        if k == "termmode":
            attrs = self.termmode_attrs.get(id(op))
            if attrs is None:
                attrs = termios.tcgetattr(self.slave)
                for name in m[1]:
                    attrs[3] ^= getattr(termios, name)
                for i, v in m[2]:
                    attrs[6][i] = bytes([v]) if not isinstance(attrs[6][i], int) else v
                self.termmode_attrs[id(op)] = attrs
                self.termmode.append(abs_tty(attrs))
            return Termmode(self.stream, [x if not isinstance(x, list) else list(x) for x in attrs])
        if k == "nonblocking":
            return Nonblocking(self.stream)
        if k == "rsh":
            return ReplacedSigIntHandler(_handler_obj(m[1]))
        if k == "base":
            return BaseWindow(out_stream=self.rec, hide_cursor=m[1])
        if k == "fs":
            return FullscreenWindow(out_stream=self.rec, hide_cursor=m[1])
        if k == "caw":
            return CursorAwareWindow(out_stream=self.rec, in_stream=self.stream, keep_last_line=m[2], hide_cursor=m[1])
        raise HarnessError("unknown manager %r" % (m,))

    # ---- the program ------------------------------------------------------------------------------------
    def exec_ops(self, ops, nbd):
        for op in ops:
            k = op[0]
            if k == "site":
                self.snap(("NUser", op[1], 0), nbd == 0)
                if self.fire("site", op[1]):
                    self.raise_cut(("NUser", op[1], 0))
            elif k == "with":
                cm = self.make_mgr(op)
                is_window = op[1][0] in ("base", "fs", "caw")
                with cm:
                    if is_window:
                        self.windows.append(cm)
                    try:
                        self.exec_ops(op[2], nbd + (1 if op[1][0] == "nonblocking" else 0))
                    finally:
                        if is_window:
                            self.windows.pop()
            elif k == "request":
                self.request(op[1], op[2], op[3], nbd)
            elif k == "render":
                self.render(op[1], op[2], op[3])
            elif k == "trig_create":
                self.triggers.append(self.inputs[op[1]].threadsafe_event_trigger(_Ev))
                self.ntrig += 1
            elif k == "trig_call":
                self.triggers[op[2] % len(self.triggers)]()
            elif k == "repeat":
                for _ in range(op[1]):
                    self.exec_ops(op[2], nbd)
            else:
                raise HarnessError("unknown op %r" % (op,))

    def request(self, obj, rid, kind, nbd):
        I = self.inputs[obj]
        cur = {"id": rid, "selects": 0, "reads": 0, "nbd": nbd, "phase": "queue",
               "sigint": kind == "sigint" and threading.current_thread() is threading.main_thread()}
        timeout = 0 if kind in ("timeout0", "queued") else 3
        if kind in KEY_DATA:
            self.feed(KEY_DATA[kind])
        elif kind == "queued":
            I.event_trigger(_Ev)()
        self.cur = cur
        try:
            I.send(timeout)
        except BaseException:
            if self.cut_label is None:
                self.cut_done = True
                ph = cur["phase"]
                self.cut_label = (["NQueue", rid, 0] if ph == "queue" else ["NSelect", rid, 0] if ph == "select"
                                  else ["NRead", rid, cur["reads"] - 1] if ph == "read"
                                  else ["NDecode", rid, cur["reads"] - 1])
            raise
        finally:
            self.cur = None
            shape = [cur["selects"] == 0, cur["reads"]]
            old = self.shapes.setdefault(str(rid), shape)
            if old != shape:
                self.notes.append("request %d changed shape between repetitions: %r then %r" % (rid, old, shape))
                self.shapes[str(rid)] = ["differs", old, shape]

    def render(self, rid, rows, bomb):
        w = self.windows[-1]
        armed = bomb is not None and self.fire("render", rid)
        arr = []
        for i, (text, colour) in enumerate(rows):
            if armed and i == bomb:
                arr.append(_bomb_row(text))
            else:
                arr.append(fmtstr(text, fg=colour) if colour else fmtstr(text))
        n0 = len(self.rec.writes)
        complete = False
        try:
            w.render_to_terminal(arr, (0, 0))
            complete = True
        except Cut:
            self.cut_done = True
            self.cut_label = ["NUser", rid, 0]
            raise
        finally:
            r = {"hide": bool(w.hide_cursor), "complete": complete, "writes": self.rec.writes[n0:]}
            old = self.renders.setdefault(str(rid), r)
            if old != r:
                self.notes.append("render %d wrote something else in a repetition" % rid)
                self.renders[str(rid)] = dict(old, differs=True)

    # ---- one run -----------------------------------------------------------------------------------------
    def run(self):
        inp = self.inp
        assert threading.current_thread() is threading.main_thread()
        self.master, self.slave = os.openpty()
        self.stream = os.fdopen(self.slave, "r", closefd=False)
        # initial environment
        init = inp["init"]
        a = termios.tcgetattr(self.slave)
        for name in init["iflag"]:
            a[0] ^= getattr(termios, name)
        for name in init["oflag"]:
            a[1] ^= getattr(termios, name)
        for name in init["lflag"]:
            a[3] ^= getattr(termios, name)
        for i, v in init["cc"]:
            a[6][i] = bytes([v]) if not isinstance(a[6][i], int) else v
        termios.tcsetattr(self.slave, termios.TCSANOW, a)
        fl = fcntl.fcntl(self.slave, fcntl.F_GETFL)
        for name in init["fl"]:
            fl |= FLBITS[name]
        fcntl.fcntl(self.slave, fcntl.F_SETFL, fl)
        if _has_kind(inp["prog"], "sigint"):
            self.hw = os.pipe()
        if init["wakeup"]:
            self.init_wakeup = os.pipe()
            os.set_blocking(self.init_wakeup[1], False)
            signal.set_wakeup_fd(self.init_wakeup[1], warn_on_full_buffer=False)
        else:
            signal.set_wakeup_fd(-1)
        signal.signal(signal.SIGINT, _handler_obj(init["handler"]))
        # patches
        blessed.Terminal.height = property(lambda t: inp["h"])
        blessed.Terminal.width = property(lambda t: inp["w"])
        self.real_events = events
        ci.select = Proxy(real_select_mod, select=self.sel)
        ci.os = Proxy(os, read=self.os_read)
        ci.events = Proxy(events, get_key=self.get_key)
        ci.getpreferredencoding = lambda: "utf-8"
        self.rec = _Recorder(self)
        for cfg in _input_cfgs(inp["prog"]).values():
            I = ci.Input(in_stream=self.stream, sigint_event=cfg[1], disable_terminal_start_stop=cfg[2])
            self.inputs[cfg[0]] = I
            self.input_of[id(I)] = cfg[0]

        before = self.observe(True)
        box = {}

        def body():
            try:
                self.exec_ops(inp["prog"], 0)
                box["raised"] = None
            except HarnessError as e:
                box["raised"] = "HarnessError"
                box["error"] = "HarnessError: %s" % e
            except BaseException as e:       # Cut, KeyboardInterrupt, UserSigint, whatever the code raised
                box["raised"] = type(e).__name__
                box["detail"] = str(e)[:200]

        if self.main:
            body()
        else:
            th = threading.Thread(target=body)
            th.start()
            th.join()
        after = self.observe(True)
        if not box.get("error"):
            box["error"] = self.refused_enter()
        return {"error": box.get("error"), "before": before, "after": after, "raised": box.get("raised"),
                "cut_label": self.cut_label, "writes": list(self.rec.writes), "snaps": self.snaps, "ntrig": self.ntrig,
                "shapes": self.shapes, "renders": self.renders, "termmode": self.termmode, "notes": self.notes}


def _refused_enter(self):
    """An Input over a stream that is not a terminal: __enter__ raises before a context exists, so there is nothing to
    leave and nothing may have been changed -- handler, wake-up descriptor and descriptor table are as before.  (The
    model's contexts are all over a working terminal; this case is judged here and reported as a harness error.)"""
    for cfg in _input_cfgs(self.inp["prog"]).values():
        r, w = os.pipe()
        f = os.fdopen(r, "r", closefd=False)
        try:
            I = ci.Input(in_stream=f, sigint_event=cfg[1], disable_terminal_start_stop=cfg[2])
            b = self.observe(True)
            try:
                I.__enter__()
            except termios.error:
                a = self.observe(True)
                if a != b:
                    return ("Input(sigint_event=%r, disable_terminal_start_stop=%r).__enter__ on a stream that is not "
                            "a terminal raised termios.error and left the process changed: before %r after %r"
                            % (cfg[1], cfg[2], b, a))
            else:
                return "Input.__enter__ on a pipe did not raise termios.error"
        finally:
            os.close(r)
            os.close(w)
    return None


Scenario.refused_enter = _refused_enter


class _Bomb(FmtStr):
    """a row whose conversion to terminal text raises: an exception at a row of a render"""

    def __str__(self):
        raise Cut("render row")


def _bomb_row(text):
    return _Bomb(*fmtstr(text).chunks)


class _Ev(events.Event):
    pass


# ---- walking programs --------------------------------------------------------------------------------------------
def _walk(ops, depth=0):
    for op in ops:
        yield op, depth
        if op[0] == "with":
            yield from _walk(op[2], depth + 1)
        elif op[0] == "repeat":
            yield from _walk(op[2], depth)


def _has_kind(prog, kind):
    return any(op[0] == "request" and op[3] == kind for op, _ in _walk(prog))


def _input_cfgs(prog):
    """obj -> [obj, sigint_event, start_stop] for every Input named by the program"""
    cfgs = {}
    for op, _ in _walk(prog):
        if op[0] == "with" and op[1][0] == "input":
            cfgs.setdefault(op[1][1], [op[1][1], bool(op[1][2]), bool(op[1][3])])
    for op, _ in _walk(prog):
        if op[0] in ("request", "trig_create"):
            cfgs.setdefault(op[1], [op[1], False, False])
    return cfgs


# ---- running a scenario in a forked child ------------------------------------------------------------------------------
def _child(inp, wfd):
    try:
        os.dup2(wfd, RESULT_FD)
        keep = {0, 1, 2, RESULT_FD}
        for name in os.listdir("/proc/self/fd"):
            fd = int(name)
            if fd not in keep:
                try:
                    os.close(fd)
                except OSError:
                    pass
        try:
            res = Scenario(inp).run()
        except BaseException as e:
            import traceback
            res = {"error": "%s: %s | %s" % (type(e).__name__, e, traceback.format_exc()[-600:])}
        data = json.dumps(res).encode()
        signal.signal(signal.SIGINT, signal.SIG_IGN)
        while data:
            n = os.write(RESULT_FD, data)
            data = data[n:]
    finally:
        os._exit(0)


def run(inp):
    sys.stdout.flush()
    sys.stderr.flush()
    rfd, wfd = os.pipe()
    pid = os.fork()
    if pid == 0:
        os.close(rfd)
        _child(inp, wfd)
    os.close(wfd)
    chunks = []
    deadline = real_time.time() + SCENARIO_TIMEOUT
    timed_out = False
    finished = False
    try:
        while True:
            left = deadline - real_time.time()
            if left <= 0:
                timed_out = True
                break
            if not real_select_mod.select([rfd], [], [], left)[0]:
                timed_out = True
                break
            d = os.read(rfd, 1 << 16)
            if not d:
                finished = True
                break
            chunks.append(d)
    finally:
        os.close(rfd)
        if not finished:           # timed out, or interrupted from outside (lib's budget alarm): never wait for a hung child
            try:
                os.kill(pid, signal.SIGKILL)
            except OSError:
                pass
        _, status = os.waitpid(pid, 0)
    if timed_out:
        return {"error": "scenario did not finish within %ds (killed)" % SCENARIO_TIMEOUT}
    try:
        out = json.loads(b"".join(chunks).decode())
    except ValueError:
        return {"error": "scenario process died (wait status %d) without a result" % status}
    if not out.get("error"):
        try:
            for w in out["writes"]:
                termref.tokenize(w)
        except termref.UnknownSequence as e:
            out["error"] = "output outside the modelled terminal language: %s" % e
    return out


# ---- Coq literals ---------------------------------------------------------------------------------------------------
def _b(x):
    return "true" if x else "false"


def _nat(n):
    return "%d%%nat" % n


def _tty(t):
    return "(mkTty %s %s %s %d %d %d %d [%s])" % (_b(t[0]), _b(t[1]), _b(t[2]), t[3], t[4], t[5], t[6],
                                                 ";".join(str(x) for x in t[7]))


def _handler(h):
    if len(h) == 2:
        return "(%s %s)" % (h[0], _nat(h[1]))
    return h[0]


def _obs(o):
    wk = o["wakeup"]
    return "(Obs %s %s %d %s %s [%s])" % (
        _tty(o["tty"]), _b(o["fl"] & os.O_NONBLOCK), o["fl"] & ~os.O_NONBLOCK, _handler(o["handler"]),
        "None" if wk is None or wk < 0 else "(Some %d)" % wk, ";".join(str(x) for x in o["fds"]))


def _lbl(l):
    return "(Lbl %s %d %d)" % (l[0], l[1], l[2])


def _cmd(tok):
    k = tok[0]
    if k == "Str":
        return "Str %s" % coq_str(tok[1])
    if k == "Cup":
        return "(Cup %d %d)%%nat" % (tok[1], tok[2])
    if k == "Cha":
        return "(Cha %d)%%nat" % tok[1]
    return k


def _cmds(s):
    return "[" + "; ".join(_cmd(t) for t in termref.tokenize(s)) + "]"


RSH_COQ = {"default": "HPyDefault", "dfl": "HDfl", "ign": "HIgn", "user1": "(HUser 1%nat)", "user2": "(HUser 2%nat)",
           "user3": "(HUser 3%nat)", "user4": "(HUser 4%nat)"}


class _ToCoq:
    def __init__(self, inp, out):
        self.inp, self.out = inp, out
        self.cfgs = _input_cfgs(inp["prog"])
        self.tm = list(out.get("termmode", []))
        self.tm_of = {}

    def icfg(self, obj):
        c = self.cfgs[obj]
        return "(mkIcfg %s %s %s)" % (_nat(c[0]), _b(c[1]), _b(c[2]))

    def mgr(self, op):
        m = op[1]
        k = m[0]
        if k == "input":
            return "(MInput %s)" % self.icfg(m[1])
        if k == "cbreak":
            return "MCbreak"
        if k == "termmode":
            if id(op) not in self.tm_of:     # order of first entry = pre-order; ops never reached: any value
                self.tm_of[id(op)] = self.tm.pop(0) if self.tm else self.out["before"]["tty"]
            return "(MTermmode %s)" % _tty(self.tm_of[id(op)])
        if k == "nonblocking":
            return "MNonblocking"
        if k == "rsh":
            return "(MRsh %s)" % RSH_COQ[m[1]]
        if k == "base":
            return "(MBaseWindow %s)" % _b(m[1])
        if k == "fs":
            return "(MFullscreen %s)" % _b(m[1])
        if k == "caw":
            return "(MCursorAware %s %s true)" % (_b(m[1]), _b(m[2]))
        raise ValueError(m)

    def ops(self, ops, hide):
        return "[" + ";\n   ".join(self.op(o, hide) for o in ops) + "]"

    def op(self, op, hide):
        k = op[0]
        if k == "site":
            return "SSite %s" % _nat(op[1])
        if k == "with":
            m = op[1]
            h2 = bool(m[1]) if m[0] in ("base", "fs", "caw") else hide
            mg = self.mgr(op)
            return "SWith %s %s" % (mg, self.ops(op[2], h2))
        if k == "request":
            sh = self.out["shapes"].get(str(op[2]), [True, 0])
            if sh[0] == "differs":
                sh = [True, 999999]            # never what the model computes
            return "SRequest %s %s %s %s" % (self.icfg(op[1]), _nat(op[2]), _b(sh[0]), _nat(sh[1]))
        if k == "render":
            r = self.out["renders"].get(str(op[1]))
            if r is None:
                return "SRender %s []" % _b(hide)
            ws = list(r["writes"])
            if r.get("differs"):
                ws = ws + ["\x1b[6n"]          # never what the model computes
            if not r["hide"]:
                ws = ws[1:-1] if r["complete"] else ws[1:]      # the cursor bracket is the model's business
            body = "[" + "; ".join(_cmds(w) for w in ws) + "]"
            if r["complete"]:
                return "SRender %s %s" % (_b(r["hide"]), body)
            return "SRenderCut %s %s %s" % (_b(r["hide"]), body, _nat(op[1]))
        if k == "trig_create":
            return "STrigCreate %s" % self.icfg(op[1])
        if k == "trig_call":
            return "STrigCall %s" % _nat(op[1])
        if k == "repeat":
            return "SRepeat %s %s" % (_nat(op[1]), self.ops(op[2], hide))
        raise ValueError(op)


def _failing_case(inp):
    """a literal on which model_ok is false: the harness could not observe the scenario"""
    t = "(mkTty false false false 0 0 0 0 [])"
    o = "(Obs %s false 0 HDfl None [])" % t
    return "mkCase %s %s %s %s [] (Some (Lbl NCall 999999 0)) false %s [] [] 0%%nat" % (
        _b(inp.get("main", True)), _nat(inp.get("h", 3)), _nat(inp.get("w", 3)), o, o)


def to_coq(inp, out):
    if out.get("error"):
        return _failing_case(inp)
    tc = _ToCoq(inp, out)
    prog = tc.ops(inp["prog"], True)
    toks = []
    for w in out["writes"]:
        toks += termref.tokenize(w)
    snaps = ";\n   ".join("mkSnap %s %s %s %s" % (_lbl(s["label"]), _b(s["partial"]), _b(s["outside_nb"]), _obs(s["obs"]))
                          for s in out["snaps"])
    return "mkCase %s %s %s\n  %s\n  %s\n  %s %s\n  %s\n  [%s]\n  [%s]\n  %s" % (
        _b(inp["main"]), _nat(inp["h"]), _nat(inp["w"]), _obs(out["before"]), prog,
        "None" if out["cut_label"] is None else "(Some %s)" % _lbl(out["cut_label"]),
        _b(out["raised"] is not None), _obs(out["after"]), "; ".join(_cmd(t) for t in toks), snaps, _nat(out["ntrig"]))


def to_json_input(inp):
    return inp


def to_json_output(out):
    return out


def from_json(obj):
    return obj


def key(inp):
    return json.dumps([inp["main"], inp["h"], inp["w"], inp["init"], inp["prog"], inp["cut"]], sort_keys=True)


def _depth(prog):
    return max([d + 1 for op, d in _walk(prog) if op[0] == "with"] or [0])


def nontrivial(inp, out):
    if out.get("error"):
        return False
    withs = [op for op, _ in _walk(inp["prog"]) if op[0] == "with"]
    if not withs:
        return False
    repeats = any(op[0] == "repeat" for op, _ in _walk(inp["prog"]))
    return _depth(inp["prog"]) >= 2 or repeats or out["cut_label"] is not None or len(withs) >= 2


def _mgr_label(m):
    k = m[0]
    if k == "input":
        return "input sigint_event=%s start_stop=%s" % (bool(m[2]), bool(m[3]))
    if k in ("base", "fs"):
        return "%s hide=%s" % (k, bool(m[1]))
    if k == "caw":
        return "caw hide=%s keep=%s" % (bool(m[1]), bool(m[2]))
    return k


def stats(inp, out):
    yield "thread:%s" % ("main" if inp["main"] else "non-main")
    init = inp["init"]
    yield "init_handler:%s" % init["handler"]
    yield "init_wakeup:%s" % bool(init["wakeup"])
    for f in init["fl"]:
        yield "init_flag:%s" % f
    for f in init["lflag"]:
        yield "init_lflag_toggled:%s" % f
    for f in init["iflag"]:
        yield "init_iflag_toggled:%s" % f
    seen = set()
    for op, _ in _walk(inp["prog"]):
        k = op[0]
        if k == "with":
            seen.add("mgr:%s" % _mgr_label(op[1]))
        elif k == "request":
            seen.add("request:%s" % op[3])
        elif k == "render":
            seen.add("op:render")
        elif k in ("trig_create", "trig_call"):
            seen.add("op:%s" % k)
        elif k == "repeat":
            seen.add("repeat:%d" % op[1])
    if inp["cut"] and inp["cut"][0] == "render":
        seen.add("op:render:bomb")
    for s in sorted(seen):
        yield s
    d = _depth(inp["prog"])
    if d:
        yield "nesting_depth:%s" % (d if d < 5 else "5+")
    if inp["cut"]:
        yield "cut_planned:%s" % inp["cut"][0]
    if out.get("error"):
        yield "outcome:HARNESS-ERROR"
        return
    if out["cut_label"]:
        yield "cut_at:%s" % out["cut_label"][0]
    yield "outcome:%s" % (out["raised"] or "normal")
    if any(s["partial"] for s in out["snaps"]):
        yield "snapshots_from_non_main_thread"
    if out["notes"]:
        yield "with_notes"


# ---- generator ----------------------------------------------------------------------------------------------------------
class _Ids:
    def __init__(self):
        self.n = 0
        self.obj = 0

    def id(self):
        self.n += 1
        return self.n

    def new_obj(self):
        self.obj += 1
        return self.obj


def _sites(ids, ops):
    out = [["site", ids.id()]]
    for op in ops:
        out += [op, ["site", ids.id()]]
    return out


def _rows(rng, h, w, n=None):
    n = rng.randint(1, h) if n is None else n
    rows = []
    for _ in range(n):
        ln = rng.choice([0, 1, w - 1, w, w])
        text = "".join(rng.choice("abcxyz.#") for _ in range(max(0, ln)))
        rows.append([text, rng.choice([None, None, "red", "blue"]) if text else None])
    return rows


def _render(rng, ids, h, w, n=None):
    rows = _rows(rng, h, w, n)
    return ["render", ids.id(), rows, rng.randrange(len(rows))]


def _input_mgr(rng, ids, se=None, ss=None):
    return ["input", ids.new_obj(), rng.random() < 0.6 if se is None else se, rng.random() < 0.5 if ss is None else ss]


def _termmode(rng):
    return ["termmode", sorted(rng.sample(LFLAGS, rng.choice([0, 1, 2, 3]))),
            [[i, rng.choice(CC_VALUES)] for i in sorted(rng.sample(CC_IDX, rng.choice([0, 1, 1, 2])))]]


def _window(rng, kind=None):
    kind = kind or rng.choice(["base", "fs", "fs", "caw", "caw"])
    if kind == "caw":
        return ["caw", rng.random() < 0.5, rng.random() < 0.5]
    return [kind, rng.random() < 0.5]


def _simple_mgr(rng, kind):
    if kind == "cbreak":
        return ["cbreak"]
    if kind == "termmode":
        return _termmode(rng)
    if kind == "nonblocking":
        return ["nonblocking"]
    if kind == "rsh":
        return ["rsh", rng.choice(RSH_HANDLERS)]
    raise ValueError(kind)


def _req(ids, obj, kind):
    return ["request", obj, ids.id(), kind]


def sk_alone(rng, h, w, kind, cfg=None):
    """one manager on its own"""
    ids = _Ids()
    if kind == "input":
        m = _input_mgr(rng, ids, *(cfg or (None, None)))
        body = [_req(ids, m[1], rng.choice(["key", "timeout", "timeout0"]))]
    elif kind in ("base", "fs", "caw"):
        m = cfg or _window(rng, kind)
        body = [] if kind == "base" else [_render(rng, ids, h, w), _render(rng, ids, h, w)]
    else:
        m = _simple_mgr(rng, kind)
        body = []
    return _sites(ids, [["with", m, _sites(ids, body)]])


def sk_input_in_input(rng, h, w):
    ids = _Ids()
    outer, inner = _input_mgr(rng, ids), _input_mgr(rng, ids)
    kinds = ["queued", "badkey", "key", "timeout0", "timeout", "keys2"]
    inner_body = [_req(ids, rng.choice([outer[1], inner[1]]), rng.choice(kinds[:1] + kinds[2:])) for _ in range(rng.choice([2, 3, 4]))]
    if rng.random() < 0.4:
        inner_body.append(_req(ids, rng.choice([outer[1], inner[1]]), "badkey"))
    outer_body = [["with", inner, _sites(ids, inner_body)], _req(ids, outer[1], rng.choice(["timeout0", "key", "sigint"]))]
    return _sites(ids, [["with", outer, _sites(ids, outer_body)]])


def sk_input_window(rng, h, w, wkind, input_outside):
    ids = _Ids()
    im = _input_mgr(rng, ids)
    wm = _window(rng, wkind)
    if input_outside:
        inner = [_render(rng, ids, h, w), _req(ids, im[1], rng.choice(["keys2", "key", "paste"])), _render(rng, ids, h, w)]
        body = [_req(ids, im[1], "timeout0"), ["with", wm, _sites(ids, inner)], _req(ids, im[1], rng.choice(["timeout", "queued"]))]
        return _sites(ids, [["with", im, _sites(ids, body)]])
    inner = [_req(ids, im[1], rng.choice(["key", "keys2"])), _render(rng, ids, h, w), _req(ids, im[1], rng.choice(["timeout", "sigint"]))]
    body = [_render(rng, ids, h, w), ["with", im, _sites(ids, inner)], _render(rng, ids, h, w)]
    return _sites(ids, [["with", wm, _sites(ids, body)]])


def sk_nesting(rng, h, w):
    """a chain of 3-5 distinct managers, at most one window"""
    ids = _Ids()
    pool = ["cbreak", "termmode", "nonblocking", "rsh", "input", "window", "input"]
    depth = rng.choice([3, 4, 4, 5, 5])
    chain = rng.sample(pool, depth)
    mgrs = []
    for k in chain:
        if k == "input":
            mgrs.append(_input_mgr(rng, ids))
        elif k == "window":
            mgrs.append(_window(rng))
        else:
            mgrs.append(_simple_mgr(rng, k))
    body = []
    # innermost body: a render if a window that can render encloses it; a request if the innermost tty-mode manager
    # is one that leaves the terminal in cbreak mode (the harness types keys only in non-canonical mode)
    wins = [m for m in mgrs if m[0] in ("fs", "caw")]
    if wins and rng.random() < 0.7:
        body.append(_render(rng, ids, h, w))
    ttym = [m for m in mgrs if m[0] in ("input", "cbreak", "termmode", "caw")]
    inputs = [m for m in mgrs if m[0] == "input"]
    if inputs and rng.random() < 0.7:
        cb = bool(ttym) and ttym[-1][0] != "termmode"
        body.append(_req(ids, rng.choice(inputs)[1], rng.choice(["key", "keys2", "timeout"] if cb else ["timeout", "timeout0", "queued"])))
    prog = _sites(ids, body)
    for m in reversed(mgrs):
        prog = _sites(ids, [["with", m, prog]])
    return prog


def sk_unrolled(rng, h, w):
    """the same context entered 2-3 times in a row (the same Input object; windows are new objects each time)"""
    ids = _Ids()
    which = rng.choice(["input", "input+fs", "caw", "cbreak+nonblocking"])
    n = rng.choice([2, 3])
    ops = []
    if which == "input":
        im = _input_mgr(rng, ids)
        for _ in range(n):
            ops.append(["with", im, _sites(ids, [_req(ids, im[1], rng.choice(["key", "timeout0", "keys2", "queued"]))])])
    elif which == "input+fs":
        im = _input_mgr(rng, ids)
        for _ in range(n):
            wm = _window(rng, "fs")
            ops.append(["with", wm, _sites(ids, [["with", im, _sites(ids, [_render(rng, ids, h, w), _req(ids, im[1], rng.choice(["key", "timeout"]))])]])])
    elif which == "caw":
        for _ in range(n):
            ops.append(["with", _window(rng, "caw"), _sites(ids, [_render(rng, ids, h, w)])])
    else:
        for _ in range(n):
            ops.append(["with", ["cbreak"], _sites(ids, [["with", ["nonblocking"], _sites(ids, [])]])])
    return _sites(ids, ops)


def sk_reentry(rng, h, w):
    """the same Input object entered again in a different environment (another handler, other attributes, another
    wake-up descriptor in place): what it saved the first time is stale"""
    ids = _Ids()
    im = _input_mgr(rng, ids, se=rng.random() < 0.8)
    first = ["with", im, _sites(ids, [_req(ids, im[1], rng.choice(["timeout0", "key"]))])]
    inner = ["with", im, _sites(ids, [_req(ids, im[1], rng.choice(["timeout0", "key", "keys2"]))])]
    wrappers = [["rsh", rng.choice(["ign", "user3", "user4"])], _termmode(rng), _input_mgr(rng, ids, se=True), ["cbreak"]]
    rng.shuffle(wrappers)
    for m in wrappers[:rng.choice([1, 2, 3])]:
        inner = ["with", m, _sites(ids, [inner])]
    ops = [first, inner]
    if rng.random() < 0.5:
        ops.append(["with", im, _sites(ids, [])])
    return _sites(ids, ops)


def sk_requests(rng, h, w, se=None, ss=None):
    """one Input, every kind of request, triggers"""
    ids = _Ids()
    im = _input_mgr(rng, ids, se, ss)
    o = im[1]
    body = [["trig_create", o], _req(ids, o, "timeout0"), _req(ids, o, "key"), ["trig_call", ids.id(), 0],
            _req(ids, o, "timeout"), _req(ids, o, "timeout"), _req(ids, o, "keys2"), _req(ids, o, "timeout0"),
            _req(ids, o, "paste"), _req(ids, o, "queued"), _req(ids, o, "sigint"), ["trig_create", o],
            ["trig_call", ids.id(), 1], _req(ids, o, "timeout"), _req(ids, o, "badkey"), _req(ids, o, "timeout0")]
    if rng.random() < 0.5:
        body = [b for b in body if rng.random() < 0.75 or b[0] == "trig_create"]
    return _sites(ids, [["with", im, _sites(ids, body)]])


def sk_sigint(rng, h, w):
    """a blocked request interrupted by a real SIGINT, under various handlers"""
    ids = _Ids()
    im = _input_mgr(rng, ids, se=rng.random() < 0.35)
    body = [_req(ids, im[1], "sigint"), _req(ids, im[1], "timeout0")]
    inner = ["with", im, _sites(ids, body)]
    r = rng.random()
    if r < 0.35:
        inner = ["with", ["rsh", rng.choice(RSH_HANDLERS)], _sites(ids, [inner])]
    elif r < 0.55:
        other = _input_mgr(rng, ids, se=True)
        inner = ["with", other, _sites(ids, [inner])]
    elif r < 0.75:
        inner = ["with", _window(rng, rng.choice(["fs", "caw"])), _sites(ids, [inner])]
    return _sites(ids, [inner])


def sk_leak(rng, h, w, cycles, variant):
    """enter/exit loops for the descriptor-leak clause"""
    ids = _Ids()
    if variant == "input":
        body = [["with", _input_mgr(rng, ids), []]]
    elif variant == "input+request":
        im = _input_mgr(rng, ids)
        body = [["with", im, [_req(ids, im[1], rng.choice(["timeout0", "queued"]))]]]
    elif variant == "fs+input":
        im = _input_mgr(rng, ids)
        body = [["with", _window(rng, "fs"), [["with", im, [_req(ids, im[1], "timeout0")]]]]]
    elif variant == "caw":
        body = [["with", _window(rng, "caw"), []]]
    elif variant == "input+input":
        body = [["with", _input_mgr(rng, ids), [["with", _input_mgr(rng, ids), []]]]]
    elif variant == "helpers":
        body = [["with", ["cbreak"], [["with", _termmode(rng), [["with", ["nonblocking"], [["with", ["rsh", rng.choice(RSH_HANDLERS)], []]]]]]]]]
    elif variant == "triggers":
        im = _input_mgr(rng, ids)
        cycles = min(cycles, rng.choice([40, 50]))
        body = [["with", im, [["trig_create", im[1]]]]]
    elif variant == "sites":
        im = _input_mgr(rng, ids)
        cycles = min(cycles, 100)
        body = [["with", im, _sites(ids, [_req(ids, im[1], "timeout0")])]]
    else:
        raise ValueError(variant)
    return [["repeat", cycles, body]]


def cuts_of(prog):
    """every cut point of a skeleton"""
    cuts = [None]
    for op, _ in _walk(prog):
        k = op[0]
        if k == "site":
            cuts.append(["site", op[1]])
        elif k == "request":
            kind = op[3]
            if kind != "queued":
                cuts.append(["select", op[2]])
            if kind in ("key", "keys2", "badkey", "paste"):
                cuts += [["read", op[2], 0], ["decode", op[2], 0]]
            if kind == "paste":
                cuts += [["read", op[2], 1], ["decode", op[2], 1], ["read", op[2], 3]]
        elif k == "render":
            cuts.append(["render", op[1]])
    return cuts


def _init(rng, prog):
    has_sigint = _has_kind(prog, "sigint")
    while True:
        handler = rng.choices(HANDLERS, [60, 6, 10, 14, 10])[0]
        if not (has_sigint and handler == "dfl"):
            break
    return {"iflag": sorted(rng.sample(IFLAGS, rng.choice([0, 0, 1, 1, 2, 3]))),
            "oflag": sorted(rng.sample(OFLAGS, rng.choice([0, 0, 0, 1]))),
            "lflag": sorted(rng.sample(LFLAGS, rng.choice([0, 1, 2, 3, 4, 5]))),
            "cc": [[i, rng.choice(CC_VALUES)] for i in sorted(rng.sample(CC_IDX, rng.choice([0, 1, 1, 2, 3])))],
            "fl": sorted(rng.sample(sorted(FLBITS), rng.choice([0, 0, 0, 1, 1, 2]))),
            "handler": handler, "wakeup": rng.random() < 0.25}


def _no_sigint(prog):
    """non-main thread: a real SIGINT is not sent (signals are the main thread's business)"""
    out = []
    for op in prog:
        if op[0] == "request" and op[3] == "sigint":
            out.append(op[:3] + ["timeout"])
        elif op[0] == "with":
            out.append([op[0], op[1], _no_sigint(op[2])])
        elif op[0] == "repeat":
            out.append([op[0], op[1], _no_sigint(op[2])])
        else:
            out.append(op)
    return out


def _scenario(rng, prog, cut, h, w, main=None):
    if main is None:
        main = rng.random() < 0.77
    if not main:
        prog = _no_sigint(prog)
    return {"main": main, "h": h, "w": w, "init": _init(rng, prog), "prog": prog, "cut": cut}


def _size(rng):
    return rng.choice([(3, 5), (4, 6), (4, 6), (2, 4), (5, 7)])


def generate(rng, tier):
    thorough = tier == "thorough"
    cycles = 1000 if thorough else 200

    def all_cuts(prog, h, w, keep=1.0):
        for cut in cuts_of(prog):
            if cut is None or keep >= 1.0 or rng.random() < keep:
                yield _scenario(rng, prog, cut, h, w)

    # each manager alone
    alone = ["input", "cbreak", "termmode", "nonblocking", "rsh", "base", "fs", "caw"]
    for rep in range(6 if thorough else 1):
        for kind in alone:
            h, w = _size(rng)
            if thorough and kind == "input":
                for se in (False, True):
                    for ss in (False, True):
                        yield from all_cuts(sk_alone(rng, h, w, kind, (se, ss)), h, w)
            elif thorough and kind == "caw":
                for hide in (False, True):
                    for keep in (False, True):
                        yield from all_cuts(sk_alone(rng, h, w, kind, ["caw", hide, keep]), h, w)
            elif thorough and kind in ("base", "fs"):
                for hide in (False, True):
                    yield from all_cuts(sk_alone(rng, h, w, kind, [kind, hide]), h, w)
            else:
                yield from all_cuts(sk_alone(rng, h, w, kind), h, w)
    # nested Inputs
    for _ in range(8 if thorough else 1):
        h, w = _size(rng)
        yield from all_cuts(sk_input_in_input(rng, h, w), h, w)
    # Input in / around the windows
    for _ in range(5 if thorough else 1):
        for wkind in ("fs", "caw"):
            for outside in (False, True):
                h, w = _size(rng)
                yield from all_cuts(sk_input_window(rng, h, w, wkind, outside), h, w, 1.0 if thorough else 0.6)
    # random nestings
    for _ in range(120 if thorough else 8):
        h, w = _size(rng)
        yield from all_cuts(sk_nesting(rng, h, w), h, w)
    # unrolled repetitions
    for _ in range(30 if thorough else 2):
        h, w = _size(rng)
        yield from all_cuts(sk_unrolled(rng, h, w), h, w)
    # re-entry of the same Input object in a changed environment
    for _ in range(12 if thorough else 3):
        h, w = _size(rng)
        yield from all_cuts(sk_reentry(rng, h, w), h, w, 1.0 if thorough else 0.7)
    # requests and triggers
    for k in range(8 if thorough else 1):
        h, w = _size(rng)
        prog = sk_requests(rng, h, w, se=[True, False][k % 2] if k < 2 else None)
        yield from all_cuts(prog, h, w)
    # real SIGINT during a blocked request (main thread), under every kind of handler
    for _ in range(120 if thorough else 12):
        h, w = _size(rng)
        prog = sk_sigint(rng, h, w)
        yield _scenario(rng, prog, None, h, w, main=True)
    # descriptor-leak loops
    variants = ["input", "input+request", "fs+input", "caw", "input+input", "helpers", "triggers", "sites"]
    for rep in range(3 if thorough else 2):
        for v in variants:
            h, w = _size(rng)
            prog = sk_leak(rng, h, w, cycles, v)
            yield _scenario(rng, prog, None, h, w, main=(rep != 1) or rng.random() < 0.5)
            if v == "sites" and rep == 0:
                cs = [c for c in cuts_of(prog) if c]
                yield _scenario(rng, prog, rng.choice(cs), h, w)


# ---- shrinking ---------------------------------------------------------------------------------------------------------------
def _variants(ops):
    """smaller op lists: one op dropped, a with replaced by its body, a repeat shortened"""
    for i, op in enumerate(ops):
        if op[0] != "site" or len(ops) > 1:
            yield ops[:i] + ops[i + 1:]
        if op[0] == "with":
            yield ops[:i] + op[2] + ops[i + 1:]
            for b in _variants(op[2]):
                yield ops[:i] + [["with", op[1], b]] + ops[i + 1:]
        elif op[0] == "repeat":
            if op[1] > 2:
                yield ops[:i] + [["repeat", 2, op[2]]] + ops[i + 1:]
            for b in _variants(op[2]):
                yield ops[:i] + [["repeat", op[1], b]] + ops[i + 1:]


def _well_formed(prog):
    """every request / trigger names an Input of the program; trig_call follows a trig_create; renders sit in a window"""
    def ok(ops, win):
        for op in ops:
            if op[0] == "render" and not win:
                return False
            if op[0] == "with":
                if not ok(op[2], win or op[1][0] in ("fs", "caw")):
                    return False
            elif op[0] == "repeat" and not ok(op[2], win):
                return False
        return True
    seen_create = False
    for op, _ in _walk(prog):
        if op[0] == "trig_create":
            seen_create = True
        if op[0] == "trig_call" and not seen_create:
            return False
    return ok(prog, False)


def shrink(inp):
    empty = {"iflag": [], "oflag": [], "lflag": [], "cc": [], "fl": [], "handler": "default", "wakeup": False}
    if inp["init"] != empty:
        yield dict(inp, init=empty)
        for f in ("iflag", "lflag", "cc", "fl"):
            if inp["init"][f]:
                yield dict(inp, init=dict(inp["init"], **{f: []}))
        if inp["init"]["wakeup"]:
            yield dict(inp, init=dict(inp["init"], wakeup=False))
        if inp["init"]["handler"] != "default":
            yield dict(inp, init=dict(inp["init"], handler="default"))
    if not inp["main"] and not _has_kind(inp["prog"], "sigint"):
        yield dict(inp, main=True)
    for p in _variants(inp["prog"]):
        if _well_formed(p):
            yield dict(inp, prog=p)
