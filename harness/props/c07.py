"""C07 -- CursorAwareWindow keeps history intact and accounts for every scroll."""
import io

import blessed

import canon
import termref
from canon import coq_fs, coq_cells, coq_bool
import curtsies.window as _window
from curtsies.window import CursorAwareWindow
from curtsies.formatstringarray import fsarray
from curtsies import fmtfuncs

ID = "C07"
LEVEL = "proof"
PROPS_FILE = "Props/C07.v"
CORR_VO = "Corr/C07.vo"
REQUIRE = "From Curtsies Require Import Model.Base Spec.Term Corr.C07.\nImport C07."
CASE_TYPE = "C07.case"
MODEL_OK = "C07.model_ok"
SPEC_OK = "C07.spec_ok"
SHARD = 100
EXHAUSTIVE = {"quick": False, "thorough": False}
RULE = ("random histories on every terminal size 1-5 x 2-6: an initial main screen with 0-3 lines already in the "
        "scrollback, recognisable or random (formatted) content on every document line, cursor on any row and column "
        "(junk below it), random pending-wrap flag; the scripted in_stream answers the window's cursor query with that "
        "position; 1-5 renders of arrays (list of str/FmtStr rows or FSArray) of height 0..h+3, rows of width 0..w "
        "(exactly w included), rows re-used from the previous render (same object, same text restyled, continuation "
        "of the previous array shifted by the rows it pushed off, grown or shrunk), cursor on any array cell; "
        "keep_last_line and hide_cursor on and off; then the context is left. After __enter__, after every render and "
        "after __exit__ the bytes the real window wrote are tokenised and run through the reference terminal model "
        "inside Coq; document (scrollback ++ screen), cursor, visibility, return value and top_usable_row are compared "
        "with the model (whose command list must also equal the tokenised bytes command by command) and with the "
        "reference relation. thorough: every other history is also fed byte for byte to pyte.HistoryScreen, whose "
        "document and cursor must agree with the reference terminal after every step. non-trivial = history in which "
        "some render scrolls or >= 2 renders; distinct = distinct history")
TRUSTED = [
    "Coq 8.16.1 kernel incl. vm_compute; Print Assumptions: closed under the global context",
    "reference terminal model coq/Spec/Term.v (unbounded document + scroll count, xterm pending-wrap, erase with current "
    "background, line feed scrolling at the bottom row, DECSC/DECRC) and reference SGR interpreter coq/Spec/Sgr.v",
    "tokeniser harness/termref.py (capability strings blessed emits for xterm-256color -> abstract commands; cursor "
    "addresses clamped to 4999)",
    "translator gen/gen_tables.py, canonicaliser harness/canon.py",
    "harness-side stand-ins: curtsies.window.Cbreak replaced by a no-op context manager (no tty in the sandbox), the "
    "cursor report served by a scripted in_stream (parsing it is C18's business)",
    "modelled, not verified: blessed/terminfo, Python dict/zip/slice semantics; cache keys that become negative by "
    "re-keying are dropped in the model (never read again by the code)",
    "second opinion in the thorough tier only: vendored pyte 0.8 HistoryScreen (faint attribute masked, no pending-wrap "
    "initial state)",
]
ASSUMPTIONS = ["rows are at most as wide as the terminal and consist of single-column printable characters",
               "cursor_pos lies on an array cell (row 0 for an empty array), column inside the terminal",
               "terminal height and width >= 1, fixed during the history, at most 1000001 rows",
               "the graphic state of the terminal is at its default when the context is entered",
               "nothing else writes to the terminal while the context is active"]
LEVEL_TEXT = ("Machine-checked invariant proof (Coq) over ALL initial terminals and ALL histories of renders for the model "
              "of CursorAwareWindow.__enter__/render_to_terminal/__exit__ against the reference terminal model with "
              "scrollback; the model is tied to the code by replaying the real window's bytes through the same terminal "
              "model inside Coq after every step of random histories")
LEVEL_NOTE = ("Trusted: Coq kernel, Spec/Term.v + Spec/Sgr.v (oracles), tokeniser, translator. Modelled: blessed capability "
              "strings for xterm-256color, dict semantics; rows restricted to single-column printable characters no wider "
              "than the terminal; terminal size fixed during a history")
TECHNIQUE = ("Coq invariant proof over render histories (row-cache invariant carried through the scroll loop by a scroll "
             "step lemma) layered on the C01 theorem and the C02 row lemmas; in-Coq replay of the implementation's "
             "terminal bytes")

_SIZE = [4, 5]


def _patch_size():
    # c02.py patches the same class attributes; (re)install ours whenever we run
    blessed.Terminal.height = property(lambda self: _SIZE[0])
    blessed.Terminal.width = property(lambda self: _SIZE[1])


class _NoCbreak:
    """stands in for curtsies.termhelpers.Cbreak: the sandbox has no tty to switch to cbreak mode"""

    def __init__(self, stream):
        self.stream = stream

    def __enter__(self):
        return self

    def __exit__(self, *a):
        return None


class _ScriptedIn:
    """in_stream: serves the characters of the terminal's cursor report one by one"""
    encoding = "utf-8"

    def __init__(self, text):
        self.chars = list(text)
        self.reads = 0

    def read(self, n):
        self.reads += 1
        return self.chars.pop(0) if self.chars else ""


# ---- second opinion: pyte.HistoryScreen (thorough tier) -------------------------------------
_PYTE_FG = {"default": 0, "black": 1, "red": 2, "green": 3, "brown": 4, "blue": 5, "magenta": 6, "cyan": 7, "white": 8}


def _sgr_of(st):
    """eff-atts 8-tuple -> SGR sequence (faint is not sent: pyte does not track it)"""
    ps = []
    if st[0]:
        ps.append(29 + st[0])
    if st[1]:
        ps.append(39 + st[1])
    for v, code in zip((st[2], st[4], st[5], st[6], st[7]), (1, 3, 4, 5, 7)):
        if v:
            ps.append(code)
    return "\x1b[0m" + ("\x1b[%sm" % ";".join(map(str, ps)) if ps else "")


class _Pyte:
    def __init__(self, inp):
        import pyte
        self.w, self.h = inp["w"], inp["h"]
        self.screen = pyte.HistoryScreen(self.w, self.h, history=100000, ratio=0.001)
        self.stream = pyte.Stream(self.screen)
        lines = []
        for row in inp["doc"]:
            lines.append("".join(_sgr_of(st) + ch for ch, st in row) + "\x1b[0m")
        self.stream.feed("\r\n".join(lines))
        self.stream.feed("\x1b[%d;%dH" % (inp["cur"][0] + 1, inp["cur"][1] + 1))

    def feed(self, s):
        self.stream.feed(s)

    def _cells(self, line):
        out = []
        for x in range(self.w):
            ch = line[x]
            if ch.fg not in _PYTE_FG or ch.bg not in _PYTE_FG or len(ch.data) != 1:
                raise canon.Unrepresentable("pyte cell %r" % (ch,))
            out.append([ch.data, [_PYTE_FG[ch.fg], _PYTE_FG[ch.bg], int(ch.bold), 0, int(ch.italics),
                                  int(ch.underscore), int(getattr(ch, "blink", False)), int(ch.reverse)]])
        return out

    def observe(self):
        scr = self.screen
        doc = [self._cells(l) for l in scr.history.top] + [self._cells(scr.buffer[y]) for y in range(self.h)]
        return [doc, [scr.cursor.y, min(scr.cursor.x, self.w - 1)]]


CHARS = "abcdefgXYZ0123.,-_#@ "
FMTFUNCS = ["red", "blue", "on_green", "on_red", "bold", "invert", "underline", "plain"]


def rand_row(rng, length):
    """a row of exactly `length` single-column characters: ["str", text] or ["fs", runs]"""
    if rng.random() < 0.3:
        return ["str", "".join(rng.choice(CHARS) for _ in range(length))]
    runs = []
    left = length
    while left > 0:
        k = rng.randint(1, left)
        runs.append(["".join(rng.choice(CHARS) for _ in range(k)), list(canon.rand_atts(rng))])
        left -= k
    if rng.random() < 0.2:
        runs.insert(rng.randint(0, len(runs)), ["", list(canon.rand_atts(rng))])
    return ["fs", runs]


def rand_len(rng, w):
    return rng.choice([0, 1, max(0, w - 1), w, w, rng.randint(0, w)])


def rand_doc(rng, base, h, w, r0):
    """base + h document lines: each a list of [char, eff-atts] cells (at most w; the rest is blank)"""
    mode = rng.random()
    doc = []
    for i in range(base + h):
        below = i > base + r0
        if mode < 0.35:
            # what a shell session leaves: output above the cursor, nothing from the cursor down
            if i >= base + r0:
                doc.append([])
            else:
                ch = chr(ord("A") + i % 26)
                doc.append([[ch, [0] * 8] for _ in range(rng.choice([1, w, max(1, w - 1)]))])
        else:
            r = rng.random()
            if r < 0.15 and not (below and mode > 0.8):
                doc.append([])
            elif r < 0.5:
                ch = chr(ord("A") + i % 26)
                st = list(canon.eff_atts(canon.rand_atts(rng))) if rng.random() < 0.4 else [0] * 8
                doc.append([[ch, st] for _ in range(rng.choice([1, w, w, max(1, w - 1)]))])
            else:
                doc.append([[rng.choice(CHARS), list(canon.eff_atts(canon.rand_atts(rng)))] for _ in range(w)])
    return doc


def rand_history(rng, tall=False):
    """tall: some arrays are dozens of rows taller than the terminal (long output scrolled in at once), starting
    below the top row"""
    h = rng.randint(1, 5) if not tall else rng.randint(2, 5)
    w = rng.randint(2, 6)
    base = rng.choice([0, 0, 1, 2, 3])
    r0 = rng.choice([0, h - 1, rng.randrange(h), rng.randrange(h)]) if not tall else rng.randint(1, h - 1)
    c0 = rng.choice([0, w - 1, rng.randrange(w)])
    inp = {"hide": rng.random() < 0.5, "keep": rng.random() < 0.5, "h": h, "w": w, "base": base,
           "doc": rand_doc(rng, base, h, w, r0), "cur": [r0, c0], "pending": rng.random() < 0.2, "ops": []}
    top = r0
    prev_n = 0
    prev_ret = 0
    for _ in range(rng.randint(1, 5)):
        strategy = rng.random()
        rows = []
        if prev_n and strategy < 0.45:
            # continuation: what is still displayed of the previous array, then grown / shrunk / edited
            rows = [["same", j] for j in range(prev_ret, prev_n)]
            r = rng.random()
            if r < 0.4:
                rows += [rand_row(rng, rand_len(rng, w)) for _ in range(rng.randint(1, 3))]
            elif r < 0.6 and rows:
                del rows[rng.randrange(len(rows)):]
            elif r < 0.8 and rows:
                j = rng.randrange(len(rows))
                rows[j] = rng.choice([["restyle", rows[j][1], rng.choice(FMTFUNCS)], rand_row(rng, rand_len(rng, w))])
            elif r < 0.9 and rows:
                rows = rows[1:]          # deliberately off by one: every cached row is stale
        else:
            height = rng.choice([0, 1, max(0, h - top - 1), h - top, h - top + 1, h, h + 1, h + 2, h + 3, rng.randint(0, h + 3)])
            if tall and rng.random() < 0.6:
                height = h + rng.choice([15, 16, 17, 31, 32, 33, 34, 40, 63, 64, 65, 100])
            for i in range(height):
                r = rng.random()
                if i < prev_n and r < 0.2:
                    rows.append(["same", i])
                elif i < prev_n and r < 0.3:
                    rows.append(["restyle", i, rng.choice(FMTFUNCS)])
                else:
                    rows.append(rand_row(rng, rand_len(rng, w)))
        n = len(rows)
        kind = "fsarray" if rng.random() < 0.3 else "list"
        inp["ops"].append(["render", kind, rows, [rng.randrange(max(1, n)), rng.randrange(w)]])
        k = max(0, n - (h - top))
        top2 = max(0, top - k)
        prev_ret = k - (top - top2)
        prev_n = n
        top = top2
    return inp


def generate(rng, tier):
    n = 8000 if tier == "thorough" else 600
    for i in range(n):
        inp = rand_history(rng, tall=(i % 20 == 7))
        if tier == "thorough" and i % 2 == 0:
            # second opinion by pyte.HistoryScreen; pyte cannot be put into the pending-wrap state from outside and
            # does not track blinking before 0.8.1 / faint at all (faint is masked in the comparison)
            inp["pyte"] = True
            inp["pending"] = False
        yield inp


def build_row(row, prev):
    if row[0] == "str":
        return row[1]
    if row[0] == "fs":
        return canon.build_fs(row[1])
    old = prev[row[1]] if row[1] < len(prev) else ""
    if row[0] == "same":
        return old
    return getattr(fmtfuncs, row[2])(old)


def canon_row(obj):
    return [[obj, [0] * 8]] if isinstance(obj, str) else canon.canon_fs(obj)


def run(inp):
    _patch_size()
    _window.Cbreak = _NoCbreak
    _SIZE[0], _SIZE[1] = inp["h"], inp["w"]
    out = io.StringIO()
    pos = 0
    res = {"enter": None, "renders": [], "rets": [], "tops": [], "arrays": [], "exit": None, "error": None, "reads": 0,
           "second": [], "second_exit": None}
    prev = []
    second = _Pyte(inp) if inp.get("pyte") else None

    def take():
        nonlocal pos
        s = out.getvalue()[pos:]
        pos += len(s)
        return s

    try:
        report = "\x1b[%d;%dR" % (inp["cur"][0] + 1, inp["cur"][1] + 1)
        ins = _ScriptedIn(report)
        w = CursorAwareWindow(out_stream=out, in_stream=ins, extra_bytes_callback=lambda b: None,
                              keep_last_line=inp["keep"], hide_cursor=inp["hide"])
        with w:
            res["enter"] = take()
            if second:
                second.feed(res["enter"])
            for op in inp["ops"]:
                rows = [build_row(r, prev) for r in op[2]]
                prev = rows
                arr = fsarray(rows) if op[1] == "fsarray" else rows
                # the rows as the window receives them (an FSArray holds re-built FmtStrs)
                res["arrays"].append([canon_row(r) for r in (arr.rows if op[1] == "fsarray" else rows)])
                try:
                    ret = w.render_to_terminal(arr, tuple(op[3]))
                    res["renders"].append(take())
                    res["rets"].append(ret if isinstance(ret, int) and ret >= 0 else 999999)
                    t = w.top_usable_row
                    res["tops"].append(t if isinstance(t, int) and t >= 0 else 999999)
                    if second:
                        second.feed(res["renders"][-1])
                        res["second"].append(second.observe())
                except Exception as e:  # recorded: the Coq side then sees an unusable trace
                    take()
                    res["renders"].append("\x1b!render raised %s: %s" % (type(e).__name__, e))
                    res["rets"].append(0)
                    res["tops"].append(0)
        res["exit"] = take()
        if second:
            second.feed(res["exit"])
            res["second_exit"] = second.observe()
        res["reads"] = ins.reads
    except Exception as e:
        res["error"] = "%s: %s" % (type(e).__name__, e)
    return res


def _cmd(tok):
    # the clamped far-away row of scroll_down is written by name (C07.far = 4999 = termref.BIG): a unary literal
    # of that size per scroll makes the case files slow to parse
    if tok[0] == "Cup" and tok[1] == termref.BIG and termref.BIG == 4999:
        return "Cup far %d" % tok[2]
    return termref.coq_cmd(tok)


def _cmds(s):
    try:
        return "[" + "; ".join(_cmd(t) for t in termref.tokenize(s)) + "]"
    except termref.UnknownSequence:
        return "[Str [27]]"  # makes exec fail => reported


def _second(obs):
    if obs is None:
        return "None"
    doc, (r, c) = obs
    return "(Second [%s] %d %d)" % ("; ".join(coq_cells([(ch, tuple(st)) for ch, st in row]) for row in doc), r, c)


def to_coq(inp, out):
    ops = []
    for k, op in enumerate(inp["ops"]):
        impl = out["renders"][k] if k < len(out["renders"]) else "\x1b!"
        rows = out["arrays"][k] if k < len(out["arrays"]) else []
        ret = out["rets"][k] if k < len(out["rets"]) else 0
        top = out["tops"][k] if k < len(out["tops"]) else 0
        arr = "[" + "; ".join(coq_fs(r) for r in rows) + "]"
        sec = out["second"][k] if k < len(out.get("second", [])) else None
        ops.append("Render %s %d %d %s %d %d %s" % (arr, op[3][0], op[3][1], _cmds(impl), min(ret, 999999), min(top, 999999),
                                                    _second(sec)))
    enter = _cmds(out["enter"]) if out["enter"] is not None else "[Str [27]]"
    exit_ = _cmds(out["exit"]) if out["exit"] is not None and out["error"] is None else "[Str [27]]"
    doc = "[" + "; ".join(coq_cells([(ch, tuple(st)) for ch, st in row]) for row in inp["doc"]) + "]"
    init = "(Init %d %s %d %d %s)" % (inp["base"], doc, inp["cur"][0], inp["cur"][1], coq_bool(inp["pending"]))
    return "(Case %s %s %d %d %s %s [%s] %s %s)" % (coq_bool(inp["hide"]), coq_bool(inp["keep"]), inp["h"], inp["w"], init,
                                                    enter, "; ".join(ops), exit_, _second(out.get("second_exit")))


def to_json_input(inp):
    return inp


def to_json_output(out):
    return out


def from_json(obj):
    return obj


def key(inp):
    return repr(inp)


def _arith(inp):
    """(n, top before, k, ret) per render, by the property's own arithmetic"""
    top = inp["cur"][0]
    h = inp["h"]
    for op in inp["ops"]:
        n = len(op[2])
        k = max(0, n - (h - top))
        top2 = max(0, top - k)
        yield n, top, k, k - (top - top2)
        top = top2


def nontrivial(inp, out):
    return len(inp["ops"]) >= 2 or any(k > 0 for _, _, k, _ in _arith(inp))


def stats(inp, out):
    yield "size=%dx%d" % (inp["h"], inp["w"])
    yield "renders=%d" % len(inp["ops"])
    yield "hide=%s" % inp["hide"]
    yield "keep=%s" % inp["keep"]
    yield "scrollback:%s" % ("0" if inp["base"] == 0 else ">0")
    if inp.get("pyte"):
        yield "second_opinion:pyte"
    r0, h, w = inp["cur"][0], inp["h"], inp["w"]
    yield "initial_cursor_row:%s" % ("only" if h == 1 else "top" if r0 == 0 else "bottom" if r0 == h - 1 else "middle")
    for (n, top, k, ret), op in zip(_arith(inp), inp["ops"]):
        yield "op:render:%s" % op[1]
        avail = h - top
        yield "array_height:%s" % ("0" if n == 0 else "<avail" if n < avail else "=avail" if n == avail else ">avail")
        yield "scrolls:%s" % ("0" if k == 0 else "1" if k == 1 else ">1")
        yield "returned:%s" % ("0" if ret == 0 else ">0")
        if k and ret == 0:
            yield "scroll_absorbed_by_top_usable_row"
        if k and ret and ret < k:
            yield "scroll_partly_absorbed"
        if ret and op[3][0] < ret:
            yield "cursor_row_pushed_off"
        for r in op[2]:
            if r[0] in ("same", "restyle"):
                yield "row:" + r[0]
                continue
            ln = len(r[1]) if r[0] == "str" else sum(len(s) for s, _ in r[1])
            yield "row_len:%s" % ("0" if ln == 0 else "<w" if ln < w else "=w")


def shrink(inp):
    ops = inp["ops"]

    def fix(op, rows):
        n = len(rows)
        return [op[0], op[1], rows, [min(op[3][0], max(0, n - 1)), op[3][1]]]

    for i in range(len(ops) - 1, -1, -1):
        # later renders may refer to rows of the removed one: only drop from the end, or when nothing refers back
        later = ops[i + 1:i + 2]
        if not any(r[0] in ("same", "restyle") for op in later for r in op[2]):
            yield dict(inp, ops=ops[:i] + ops[i + 1:])
    for i, op in enumerate(ops):
        rows = op[2]
        nxt = ops[i + 1:i + 2]
        refs = any(r[0] in ("same", "restyle") for o in nxt for r in o[2])
        if not refs:
            for j in range(len(rows)):
                yield dict(inp, ops=ops[:i] + [fix(op, rows[:j] + rows[j + 1:])] + ops[i + 1:])
        for j, r in enumerate(rows):
            if r[0] == "fs":
                plain = ["str", "".join(s for s, _ in r[1])]
                yield dict(inp, ops=ops[:i] + [fix(op, rows[:j] + [plain] + rows[j + 1:])] + ops[i + 1:])
        if op[1] == "fsarray":
            yield dict(inp, ops=ops[:i] + [[op[0], "list", rows, op[3]]] + ops[i + 1:])
    if inp["base"] > 0:
        yield dict(inp, base=0, doc=inp["doc"][inp["base"]:])
    if any(inp["doc"]):
        yield dict(inp, doc=[[] for _ in inp["doc"]])
    if inp["pending"]:
        yield dict(inp, pending=False)
