"""C10 -- width, width_at_offset and width_aware_slice measure and cut by terminal columns."""
import itertools

from cwcwidth import wcwidth

import canon
from canon import coq_fs, coq_z, coq_list, coq_opt, coq_res

ID = "C10"
LEVEL = "proof"
PROPS_FILE = "Props/C10.v"
EXTRA_PROPS = ("Props/C10Tie.v", "Props/C10TieWas.v", "Props/C10TieFsWas.v")
CORR_VO = "Corr/C10.vo"
REQUIRE = "From Curtsies Require Import Model.Base Model.Width Corr.C10.\nImport C10."
CASE_TYPE = "C10.case"
MODEL_OK = "C10.model_ok"
SPEC_OK = "C10.spec_ok"
SHARD = 430

WIDE = "Ｅ"      # FULLWIDTH LATIN CAPITAL LETTER E
COMB = "̀"      # COMBINING GRAVE ACCENT
ALPHA = ["a", "b", WIDE, COMB]
EXPECTED_WIDTHS = {"a": 1, "b": 1, WIDE: 2, COMB: 0, " ": 1}
for _c, _w in EXPECTED_WIDTHS.items():
    if wcwidth(_c) != _w:
        # the enumeration below would no longer cover narrow / wide / combining characters
        raise RuntimeError("cwcwidth.wcwidth(%r) = %r, expected %r" % (_c, wcwidth(_c), _w))

# three runs' worth of pairwise different formatting (also different effective states)
ATTS3 = [[0, 0, 0, 0, 0, 0, 0, 0], [2, 0, 1, 0, 0, 0, 0, 0], [0, 5, 0, 0, 0, 2, 0, 0]]

EXHAUSTIVE = {"quick": True, "thorough": True}
RULE = ("EXHAUSTIVE part: every string over {a, b, U+FF25 (width 2), U+0300 (width 0)} of length <= 4 (quick) / <= 5 "
        "(thorough) x every layout with 0, 1 or 2 cuts into runs of different formatting (empty runs at either end and in "
        "the middle included, plus the FmtStr without runs) x f.width, f.width_at_offset(n) for every 0 <= n <= len+1, "
        "f.width_aware_slice(slice(a, b)) for every 0 <= a <= b <= width+2; one case = one FmtStr with all its queries. "
        "RANDOM part: longer FmtStrs (up to 5 runs, random attributes, more wide/combining characters), slices with None, "
        "negative and reversed bounds, int indices, and a malformed stream containing control characters (wcwidth -1: "
        "ValueError/AssertionError paths). The widths of all characters involved are read from cwcwidth at run time and "
        "handed to Coq with the case. Observation: per-character cells of the result, numbers, exception class. "
        "The slices are judged by columns (col_slice) AND character by character (slice_ref / marks_in_range of the cells of f, "
        "no run layout: which characters, zero-width ones included, with which formatting); the exhaustive part contains "
        "every placement of a run made of combining characters only (strictly inside the range, at its start column, at its "
        "end column) and of a run beginning with a combining character (whole inside / cut by either edge) - counted by the "
        "q_mark_* labels; corpus/C10/fix-3b8c3df.json holds the inputs on which the code before fix 3b8c3df failed. "
        "non-trivial = at least one wide or zero-width character and at least one slice query; distinct = distinct "
        "(runs, queries)")
GENERATORS = ("gen/gen_pure.py",)
PURE_HELPERS = ('interval_overlap', 'width_aware_slice', 'FmtStr_width_aware_slice')
TRUSTED = [
    "translator gen/gen_pure.py (dumps the Python AST of interval_overlap, width_aware_slice and FmtStr.width_aware_slice node by "
    "node into coq/Gen/Pure.v, coq/Gen/PureFmt.v) and the reference semantics of that Python subset coq/Spec/PyMini.v (for loops "
    "over lists / str / zip, break, continue, objects as records of instance attributes, local lists with append / extend), "
    "itself run against CPython on enumerated arguments in every check",
    "oracles of coq/Spec/PyEnvFmt.v used by the ties of the two width_aware_slice: wcwidth(c) = wc c (wc arbitrary), "
    "wcswidth(s) = sum or -1, chunk.width, fs.width, fs.s, Chunk(s, atts), FmtStr(*parts), fmtstr(''); validated against the "
    "real functions on enumerated strings / FmtStrs with wide, combining and control characters in every check",
    "Coq 8.16.1 kernel incl. vm_compute (no native_compute); Print Assumptions: closed under the global context",
    "reference notions coq/Spec/Columns.v (column expansion of cells, cut of orphaned halves, firstn/skipn; per character: "
    "positions, keep_char, slice_ref, marks_in_range - functions of the cells alone)",
    "cwcwidth (C library): its wcwidth values are data of each case; wcswidth(s, n) modelled as the sum over the first n "
    "characters or -1 (checked on every case through f.width / width_at_offset)",
    "harness canonicaliser harness/canon.py (FmtStr runs -> Coq literal) and the parser of coqc's answer",
    "modelled, not verified: Python slicing of str, zip over divides, max/min, `\" \" * n`, sum() evaluation order",
]
ASSUMPTIONS = [
    "every character of the input has wcwidth 0, 1 or 2 (characters with wcwidth -1 make width_aware_slice raise "
    "ValueError before anything else; that path is in the model and in the correspondence, not in the theorems)",
    "wcwidth(' ') = 1 (the replacement character)",
    "0 <= a <= b for the slice theorem (the property's quantifier); other index forms are only covered by the correspondence",
]


# ---------------------------------------------------------------------------------------------
def layouts(s):
    """all run layouts with 0, 1, 2 cuts: lists of [text, atts]"""
    n = len(s)
    yield [[s, ATTS3[0]]]
    for i in range(n + 1):
        yield [[s[:i], ATTS3[0]], [s[i:], ATTS3[1]]]
    for i in range(n + 1):
        for j in range(i, n + 1):
            yield [[s[:i], ATTS3[0]], [s[i:j], ATTS3[1]], [s[j:], ATTS3[2]]]


def all_queries(s):
    w = sum(max(wcwidth(c), 0) for c in s)
    qs = [["width"]]
    for n in range(len(s) + 2):
        qs.append(["at", n])
    for a in range(w + 3):
        for b in range(a, w + 3):
            qs.append(["slice", a, b])
    return qs


def rand_queries(rng, runs):
    s = "".join(t for t, _ in runs)
    w = sum(max(wcwidth(c), 0) for c in s)
    qs = [["width"]]
    for _ in range(3):
        qs.append(["at", rng.randint(0, len(s) + 1)])
    for _ in range(10):
        r = rng.random()
        if r < 0.6:
            a = rng.randint(0, w + 2)
            b = rng.randint(a, w + 2)
            qs.append(["slice", a, b])
        elif r < 0.75:
            qs.append(["slice", rng.choice([None, rng.randint(0, w + 1)]), rng.choice([None, rng.randint(0, w + 2)])])
        elif r < 0.9:
            qs.append(["slice", rng.randint(-w - 2, w + 2), rng.randint(-w - 2, w + 2)])
        else:
            qs.append(["int", rng.randint(-w - 2, w + 2)])
    if rng.random() < 0.1:
        qs.append(["at", -1])
    return qs


def generate(rng, tier):
    maxlen = 5 if tier == "thorough" else 4
    yield {"runs": [], "queries": all_queries("")}
    for n in range(maxlen + 1):
        for tup in itertools.product(ALPHA, repeat=n):
            s = "".join(tup)
            qs = all_queries(s)
            for runs in layouts(s):
                yield {"runs": runs, "queries": qs}
    # long runs: a combining character exactly at index 64, 128, 256 of a run, requested ranges ending at that column
    for L in (63, 64, 127, 128, 255, 256):
        t = "x" * (L - 1) + "e" + COMB + "yz" + WIDE
        qs = [["width"], ["at", L], ["at", L + 1], ["slice", 0, L], ["slice", 0, L + 1], ["slice", 1, L], ["slice", L - 1, L],
              ["slice", L - 1, L + 2], ["slice", 0, L - 1], ["slice", L, L + 3]]
        yield {"runs": [[t, ATTS3[1]]], "queries": qs}
        yield {"runs": [["ab", ATTS3[0]], [t, ATTS3[1]], [COMB + "q", ATTS3[2]]], "queries": [[q[0]] + [v + 2 for v in q[1:]] for q in qs]}
    # characters without a width (wcwidth -1): runs of one, of two, alone and next to ordinary runs
    for c in "\n\t\x7f\x1b":
        for runs in ([[c, ATTS3[0]]], [[c + c, ATTS3[1]]], [["a", ATTS3[0]], [c, ATTS3[1]]], [[c, ATTS3[0]], [WIDE, ATTS3[2]]],
                     [["a" + c, ATTS3[0]]], [["", ATTS3[0]], [c, ATTS3[1]], ["b", ATTS3[2]]]):
            yield {"runs": [list(r) for r in runs], "queries": all_queries("".join(t for t, _ in runs))}
    # values reached through the wrapping API: every line of width_aware_splitlines(2..4) of short strings in which
    # a wide character is pushed to the next line (the line then ends in a padding space) or not
    for n in range(2, 5):
        for tup in itertools.product(ALPHA, repeat=n):
            s = "".join(tup)
            if WIDE not in s:
                continue
            runs = [[s[:1], ATTS3[1]], [s[1:], ATTS3[2]]]
            for cols in (2, 3):
                for k in (0, 1):
                    w = sum(max(wcwidth(c), 0) for c in s)
                    qs = [["width"], ["at", 1], ["slice", 0, cols], ["slice", 1, cols + 1], ["slice", 0, 1]]
                    yield {"runs": [list(r) for r in runs], "queries": qs, "via": ["wrap", cols, k]}
    nrand = 6000 if tier == "thorough" else 300
    alpha_ok = "ab " + WIDE * 3 + COMB * 2 + "中́x\u0902\u0e34"      # incl. zero-width marks of combining class 0
    for k in range(nrand):
        if k % 10 == 9:
            alphabet = alpha_ok + "\n\t\x00\x7f"      # malformed stream: wcwidth -1 (and NUL: 0)
        else:
            alphabet = alpha_ok
        runs = canon.rand_runs(rng, maxruns=5, maxlen=7, alphabet=alphabet)
        yield {"runs": runs, "queries": rand_queries(rng, runs)}


# ---------------------------------------------------------------------------------------------
def subject(inp):
    """the FmtStr the queries are put to: the value built from the runs, or -- "via": ["wrap", columns, k] -- the k-th
    line that width_aware_splitlines(columns) makes of it (a value REACHED THROUGH that API keeps whatever the
    wrapping code memoised on its runs; the queries are judged on the line's own runs)"""
    f = canon.build_fs(inp["runs"])
    via = inp.get("via")
    if via:
        lines = list(f.width_aware_splitlines(via[1]))
        if via[2] < len(lines):
            f = lines[via[2]]
    return f


def run(inp):
    f = subject(inp)
    outs = _run(inp, f)
    if inp.get("via"):
        outs.append(["subject", canon.canon_fs(f)])
    return outs


def _run(inp, f):
    outs = []
    for q in inp["queries"]:
        if q[0] == "width":
            outs.append(canon.outcome(lambda: f.width))
        elif q[0] == "at":
            outs.append(canon.outcome(lambda: f.width_at_offset(q[1])))
        elif q[0] == "slice":
            outs.append(canon.outcome(lambda: f.width_aware_slice(slice(q[1], q[2])), canon.canon_fs))
        elif q[0] == "int":
            outs.append(canon.outcome(lambda: f.width_aware_slice(q[1]), canon.canon_fs))
        else:
            raise ValueError(q)
    return outs


def widths_literal(chars):
    return coq_list(["(%d, %s)" % (ord(c), coq_z(wcwidth(c))) for c in sorted(set(chars) | {" "})])


def to_coq(inp, out):
    qs = []
    chars = set("".join(t for t, _ in inp["runs"]))
    for q, o in zip(inp["queries"], out):
        if q[0] == "width":
            qs.append("QWidth %s" % coq_res(o, coq_z))
        elif q[0] == "at":
            if o[0] == "ok":
                qs.append("QA %s %s" % (coq_z(q[1]), coq_z(o[1])))
            else:
                qs.append("QAt %s %s" % (coq_z(q[1]), coq_res(o, coq_z)))
        else:
            if o[0] == "ok":
                chars |= set("".join(t for t, _ in o[1]))
            if q[0] == "slice" and q[1] is not None and q[2] is not None:
                if o[0] == "ok":
                    qs.append("QK %s %s %s" % (coq_z(q[1]), coq_z(q[2]), coq_fs(o[1])))
                else:
                    qs.append("QS %s %s %s" % (coq_z(q[1]), coq_z(q[2]), coq_res(o, coq_fs)))
                continue
            ix = ("IxSlice %s %s" % (coq_opt(q[1], coq_z), coq_opt(q[2], coq_z))) if q[0] == "slice" \
                else "IxInt %s" % coq_z(q[1])
            qs.append("QSlice (%s) %s" % (ix, coq_res(o, coq_fs)))
    runs = out[len(inp["queries"])][1] if inp.get("via") else inp["runs"]
    chars |= set("".join(t for t, _ in runs))
    return "(%s, %s, %s)" % (widths_literal(chars), coq_fs(runs), coq_list(qs))


def to_json_input(inp):
    return inp


def to_json_output(out):
    return out


def from_json(obj):
    d = {"runs": obj["runs"], "queries": obj["queries"]}
    if obj.get("via"):
        d["via"] = obj["via"]
    return d


def key(inp):
    return repr((inp["runs"], inp["queries"], inp.get("via")))


def nontrivial(inp, out):
    s = "".join(t for t, _ in inp["runs"])
    return any(wcwidth(c) != 1 for c in s) and any(q[0] == "slice" for q in inp["queries"])


def stats(inp, out):
    runs = inp["runs"]
    s = "".join(t for t, _ in runs)
    yield "runs=%d" % min(len(runs), 5)
    yield "chars=%s" % ("0" if not s else "1-3" if len(s) <= 3 else "4-5" if len(s) <= 5 else "6+")
    if any(not t for t, _ in runs):
        yield "has_empty_run"
    if any(t and all(wcwidth(c) == 0 for c in t) for t, _ in runs):
        yield "has_zero_width_only_run"
    if any(wcwidth(c) == 2 for c in s):
        yield "has_wide"
    if any(wcwidth(c) == 0 for c in s):
        yield "has_zero_width"
    if any(wcwidth(c) < 0 for c in s):
        yield "has_negative_width_char"
    # runs with the column at which they start, their width, and whether they begin with a zero-width character
    placed, col = [], 0
    for t, _ in runs:
        w = sum(max(wcwidth(c), 0) for c in t)
        if t and wcwidth(t[0]) == 0:
            placed.append((col, w))
        col += w
    seen = set()
    for q in inp["queries"]:
        if q[0] != "slice" or q[1] is None or q[2] is None or not (0 <= q[1] <= q[2]):
            continue
        a, b = q[1], q[2]
        for K, w in placed:
            if w == 0:
                seen.add("q_mark_only_run_strictly_inside" if a < K < b else
                         "q_mark_only_run_at_start_column" if K == a else
                         "q_mark_only_run_at_end_column" if K == b else "q_mark_only_run_outside")
            elif a < K <= b and K + w > b:
                seen.add("q_mark_leading_run_cut_by_right_edge")      # kept (before fix 3b8c3df: dropped)
            elif a == K and K + w <= b:
                seen.add("q_mark_leading_whole_run_at_start_column")  # dropped (before the fix: kept)
            elif a < K and K + w <= b:
                seen.add("q_mark_leading_whole_run_inside")
    yield from sorted(seen)
    nslices = 0
    for q, o in zip(inp["queries"], out):
        if q[0] in ("slice", "int"):
            nslices += 1
        if o[0] == "raise":
            yield "raises_" + o[1]
        if q[0] == "slice" and q[1] is not None and q[1] == q[2]:
            yield "q_empty_range"
        if q[0] == "slice" and (q[1] is None or q[2] is None):
            yield "q_None_bound"
        if q[0] == "slice" and ((q[1] or 0) < 0 or (q[2] or 0) < 0):
            yield "q_negative_bound"
        if q[0] == "int":
            yield "q_int_index"
        if q[0] == "slice" and o[0] == "ok" and any(" " in t for t, _ in o[1]) and " " not in s:
            yield "q_cuts_wide_char"
    yield "slice_queries=%s" % ("0" if nslices == 0 else "1-15" if nslices <= 15 else "16-45" if nslices <= 45 else "46+")


def shrink(inp):
    runs, qs = inp["runs"], inp["queries"]
    if len(qs) > 1:
        for q in qs:
            yield {"runs": runs, "queries": [q]}
        return
    for i in range(len(runs)):
        yield {"runs": runs[:i] + runs[i + 1:], "queries": qs}
    for i, (s, a) in enumerate(runs):
        for j in range(len(s)):
            yield {"runs": runs[:i] + [[s[:j] + s[j + 1:], a]] + runs[i + 1:], "queries": qs}
        if any(a):
            yield {"runs": runs[:i] + [[s, [0] * 8]] + runs[i + 1:], "queries": qs}


LEVEL_TEXT = ("Machine-checked theorems (Coq) for ALL FmtStrs whose characters have width 0, 1 or 2, any number of runs: "
              "width f = number of column cells; width_at_offset f n = number of column cells of the first n characters; "
              "for all 0 <= a <= b the column cells of width_aware_slice(a:b) are exactly columns a..b-1 of f with an orphaned "
              "half of a double-width character shown as a space in that character's formatting, and its zero-width "
              "characters are a sub-sequence of f's. Character by character (zero-width characters and formatting included), "
              "for EVERY run layout: the cells of the slice are exactly slice_ref a b (cells f) - each character judged by its "
              "start column and width alone: wholly inside kept, cut wide character -> space in its state, zero-width kept iff "
              "a < column <= b - and the zero-width characters of the slice are exactly those of f with a < column <= b, in "
              "order, with their formatting (none at column a, none beyond b). The model follows the code (run walk with counter, helper called with "
              "the unclamped offsets, run object reused when the helper returns the run's text / new run / nothing, early break, "
              "per-character divides, zero-width-at-start rule, interval_overlap) and its agreement with the "
              "implementation is checked exhaustively on small inputs in every run")
LEVEL_NOTE = ("Trusted: Coq kernel+vm_compute, Spec/Columns.v, the canonicaliser; cwcwidth's per-character widths are inputs "
              "(Section variable wc; theorems assume range {0,1,2} on the input's characters and wc ' ' = 1). "
              "Modelled not verified: wcswidth = sum or -1, Python str slicing / zip / max / min")
TECHNIQUE = ("Coq proof by induction over runs and characters with a column counter; exhaustive small-scope in-Coq "
             "differential correspondence with widths read from cwcwidth at run time")
