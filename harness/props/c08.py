"""C08 -- Input returns every byte and triggered event exactly once, in order.

The real curtsies.input.Input is driven over a pty (os.openpty) under a scripted
environment: bytes written to the pty master, unget_bytes, event_trigger /
scheduled_event_trigger / threadsafe_event_trigger callbacks (from other
threads), real SIGINTs, a patched integer clock.  What it returns request by
request is compared, inside Coq, with the model (Model/InputQ.v with the C03
decoder) and judged by the reference queues (Spec/QueueSpec.v).

History item:  ["env", step] | ["req", timeout_or_None, [step, ...]]
step: ["arrive", [b..]] | ["unget", [b..]] | ["trigger", i, id] | ["sched", when, id]
      | ["ts", i, id] | ["tsappend", i, id] | ["tswrite", i] | ["sigint", k] | ["signal", n] | ["tick", d]
      | ["late", d]
["late", d] is a LATE select wake-up (Model/InputQ.v `Late d`): when a select call that has a timeout reaches it
in the script with nothing ready, the call times out with the clock at its deadline + max(0, d) -- a real select
always returns a little late, and only then does the pop site for scheduled events BEHIND the wait in _send fire.
Anywhere else (select without timeout, between requests, left over after the request) it does nothing.
The script of a request is what the environment does while the request is blocked
in select (consumed in order until a descriptor is ready or the timeout expires;
the rest happens right after the request returns).  With "threaded": true the
waking steps of a script are performed by a helper thread while the main thread is
REALLY blocked inside select.select (detected by the harness-side wrapper around
curtsies.input.select.select).

Harness-side patches (nothing in /repo is touched): curtsies.input.time -> integer
fake clock; curtsies.input.select -> wrapper implementing the scripted
environment on top of the real select; curtsies.input.os -> proxy whose read()
keeps the pty fed (at most 2048 bytes in flight, so the 4096-byte tty buffer never
truncates a burst and every read sees min(READ_SIZE, pending) bytes) and whose
write() lets a helper thread stop between the two statements of a threadsafe
callback; curtsies.input.getpreferredencoding -> the case's encoding.
The pty slave is put into a transparent mode first (no ISIG/IXON/ICRNL/ISTRIP/
ECHO/IEXTEN...), Input.__enter__ then sets cbreak on top: all 256 byte values pass.
"""
import array
import fcntl
import os
import select as real_select_mod
import signal
import sys
import termios
import threading
import time as real_time

import curtsies.input as ci
from curtsies import events

ID = "C08"
LEVEL = "proof"
PROPS_FILE = "Props/C08.v"
CORR_VO = "Corr/C08.vo"
REQUIRE = "From Curtsies Require Import Model.Base Model.InputQ Spec.QueueSpec Corr.C08.\nImport C08."
CASE_TYPE = "C08.case"
MODEL_OK = "C08.model_ok"
SPEC_OK = "C08.spec_ok"
EXHAUSTIVE = {"quick": False, "thorough": False}
SHARD = 40

CAP = 2048          # bytes kept in flight inside the pty (n_tty buffers 4096); >= READ_SIZE
PIPE_MSG = 19       # len(b"interrupting event!")
SIGOTHER = signal.SIGUSR1


class WouldBlockForever(BaseException):
    """select(timeout=None) with nothing ready and no scripted activity left"""


class HarnessError(Exception):
    pass


class _MaybeEqual:
    """Events are identified by their `id` attribute here, never by comparison.  Under the input's "eqev" flag all
    events of this run compare (and hash) EQUAL, the way value-like events (named tuples, dataclasses, strs) do: the
    library has no business comparing the events it carries, so two equal events are still two events."""
    ALL_EQUAL = False

    def __eq__(self, other):
        if _MaybeEqual.ALL_EQUAL and isinstance(other, _MaybeEqual):
            return True
        return self is other

    def __ne__(self, other):
        return not self.__eq__(other)

    def __hash__(self):
        return 0 if _MaybeEqual.ALL_EQUAL else id(self) >> 4


class Ev(_MaybeEqual, events.Event):
    def __init__(self, id):
        self.id = id


class SEv(_MaybeEqual, events.ScheduledEvent):
    pending_id = None

    def __init__(self, when):
        events.ScheduledEvent.__init__(self, when)
        self.id = SEv.pending_id


class FakeTime:
    def __init__(self):
        self.t = 0

    def time(self):
        return self.t


class Env:
    def __init__(self, inp):
        self.cfg = inp
        self.clock = FakeTime()
        self.script = []
        self.threaded = bool(inp.get("threaded"))
        self.unfed = b""
        self.inflight = 0
        self.held = {}      # trigger index -> list of (thread, release event)
        self.tl = threading.local()
        self.n_sigints = 0
        self.reads = []
        self.pipes_made = []
        self.nk = []
        self.req_index = -1

    # ---- kernel-side stdin queue ------------------------------------------
    def fionread(self):
        buf = array.array("i", [0])
        fcntl.ioctl(self.slave, termios.FIONREAD, buf)
        return buf[0]

    def pump(self, wait=True):
        while self.unfed and self.inflight < CAP:
            n = min(len(self.unfed), CAP - self.inflight)
            w = os.write(self.master, self.unfed[:n])
            self.unfed = self.unfed[w:]
            self.inflight += w
        if not wait:
            return
        t = real_time.time()
        while self.fionread() != self.inflight:
            if real_time.time() - t > 5:
                raise HarnessError("pty did not deliver: %d visible, %d in flight" % (self.fionread(), self.inflight))
            real_time.sleep(0)

    # ---- proxies installed into curtsies.input -------------------------------
    def os_read(self, fd, n):
        if fd == self.slave:
            self.pump()
            data = os.read(fd, n)
            self.inflight -= len(data)
            self.reads.append([self.req_index, list(data)])
            return data
        return os.read(fd, n)

    def os_pipe(self):
        p = os.pipe()
        self.pipes_made.append(p)
        return p

    def os_write(self, fd, data):
        hold = getattr(self.tl, "hold", None)
        if hold is not None:
            reached, release = hold
            reached.set()
            release.wait()
        return os.write(fd, data)

    def perform(self, step):
        """one environment step, done now (from the thread that calls this)"""
        k = step[0]
        if k == "arrive":
            self.unfed += bytes(step[1])
            self.pump()
        elif k == "unget":
            self.nk.append(self.inflight + len(self.unfed))
            self.inp.unget_bytes(bytes(step[1]))
        elif k == "trigger":
            self.ev_cbs[step[1]](id=step[2])
        elif k == "sched":
            SEv.pending_id = step[2]
            self.sched_cb(step[1])
        elif k == "ts":
            self.in_thread(lambda: self.ts_cbs[step[1]](id=step[2]))
        elif k == "tsappend":
            reached, release = threading.Event(), threading.Event()

            def body():
                self.tl.hold = (reached, release)
                self.ts_cbs[step[1]](id=step[2])
            th = threading.Thread(target=body, daemon=True)
            th.start()
            reached.wait()
            self.held.setdefault(step[1], []).append((th, release))
        elif k == "tswrite":
            q = self.held.get(step[1])
            if q:
                th, release = q.pop(0)
                release.set()
                th.join()
            else:   # a write without a pending callback: not produced by the generator
                os.write(self.ts_wfds[step[1]], b"x" * PIPE_MSG)
        elif k == "sigint":
            self.n_sigints += 1
            os.kill(os.getpid(), signal.SIGINT)
            self.wait_sigints()
        elif k == "signal":
            os.kill(os.getpid(), SIGOTHER)
        elif k == "sigtrig":
            # a signal whose Python handler queues events through event_trigger callbacks (a SIGWINCH handler, say):
            # the events are queued, then the wake-up byte of the signal is seen
            self.sig_pending = [list(x) for x in step[1]]
            os.kill(os.getpid(), SIGOTHER)
            t = real_time.time()
            while self.sig_pending:
                if real_time.time() - t > 5:
                    raise HarnessError("the signal handler did not run")
                real_time.sleep(0)
        elif k == "tick":
            self.clock.t += max(0, step[1])
        elif k == "late":
            pass        # only meaningful inside a select call that has a timeout (see select below)
        else:
            raise HarnessError("unknown step %r" % (step,))

    def wait_sigints(self):
        t = real_time.time()
        while len(self.inp.sigints) + self.sigints_taken < self.n_sigints:
            if real_time.time() - t > 5:
                raise HarnessError("SIGINT handler did not run")
            real_time.sleep(0)

    def in_thread(self, f):
        th = threading.Thread(target=f, daemon=True)
        th.start()
        th.join()

    def select(self, rl, wl, xl, timeout=None):
        tcall = self.clock.t
        while True:
            self.pump()
            rs = real_select_mod.select(rl, [], [], 0)[0]
            if rs:
                return rs, [], []
            if not self.script:
                if timeout is None:
                    raise WouldBlockForever()
                self.clock.t = max(self.clock.t, tcall + timeout)
                return [], [], []
            step = self.script[0]
            if step[0] == "tick":
                d = max(0, step[1])
                if timeout is not None and tcall + timeout <= self.clock.t + d:
                    fire = max(self.clock.t, tcall + timeout)
                    self.script[0] = ["tick", self.clock.t + d - fire]
                    self.clock.t = fire
                    return [], [], []
                self.clock.t += d
                self.script.pop(0)
                continue
            if step[0] == "late":
                self.script.pop(0)
                if timeout is not None:
                    self.clock.t = max(self.clock.t, tcall + timeout) + max(0, step[1])
                    return [], [], []
                continue
            self.script.pop(0)
            if self.threaded and step[0] in ("arrive", "ts", "tswrite", "sigint", "signal"):
                # the main thread really blocks in select(); a helper thread performs the step
                entered = threading.Event()

                def helper():
                    entered.wait()
                    real_time.sleep(0.002)
                    if step[0] == "arrive":
                        self.unfed += bytes(step[1])
                        n = min(len(self.unfed), CAP - self.inflight)
                        w = os.write(self.master, self.unfed[:n])
                        self.unfed = self.unfed[w:]
                        self.inflight += w
                    elif step[0] == "ts":
                        self.ts_cbs[step[1]](id=step[2])
                    elif step[0] == "sigint":
                        self.n_sigints += 1
                        os.kill(os.getpid(), signal.SIGINT)
                    elif step[0] == "signal":
                        os.kill(os.getpid(), SIGOTHER)
                    else:
                        q = self.held.get(step[1])
                        if q:
                            th2, release = q.pop(0)
                            release.set()
                            th2.join()
                        else:
                            os.write(self.ts_wfds[step[1]], b"x" * PIPE_MSG)
                th = threading.Thread(target=helper, daemon=True)
                th.start()
                entered.set()
                rs = real_select_mod.select(rl, [], [], 5.0)[0]
                th.join()
                self.blocked_wakeups += 1
                if not rs:
                    raise HarnessError("blocked select was not woken by %r" % (step,))
                if step[0] == "sigint":
                    self.wait_sigints()
            else:
                self.perform(step)


class Proxy:
    def __init__(self, real, **over):
        self.__dict__["_real"] = real
        self.__dict__.update(over)

    def __getattr__(self, name):
        return getattr(self._real, name)


ENC = {"utf-8": "utf-8", "ascii": "ascii", "latin-1": "latin-1"}


def canon_event(e):
    if e is None:
        return ["none"]
    if isinstance(e, str):
        return ["key", [ord(c) for c in e]]
    if isinstance(e, bytes):
        return ["key", list(e)]
    if isinstance(e, events.PasteEvent):
        return ["paste", [canon_event(x)[1] for x in e.events]]
    if isinstance(e, events.SigIntEvent):
        return ["sigint"]
    if isinstance(e, (Ev, SEv)):
        return ["event", e.id]
    return ["other", repr(e)]


def drive(inp):
    """runs the history against the real Input; returns trace [[outcome, clock at call, clock at return], ...],
    the kernel queue length at each unget_bytes, and every os.read on the input stream (for the finding families)"""
    assert threading.current_thread() is threading.main_thread()
    nfd0 = len(os.listdir("/proc/self/fd"))
    master, slave = os.openpty()
    a = termios.tcgetattr(slave)
    a[0] &= ~(termios.ICRNL | termios.INLCR | termios.IGNCR | termios.IXON | termios.IXOFF | termios.ISTRIP
              | termios.INPCK | termios.IGNBRK | termios.BRKINT | termios.PARMRK)
    a[3] &= ~(termios.ISIG | termios.ECHO | termios.IEXTEN | termios.ICANON)   # no line editing of what is typed ahead
    a[6][termios.VMIN], a[6][termios.VTIME] = 1, 0
    termios.tcsetattr(slave, termios.TCSANOW, a)
    stream = os.fdopen(slave, "r", closefd=False)
    env = Env(inp)
    env.master, env.slave = master, slave
    env.blocked_wakeups = 0
    env.sigints_taken = 0
    saved = (ci.time, ci.select, ci.os, ci.getpreferredencoding)
    env.sig_pending = []

    def on_other(*a):
        while env.sig_pending:
            i, id_ = env.sig_pending.pop(0)
            env.ev_cbs[i](id=id_)
    old_other = signal.signal(SIGOTHER, on_other)
    old_int = signal.getsignal(signal.SIGINT)
    out = []
    try:
        ci.time = env.clock
        ci.select = Proxy(real_select_mod, select=env.select)
        ci.os = Proxy(os, read=env.os_read, write=env.os_write, pipe=env.os_pipe)
        ci.getpreferredencoding = lambda: ENC[inp["enc"]]
        # bytes that are already waiting in the tty when the context is ENTERED (type-ahead) are input like any other:
        # the first `early` arrivals of the history happen before __enter__
        early = 0
        while early < inp.get("early", 0) and early < len(inp["hist"]) and inp["hist"][early][0] == "env" \
                and inp["hist"][early][1][0] == "arrive":
            env.unfed += bytes(inp["hist"][early][1][1])
            env.pump(wait=False)
            early += 1
        with ci.Input(in_stream=stream, keynames=inp["mode"], paste_threshold=inp["paste"],
                      sigint_event=True, disable_terminal_start_stop=bool(inp.get("dtss"))) as I:
            env.inp = I
            if early:
                # everything typed ahead must still be there; if the tty has fewer bytes than were written, entering
                # the context discarded input: go on with what is left, the reference will miss the lost bytes
                t_w = real_time.time()
                while env.fionread() != env.inflight and real_time.time() - t_w < 1.0:
                    real_time.sleep(0.001)
                env.inflight = env.fionread()
            env.ev_cbs = [I.event_trigger(Ev) for _ in range(max(1, inp.get("nev", 1)))]
            env.sched_cb = I.scheduled_event_trigger(SEv)
            env.ts_cbs = []
            env.ts_wfds = []

            def make_triggers():
                for _ in range(inp["ntrig"]):
                    env.ts_cbs.append(I.threadsafe_event_trigger(Ev))
                    env.ts_wfds.append(env.pipes_made[-1][1])       # the write end of the pipe it just made
            # "lazy_ts": the (single) threadsafe trigger is created only when the history first needs it, between two
            # items -- typically after requests have already waited -- instead of before the first request
            lazy = bool(inp.get("lazy_ts")) and inp["ntrig"] == 1
            if not lazy:
                make_triggers()

            def uses_ts(item):
                steps = [item[1]] if item[0] == "env" else item[2]
                return any(s[0] in ("ts", "tsappend", "tswrite") for s in steps)
            for idx, item in enumerate(inp["hist"]):
                if idx < early:
                    continue
                if lazy and not env.ts_cbs and uses_ts(item):
                    make_triggers()
                if item[0] == "env":
                    env.perform(item[1])
                    continue
                env.script = [list(s) for s in item[2]]
                env.req_index += 1
                c0 = env.clock.t
                stop = False
                try:
                    e = I.send(item[1])
                    o = canon_event(e)
                    if o[0] == "sigint":
                        env.sigints_taken += 1
                except WouldBlockForever:
                    o = ["blocked"]
                    stop = True
                except HarnessError:
                    raise
                except Exception as ex:
                    o = ["raise", type(ex).__name__]
                out.append([o, c0, env.clock.t])
                if stop:
                    break
                left, env.script = env.script, []
                for s in left:
                    env.perform(s)
            # release helper threads still held inside os.write
            for q in env.held.values():
                for th, release in q:
                    release.set()
                    th.join()
            for fd in list(I.readers) + env.ts_wfds:
                try:
                    os.close(fd)
                except OSError:
                    pass
    finally:
        ci.time, ci.select, ci.os, ci.getpreferredencoding = saved
        signal.signal(SIGOTHER, old_other)
        signal.signal(signal.SIGINT, old_int)
        stream.close()
        os.close(slave)
        os.close(master)
    if len(os.listdir("/proc/self/fd")) != nfd0:
        raise HarnessError("descriptor leak in the harness: %d -> %d" % (nfd0, len(os.listdir("/proc/self/fd"))))
    return {"trace": out, "nk": env.nk, "reads": env.reads, "blocked_wakeups": env.blocked_wakeups}


# =============================================================================
# property-module interface
EXN = {"ValueError", "UnicodeDecodeError", "NotImplementedError", "AssertionError", "TypeError", "KeyError",
       "IndexError"}
ENC_N = {"utf-8": 0, "ascii": 1, "latin-1": 2}
MODE_N = {"curtsies": 0, "curses": 1, "bytes": 2}


def run(inp):
    _MaybeEqual.ALL_EQUAL = bool(inp.get("eqev"))
    try:
        return drive(inp)
    finally:
        _MaybeEqual.ALL_EQUAL = False


def _l(xs):
    return "[" + ";".join(str(x) for x in xs) + "]"


def _z(n):
    return "(%d)%%Z" % n


def _step(s):
    k = s[0]
    if k == "arrive":
        return "Arrive %s" % _l(s[1])
    if k == "unget":
        return "Unget %s" % _l(s[1])
    if k == "trigger":
        return "Trigger %d %d" % (s[1], s[2])
    if k == "sched":
        return "Sched %s %d" % (_z(s[1]), s[2])
    if k == "ts":
        return "TsTrigger %d%%nat %d" % (s[1], s[2])
    if k == "tsappend":
        return "TsAppend %d%%nat %d" % (s[1], s[2])
    if k == "tswrite":
        return "TsWrite %d%%nat" % s[1]
    if k == "sigint":
        return "Sigint %d" % s[1]
    if k == "signal":
        return "Signal %d" % int(SIGOTHER)
    if k == "tick":
        return "Tick %s" % _z(s[1])
    if k == "late":
        return "Late %s" % _z(s[1])
    raise ValueError(s)


def _tmo(t):
    return "Tn" if t is None else "(T %s)" % _z(t)


def _expand(s):
    if s[0] == "sigtrig":
        return [["trigger", i, id_] for i, id_ in s[1]] + [["signal", int(SIGOTHER)]]
    return [s]


def _item(it):
    if it[0] == "env":
        return ";\n      ".join("Env (%s)" % _step(x) for x in _expand(it[1]))
    return "Req %s [%s]" % (_tmo(it[1]), "; ".join(_step(x) for s in it[2] for x in _expand(s)))


def _obs(o):
    k = o[0]
    if k == "key":
        return "BKey %s" % _l(o[1])
    if k == "paste":
        return "BPaste [%s]" % ";".join(_l(x) for x in o[1])
    if k == "event":
        return "BEvent %d" % o[1]
    if k == "sigint":
        return "BSigint"
    if k == "none":
        return "BNone"
    if k == "blocked":
        return "BBlocked"
    if k == "raise":
        return "BRaise %s" % (o[1] if o[1] in EXN else "OtherError")
    return "BRaise OtherError"     # an object outside the modelled outcomes: never equal to the model


def to_coq(inp, out):
    return "case_of %d %d %s %d%%nat\n     [%s]\n     [%s]\n     [%s]" % (
        ENC_N[inp["enc"]], MODE_N[inp["mode"]], _tmo(inp["paste"]), inp["ntrig"],
        ";\n      ".join(_item(it) for it in inp["hist"]),
        ";".join("%d%%nat" % n for n in out["nk"]),
        ";\n      ".join("(%s, %s, %s)" % (_obs(o), _z(c0), _z(c1)) for o, c0, c1 in out["trace"]))


def to_json_input(inp):
    return inp


def to_json_output(out):
    return {"trace": out["trace"], "nk": out["nk"], "reads": [[i, len(d)] for i, d in out["reads"]]}


def from_json(obj):
    return obj


def key(inp):
    return repr((inp["enc"], inp["mode"], inp["paste"], inp["ntrig"], inp.get("threaded"), inp["hist"]))


def nontrivial(inp, out):
    kinds = {o[0] for o, _, _ in out["trace"]}
    return len(kinds - {"none"}) >= 2


def _steps(inp):
    for it in inp["hist"]:
        if it[0] == "env":
            yield "between", it[1]
        else:
            for s in it[2]:
                yield "during", s


def stats(inp, out):
    yield "enc=%s" % inp["enc"]
    yield "mode=%s" % inp["mode"]
    yield "paste_threshold=%s" % inp["paste"]
    if inp.get("threaded"):
        yield "threaded_scripts"
    if out["blocked_wakeups"]:
        yield "woken_while_really_blocked_in_select"
    nreq = sum(1 for it in inp["hist"] if it[0] == "req")
    yield "requests=%s" % ("1-9" if nreq < 10 else "10-39" if nreq < 40 else "40+")
    tm = {("None" if it[1] is None else "0" if it[1] == 0 else "small") for it in inp["hist"] if it[0] == "req"}
    for t in sorted(tm):
        yield "timeout_%s" % t
    seen = set()
    for where, s in _steps(inp):
        seen.add("%s:%s" % (s[0], where))
        if s[0] == "arrive":
            n = len(s[1])
            seen.add("arrival_%s" % ("1-7" if n < 8 else "8-100" if n <= 100 else "101-1024" if n <= 1024 else
                                     "1025-4096" if n <= 4096 else "4097+"))
    for x in sorted(seen):
        yield x
    whens = [s[1] for _, s in _steps(inp) if s[0] == "sched"]
    if len(whens) != len(set(whens)):
        yield "equal_scheduled_times"
    for k in sorted({o[0] for o, _, _ in out["trace"]}):
        yield "outcome_%s" % k
    if any(o[0] == "paste" and len(o[1]) > 1000 for o, _, _ in out["trace"]):
        yield "paste_of_1000+_keys"
    if any(c1 > c0 for o, c0, c1 in out["trace"] if o[0] != "none"):
        yield "delivered_after_waiting"
    if any(len(d) == READ_SIZE for _, d in out["reads"]):
        yield "full_READ_SIZE_read"
    reqs = [it for it in inp["hist"] if it[0] == "req"]
    for it, (o, c0, c1) in zip(reqs, out["trace"]):
        if o[0] == "event" and 3000 < o[1] < 4000 and c1 > c0 and any(s[0] == "late" for s in it[2]):
            yield "scheduled_event_popped_behind_a_late_wait"
            break


READ_SIZE = ci.READ_SIZE


# ---- known finding families (DESIGN section 6) ------------------------------
def _utf8_tail_inside_char(data):
    """number of bytes of an incomplete multi-byte character at the end of data (0 if none)"""
    for back in (1, 2, 3):
        if len(data) < back:
            break
        b = data[-back]
        if b & 0xC0 == 0x80:
            continue
        need = 2 if b & 0xE0 == 0xC0 else 3 if b & 0xF0 == 0xE0 else 4 if b & 0xF8 == 0xF0 else 0
        if need and back < need and all(x & 0xC0 == 0x80 for x in data[len(data) - back + 1:]):
            return back
        return 0
    return 0


def family(inp, out):
    """F-C08a / F-C08b: utf-8; the FIRST exception of the trace is a ValueError raised when the buffer ran
    out, and the last os.read on the input stream before it ended strictly inside a multi-byte character
    after >= 2 of its bytes.  F-C08b if the raising request was on the paste path (its first read was
    above the threshold), else F-C08a.  (After unget_bytes the same test is applied to the ungot bytes.)"""
    if inp["enc"] != "utf-8":
        return None
    tr = out["trace"]
    j = next((i for i, (o, _, _) in enumerate(tr) if o[0] == "raise"), None)
    if j is None or tr[j][0][1] != "ValueError":
        return None
    reads = [(i, d) for i, d in out["reads"] if i <= j]
    ungot = None
    # bytes handed in through unget_bytes count as a read boundary as well
    ri = -1
    for it in inp["hist"]:
        if it[0] == "req":
            ri += 1
            if ri >= j:
                break
            if any(s[0] == "unget" for s in it[2]):
                ungot = (ri, [b for s in it[2] if s[0] == "unget" for b in s[1]])
        elif it[1][0] == "unget":
            ungot = (ri, it[1][1])
    last = reads[-1] if reads else None
    if ungot is not None and (last is None or ungot[0] >= last[0]):
        tail = ungot[1]
        mine = []
    elif last is not None:
        tail = last[1]
        mine = [d for i, d in reads if i == j]
    else:
        return None
    if _utf8_tail_inside_char(tail) < 2:
        return None
    th = inp["paste"]
    on_paste_path = bool(mine) and th is not None and len(mine[0]) > th
    return "F-C08b" if on_paste_path else "F-C08a"


# ---- generator --------------------------------------------------------------
ESC_KEYS = sorted(k for k in list(events.CURTSIES_NAMES) + list(events.CURSES_NAMES) if k[:1] == b"\x1b")
WIDE = "é€漢😀ßжñ́Ｅ"


def _token(rng, enc):
    r = rng.random()
    if r < 0.40:
        return bytes([rng.choice(b"abcxyz 019;[~O")])
    if r < 0.50:
        return bytes([rng.randrange(0, 32)])
    if r < 0.75:
        if enc == "utf-8":
            return rng.choice(WIDE).encode("utf-8")
        if enc == "latin-1":
            return bytes([rng.randrange(0xA0, 0x100)])
        return bytes([rng.randrange(0x20, 0x7F)])
    if r < 0.97:
        return rng.choice(ESC_KEYS)
    return b"\x7f"


PREFIX_BYTES = {b for p in events.KEYMAP_PREFIXES for b in p}      # bytes a pending ESC-prefix can end with
FILLER = next(bytes([c]) for c in range(0x20, 0x7F) if c not in PREFIX_BYTES)


LONG_KEYS = [k for k in ESC_KEYS if len(k) >= 6]


def _stream(rng, enc, ntok, last=None):
    """bytes of ntok tokens, as a token list.  A byte >= 0x80 never directly follows a byte that can end a
    pending member of KEYMAP_PREFIXES (that pattern is finding F-C03, reported under C03); `last` = the byte
    in front of this stream"""
    toks = []
    for _ in range(ntok):
        t = _token(rng, enc)
        prev = toks[-1][-1] if toks else last
        if t[0] >= 0x80 and prev in PREFIX_BYTES:
            toks.append(FILLER)
        toks.append(t)
    return toks


def _cut(rng, toks, inside):
    """split the token stream into arrivals; `inside`: cuts may fall inside a token"""
    data = b"".join(toks)
    if len(toks) < 2 or rng.random() < 0.4:
        return [data]
    cuts = set()
    pos = 0
    for t in toks[:-1]:
        pos += len(t)
        if rng.random() < 0.3:
            cuts.add(pos)
    if inside:
        for _ in range(rng.choice([1, 1, 2])):
            cuts.add(rng.randrange(1, len(data)))
    cuts = sorted(cuts)
    return [data[a:b] for a, b in zip([0] + cuts, cuts + [len(data)]) if b > a]


class _Gen:
    def __init__(self, rng, tier, profile):
        self.rng = rng
        self.enc = rng.choices(["utf-8", "latin-1", "ascii"], [85, 10, 5])[0]
        self.mode = rng.choices(["bytes", "curtsies", "curses"], [60, 27, 13])[0]
        self.paste = rng.choice([None, 1, 8, 100, None, 8, 0, 7, 1024] if profile != "burst" else [None, 1, 8, 100])
        self.ntrig = rng.choice([0, 1, 2, 2, 3])
        self.nev = rng.choice([1, 2])
        self.threaded = rng.random() < 0.35
        self.inside = rng.random() < 0.15          # arrivals may end inside a character / sequence
        self.hist = []
        self.ids = {"ev": 1000, "ts": 2000, "sc": 3000, "sig": 0}
        self.clock = 0                             # rough estimate, only to pick interesting `when`s
        self.pend = 0                              # rough count of deliverable things
        self.held = []                             # triggers with an append whose write is outstanding
        self.last = None                           # last byte that arrived (for the F-C03 exclusion)
        self.profile = profile

    def nid(self, k):
        self.ids[k] += 1
        return self.ids[k]

    def inject(self, during=False):
        rng = self.rng
        kinds = ["arrive"] * 5 + ["trigger"] * 2 + ["sched"] * 2 + ["sigint", "tick", "tick", "unget", "signal", "sigtrig"]
        if self.ntrig:
            kinds += ["ts"] * 3 + ["tsappend"]
        if self.held:
            kinds += ["tswrite"] * 2
        if during:
            kinds = [k for k in kinds if k not in ("sched", "unget")] + ["tick"] * 3 + ["late"] * 2
        if self.inside:
            kinds = [k for k in kinds if k != "unget"]     # ungot bytes would land inside a split character
        k = rng.choice(kinds)
        if k == "arrive":
            toks = _stream(rng, self.enc, rng.choice([1, 1, 2, 3, 5, 9, 14]), self.last)
            self.last = toks[-1][-1]
            parts = _cut(rng, toks, self.inside)
            self.pend += len(toks)
            return [["arrive", list(p)] for p in parts]
        if k == "unget":
            # starts with an ASCII byte, ends with a byte that cannot end an ESC prefix
            toks = [b"u"] + _stream(rng, self.enc, rng.choice([1, 2, 3]), ord("u")) + [FILLER]
            self.pend += len(toks)
            return [["unget", list(b"".join(toks))]]
        if k == "trigger":
            self.pend += 1
            return [["trigger", rng.randrange(self.nev), self.nid("ev")]]
        if k == "sched":
            self.pend += 1
            w = self.clock + rng.choice([-3, -1, 0, 0, 1, 1, 2, 2, 3, 5])
            n = rng.choice([1, 1, 2, 3])
            return [["sched", w, self.nid("sc")] for _ in range(n)]       # equal times on purpose
        if k == "ts":
            self.pend += 1
            return [["ts", rng.randrange(self.ntrig), self.nid("ts")]]
        if k == "tsappend":
            i = rng.randrange(self.ntrig)
            self.held.append(i)
            self.pend += 1
            return [["tsappend", i, self.nid("ts")]]
        if k == "tswrite":
            i = self.held.pop(rng.randrange(len(self.held)))
            return [["tswrite", i]]
        if k == "sigint":
            self.pend += 1
            return [["sigint", self.nid("sig")]]
        if k == "signal":
            return [["signal", int(SIGOTHER)]]
        if k == "sigtrig":
            evs = [[rng.randrange(self.nev), self.nid("ev")] for _ in range(rng.choice([1, 2, 2, 3]))]
            self.pend += len(evs)
            return [["sigtrig", evs]]
        if k == "late":
            d = rng.choice([1, 1, 2, 3])
            self.clock += d
            return [["late", d]]
        d = rng.choice([1, 1, 2, 3, 7])
        self.clock += d
        return [["tick", d]]

    def request(self):
        rng = self.rng
        script = []
        r = rng.random()
        if r < 0.45:
            t = 0
        elif r < 0.85:
            t = rng.choice([1, 2, 3, 5, 10])
            for _ in range(rng.choice([0, 1, 1, 2, 3, 4])):
                script += self.inject(during=True)
        else:
            t = None
            # never block for ever: something is pending for sure, or the script ends with a waking step
            if self.pend <= 0 or rng.random() < 0.5:
                for _ in range(rng.choice([0, 1, 2])):
                    script += [s for s in self.inject(during=True) if s[0] != "tswrite"]
                toks = _stream(rng, self.enc, rng.choice([1, 2, 4]), self.last)
                wake = [["arrive", list(b"".join(toks))], ["sigint", self.nid("sig")]]
                if self.ntrig:
                    wake += [["ts", rng.randrange(self.ntrig), self.nid("ts")]] * 2
                w = rng.choice(wake)
                if w[0] == "arrive":
                    self.last = toks[-1][-1]
                script.append(w)
                self.pend += 1
        self.pend = max(0, self.pend - 1)
        if t:
            self.clock += t
        self.hist.append(["req", t, script])

    def build(self, n_items, drain_cap):
        rng = self.rng
        for _ in range(n_items):
            if rng.random() < 0.5:
                for s in self.inject():
                    self.hist.append(["env", s])
            else:
                self.request()
        # drain: make every scheduled event due, then ask until the queues are empty
        while self.held:
            self.hist.append(["env", ["tswrite", self.held.pop()]])
        self.hist.append(["env", ["tick", 50]])
        for _ in range(min(drain_cap, self.pend + 3)):
            self.hist.append(["req", 0, []])
        early = 0
        if rng.random() < 0.35:
            if not (self.hist and self.hist[0][0] == "env" and self.hist[0][1][0] == "arrive") and rng.random() < 0.6:
                toks = _stream(rng, self.enc, rng.choice([1, 2, 4]), None)
                self.hist.insert(0, ["env", ["arrive", list(b"".join(toks) + FILLER)]])   # FILLER: see _stream
                self.hist.append(["req", 0, []])
                self.hist.append(["req", 0, []])
            while early < len(self.hist) and self.hist[early][0] == "env" and self.hist[early][1][0] == "arrive":
                early += 1
        return {"enc": self.enc, "mode": self.mode, "paste": self.paste, "ntrig": self.ntrig, "nev": self.nev,
                "threaded": self.threaded, "hist": self.hist, "early": early, "dtss": rng.random() < 0.4,
                "lazy_ts": self.ntrig == 1 and rng.random() < 0.6}


def _burst_case(rng, size, mode=None, long_tokens=False, exact=False):
    """one multi-kilobyte burst of multi-byte characters and escape sequences; with long_tokens mostly the LONGEST
    table sequences (6-7 bytes), so that some straddle every 1024-byte read boundary with most of their bytes on
    the near side"""
    g = _Gen(rng, "quick", "burst")
    g.enc = "utf-8"
    g.inside = False
    if mode is not None:
        g.mode = mode
    for _ in range(rng.choice([0, 1, 3])):
        g.hist += [["env", s] for s in g.inject()]
    toks = []
    n = 0
    while n < size:
        if long_tokens and rng.random() < 0.8:
            t = [rng.choice(LONG_KEYS) for _ in range(4)]
        else:
            t = _stream(rng, "utf-8", 8, toks[-1][-1] if toks else g.last)
        if exact and n + sum(len(x) for x in t) > size:
            # exactly `size` bytes pending in one piece (a whole number of READ_SIZE reads): fill up with letters
            toks += [b"x"] * (size - n)
            break
        toks += t
        n += sum(len(x) for x in t)
    data = b"".join(toks)
    g.last = data[-1]
    if rng.random() < 0.5:
        g.hist.append(["env", ["arrive", list(data)]])
        g.hist.append(["req", 0, []])
    else:
        g.hist.append(["req", 5, [["tick", 1], ["arrive", list(data)]]])
    g.pend += len(toks) if g.paste is None else 3
    return g.build(rng.choice([0, 2, 4]), 40 if g.paste is None else 12)


def _sched_case(rng):
    """several scheduled events pending at once, scheduled out of time order (equal times included), collected
    by requests that BLOCK until the next one is due (timeout None / larger than the wait), so that each is
    delivered by the pop site behind the select (most of these requests have a LATE wake-up in their script: an exact
    one never reaches that site), with further events scheduled in between"""
    g = _Gen(rng, "quick", "sched")
    g.threaded = False
    g.inside = False
    pending = 0
    for _ in range(rng.choice([1, 2, 2, 3])):
        k = rng.choice([3, 3, 4, 5, 6])
        whens = [g.clock + rng.choice([1, 2, 3, 4, 6, 9, 12]) for _ in range(k)]
        rng.shuffle(whens)
        if sorted(whens) == whens and k > 1:
            whens[0], whens[-1] = whens[-1], whens[0]
        for w in whens:
            g.hist.append(["env", ["sched", w, g.nid("sc")]])
        pending += k
        if rng.random() < 0.3:
            g.hist += [["env", s] for s in g.inject() if s[0] in ("trigger", "tick")]
        for _ in range(rng.randint(1, pending)):
            t = rng.choice([None, None, 20, 30, 2, 3])
            script = []
            r = rng.random()
            if r < 0.7:
                script.append(["late", rng.choice([1, 1, 2])])          # the wait ends late: pop site behind the wait
            elif r < 0.8:
                script += [["tick", 1], ["late", rng.choice([1, 2])]]
            elif r < 0.9:
                script.append(["tick", rng.choice([1, 2])])
            g.hist.append(["req", t, script])
            pending -= 1
            g.clock += rng.choice([1, 2, 3])
            if rng.random() < 0.4:
                # exactly ONE more event between two requests, usually earlier than what is still pending
                g.hist.append(["env", ["sched", g.clock + rng.choice([0, 1, 1, 2, 5]), g.nid("sc")]])
                pending += 1
    g.pend = pending + 2
    return g.build(0, 12)


def _late_trigger_cases():
    """a threadsafe trigger that is created only after requests have already waited, and whose callback then fires
    while a request is blocked"""
    for threaded in (False, True):
        for t, tail in ((5, [["tick", 1], ["ts", 0, 2001]]), (None, [["ts", 0, 2001]]), (3, [["late", 1]])):
            hist = [["req", 0, []], ["req", 2, [["tick", 2]]], ["req", t, tail], ["env", ["ts", 0, 2002]],
                    ["req", 4, [["tick", 1], ["ts", 0, 2003]]], ["env", ["tick", 50]], ["req", 0, []], ["req", 0, []], ["req", 0, []]]
            yield {"enc": "utf-8", "mode": "bytes", "paste": None, "ntrig": 1, "nev": 1, "threaded": threaded,
                   "hist": hist, "early": 0, "dtss": False, "lazy_ts": True}


def generate(rng, tier):
    for k, c in enumerate(_generate(rng, tier)):
        if k % 3 == 1:
            c["eqev"] = True          # value-like events: all events of the run compare equal
        yield c


def _generate(rng, tier):
    yield from _late_trigger_cases()
    n = 2500 if tier == "thorough" else 330
    for i in range(n):
        if i % 8 == 7:
            yield _sched_case(rng)
            continue
        g = _Gen(rng, tier, "mixed")
        yield g.build(rng.choice([4, 8, 12, 20, 30]), 60)
    sizes = [300, 1100, 2500, 5000, 8192] * (6 if tier == "thorough" else 1)
    for size in sizes:
        yield _burst_case(rng, size)
    # bursts of exactly k * 1024 bytes: the reads of one request end exactly at the end of what is pending
    for size in [1024, 2048, 3072] * (3 if tier == "thorough" else 1):
        yield _burst_case(rng, size, exact=True)
    # the same under every naming mode, made mostly of the longest sequences of either table
    for mode in ["bytes", "curtsies", "curses"]:
        for size in ([2500, 5000, 5000, 8192] if tier != "thorough" else [1100, 2500, 5000, 8192, 5000] * 3):
            c = _burst_case(rng, size, mode, long_tokens=True)
            if c["paste"] is None:
                c["paste"] = rng.choice([1, 8, 100])
            yield c


def shrink(inp):
    h = inp["hist"]
    for i in range(len(h)):
        yield dict(inp, hist=h[:i] + h[i + 1:])
    for i, it in enumerate(h):
        if it[0] == "req" and it[2]:
            for j in range(len(it[2])):
                yield dict(inp, hist=h[:i] + [["req", it[1], it[2][:j] + it[2][j + 1:]]] + h[i + 1:])
        if it[0] == "env" and it[1][0] in ("arrive", "unget") and len(it[1][1]) > 1:
            yield dict(inp, hist=h[:i] + [["env", [it[1][0], it[1][1][:len(it[1][1]) // 2]]]] + h[i + 1:])
    if inp.get("threaded"):
        yield dict(inp, threaded=False)


RULE = ("random histories (5-90 items) over: byte arrivals built from ASCII/control/multi-byte characters and the "
        "ESC sequences of both key tables, cut at token boundaries (15% of cases: anywhere), unget_bytes, "
        "event_trigger (1-2 triggers), scheduled_event_trigger (times around the current clock, equal times "
        "deliberately), threadsafe triggers (0-3; whole callbacks, and callbacks stopped between their append and "
        "their os.write), real SIGINT (sigint_event=True), another handled signal, clock ticks; requests with "
        "timeout 0 / 1-10 / None (None only when something is pending or the script ends with a waking step), each "
        "with a script of environment steps performed while it is blocked in select; 35% of cases perform the "
        "waking steps from a helper thread while the main thread is really blocked inside select.select; every "
        "history ends with a drain (clock +50, requests with timeout 0); every 8th case is a scheduler history: 3-6 events "
        "scheduled out of time order (equal times included), collected by requests that block until the next one is due, "
        "with more events scheduled in between, most of them with a LATE select wake-up in the script (the select of the harness "
        "and of the model otherwise times out exactly at its deadline, where `when < time.time()` is still false and the pop "
        "site behind the wait is never taken); late wake-ups also occur in the scripts of the mixed profile; plus bursts of 0.3-8 KiB of multi-byte "
        "characters and escape sequences; paste_threshold in {None,0,1,7,8,100,1024}; encodings utf-8 (85%), "
        "latin-1, ascii; key naming bytes (50%, makes the byte stream observable exactly), curtsies, curses. "
        "Streams never put a byte >= 0x80 directly behind an ESC sequence (finding F-C03, reported under C03). "
        "non-trivial = at least two different kinds of non-None outcomes; distinct = distinct (config, history)")
TRUSTED = [
    "Coq 8.16.1 kernel incl. vm_compute (no native_compute); Print Assumptions: closed under the global context",
    "the key decoder is a parameter of the model and of the theorems (Section variable find_key with the stated "
    "hypotheses: what it pops is a prefix of the buffer - lossless; it returns None only on an empty buffer; it pops "
    "at least one byte); C03 proves them for the model of events.get_key (Model/Keys.v), which the correspondence "
    "plugs in",
    "the reference queues coq/Spec/QueueSpec.v (per-source FIFOs, stable-minimum rule for scheduled events, byte "
    "stream with ungot bytes placed in front of what the kernel still holds)",
    "environment model inside Model/InputQ.v, validated by the correspondence but not proved against anything: "
    "select() returns ready descriptors in argument order, a tty in non-canonical mode is a byte FIFO and os.read "
    "returns min(READ_SIZE, available), a select timeout fires at its deadline or (step Late d) d later, pipes never fill up, a signal handler has run when the wake-up byte is seen, "
    "list.append/pop are atomic (GIL), list.sort is stable, integer clock",
    "harness: pty setup, fake clock / select / os proxies described in the module docstring of harness/props/c08.py, "
    "canonicaliser and the parser of coqc's answer; translator gen/gen_tables.py (MAX_KEYPRESS_SIZE, READ_SIZE, key tables)",
]
ASSUMPTIONS = [
    "thread interleavings are those expressible as environment steps between requests and at select calls, with a "
    "threadsafe callback divisible between its two statements; finer interleavings (inside list operations, inside "
    "the paste loop's reads, inside __enter__/__exit__) are not modelled",
    "scheduled_event_trigger callbacks are not called from another thread while a request is blocked (DESIGN section 6: "
    "not treated as a violation); the model covers it (UnboundLocalError) but the generator does not produce it",
    "byte streams are concatenations of validly encoded characters and ESC sequences without the F-C03 pattern; "
    "arrivals may be cut anywhere (cuts inside a multi-byte character after >= 2 bytes are the known findings "
    "F-C08a / F-C08b)",
    "sigint_event=True whenever a SIGINT is sent (otherwise Python raises KeyboardInterrupt, outside the property)",
]
LEVEL_TEXT = ("Machine-checked invariants (Coq) of a statement-by-statement model of Input._send / "
              "_wait_for_read_ready_or_timeout / the trigger factories together with an explicit model of the kernel "
              "objects they use, for ALL histories of environment steps and requests: every injected item is delivered at "
              "most once, per source in order, nothing is lost except bytes popped by a raising decoder; scheduled events "
              "come out in stable `when` order and never early; a request with something deliverable returns it without "
              "consuming time; with nothing scheduled None is returned no earlier than t0+timeout; a read above the "
              "threshold yields one paste event.  The model is tied to the real Input on every run by driving it over a pty "
              "with real pipes, threads and signals under a patched clock")
LEVEL_NOTE = ("PARTIAL by nature: real thread interleavings finer than the modelled steps, select wake-up order beyond "
              "argument order, asynchronous signal delivery and GIL atomicity are exercised by the correspondence, not proved. "
              "The decoder is a parameter (C03). Known findings F-C08a/F-C08b (read ending inside a multi-byte character => "
              "ValueError, bytes / the whole paste dropped) are stated as Examples and recognised by family()")
TECHNIQUE = ("Coq: list inductions over histories with ghost injection logs; kernel-evaluated witnesses; in-Coq differential "
             "correspondence against the real Input over a pty with threads/signals and a patched clock")
