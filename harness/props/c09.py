"""C09 -- splice replaces exactly the requested range and nothing else."""
import itertools

import canon
from canon import coq_fs, coq_str, coq_z, coq_opt, coq_cells, coq_res

ID = "C09"
LEVEL = "proof"
PROPS_FILE = "Props/C09.v"
EXTRA_PROPS = ("Props/C09Tie.v", "Props/C09TieSplice.v", "Props/C09TieAppend.v", "Props/C09TieSetslice.v", "Props/C09TieSetitem.v")
CORR_VO = "Corr/C09.vo"
REQUIRE = "From Curtsies Require Import Model.Base Model.Slice Model.Splice Corr.C09."
CASE_TYPE = "C09.case"
MODEL_OK = "C09.model_ok"
SPEC_OK = "C09.spec_ok"
EXHAUSTIVE = {"quick": False, "thorough": True}
SHARD = 400
RULE = ("small scope: every run layout with <= 3 runs of 0..3 characters and every layout with 4 runs of 0..2 characters (166 layouts incl. no runs and empty runs, "
        "distinct characters and attributes per run) x 8 replacement values (str, '' , multi-run FmtStr, FmtStr() "
        "without runs, FmtStr with only an empty run, FmtStr with an empty run first / in the middle) x every "
        "0 <= start <= end <= len+2 and end omitted (thorough: all; quick: a seeded sample), so start and end fall on, "
        "before and after every run boundary; append of every replacement to every layout; setslice_with_length / "
        "setitem over sampled layouts x ranges x length limits (padding, AssertionError, ValueError); random larger "
        "FmtStrs; a stream outside the quantifier (negative start, end < start; model = implementation only). "
        "observation: per-character (char, attributes) list of the result, exception class; the operand is re-read "
        "after the call and must be unchanged. non-trivial = the FmtStr and the replacement are not both empty; "
        "distinct = distinct input")
GENERATORS = ("gen/gen_pure.py",)
PURE_HELPERS = ('FmtStr_divides', 'FmtStr_splice', 'FmtStr_append', 'FmtStr_setslice_with_length', 'FmtStr_setitem')
TRUSTED = [
    "translator gen/gen_pure.py (dumps the Python AST of FmtStr.splice, append, setslice_with_length, setitem, __add__, __radd__ and "
    "of the getter of FmtStr.divides node by node into coq/Gen/PureFmt.v) and the reference semantics of that Python subset "
    "coq/Spec/PyMini.v (incl. chained comparisons, keyword arguments, isinstance against the module's classes, a filtered generator "
    "expression under *, method calls and + dispatched to the generated methods of the class, assert with a message expression), "
    "itself run against CPython on enumerated FmtStrs / operands / ranges in every check (tie theorems "
    "C09_divides_is_the_repository_property, C09_splice_is_the_repository_method, C09_splice_default_end_is_the_repository_method, "
    "C09_append_is_the_repository_method, C09_setslice_with_length_is_the_repository_method, C09_setitem_is_the_repository_method)",
    "named oracles of coq/Spec/PyEnvFmt.v used by the splice tie: Chunk(s, atts), FmtStr(*parts), fmtstr(s) for s without an escape "
    "introducer, len(fs); validated against CPython by the same pass",
    "Coq 8.16.1 kernel incl. vm_compute (no native_compute); Print Assumptions: closed under the global context",
    "reference list semantics coq/Spec/ListOps.v (list_splice = firstn s l ++ x ++ skipn e l, setslice_ref)",
    "harness canonicaliser harness/canon.py (FmtStr runs -> cells -> Coq literal) and the parser of coqc's answer",
    "in the hand model (proved equal to the interpreter's run of the method text): Python zip / list extend / generator filter, "
    "built-in str slicing (= pyslice), chained comparison",
]
ASSUMPTIONS = ["0 <= start <= end (end omitted = start), as the property's quantifier states; other arguments are "
               "modelled and compared with the implementation but no theorem speaks about them",
               "a plain str replacement does not contain ESC[ (it goes through fmtstr(), whose parser is C05/C17)"]

ATTS = [[2, 0, 0, 0, 0, 0, 0, 0], [0, 5, 1, 0, 0, 0, 0, 0], [3, 0, 0, 0, 1, 2, 0, 0], [0, 0, 0, 0, 0, 0, 0, 0]]
LETTERS = "abcdefghi"
Z8 = [0] * 8
NEWS = [["str", "XY"], ["str", ""], ["str", "Z"],
        ["fs", [["P", [4, 0, 0, 0, 0, 0, 0, 0]], ["QR", [0, 7, 0, 0, 0, 1, 0, 0]]]],
        ["fs", []],
        ["fs", [["", [6, 0, 0, 0, 0, 0, 0, 0]]]],
        ["fs", [["", [6, 0, 0, 0, 0, 0, 0, 0]], ["S", [0, 0, 1, 0, 0, 0, 0, 0]]]],
        ["fs", [["T", Z8], ["", [0, 2, 0, 0, 0, 0, 0, 0]], ["U", [8, 0, 0, 0, 0, 0, 1, 0]]]],
        # an empty first run formatted like one of the runs of the layouts (ATTS), then differently formatted text
        ["fs", [["", list(ATTS[0])], ["V", [0, 7, 0, 0, 0, 0, 0, 0]]]],
        ["fs", [["", list(ATTS[1])], ["W", list(ATTS[2])]]],
        ["fs", [["", list(ATTS[2])], ["", list(ATTS[0])], ["K", Z8]]]]


def layouts(maxruns=3, maxlen=3, minruns=0):
    for k in range(minruns, maxruns + 1):
        for lens in itertools.product(range(maxlen + 1), repeat=k):
            runs, pos = [], 0
            for i, n in enumerate(lens):
                runs.append([LETTERS[pos:pos + n], list(ATTS[i])])
                pos += n
            yield runs


def total(runs):
    return sum(len(s) for s, _ in runs)


def op_total(o):
    return len(o[1]) if o[0] == "str" else total(o[1])


def rand_operand(rng):
    if rng.random() < 0.5:
        s = canon.rand_text(rng, 5)
        if rng.random() < 0.1:
            s += "\x1b"
        return ["str", s.replace("\x1b[", "\x1b")]
    return ["fs", canon.rand_runs(rng, maxruns=3, maxlen=4)]


def generate(rng, tier):
    thorough = tier == "thorough"
    # 85 layouts with <= 3 runs of <= 3 characters + 81 layouts with 4 runs of <= 2 characters
    lays = list(layouts()) + list(layouts(4, 2, 4))
    # 1. splice, small scope, inside the quantifier
    sp = []
    for runs in lays:
        n = total(runs)
        for new in NEWS:
            for s in range(0, n + 3):
                sp.append(["splice", runs, new, s, None])
                for e in range(s, n + 3):
                    sp.append(["splice", runs, new, s, e])
    if not thorough:
        sp = rng.sample(sp, 3000)
    yield from sp
    # 2. append
    for runs in (lays if thorough else rng.sample(lays, 30)):
        for new in NEWS:
            yield ["append", runs, new]
    # 3. setslice_with_length / setitem
    ss = []
    for runs in lays:
        n = total(runs)
        for fs in NEWS[:5] + NEWS[7:8]:
            for s in range(0, n + 3):
                ss.append(["setitem", runs, s, fs])
                for e in range(s, n + 3):
                    for length in sorted({n, n + 1, n + 4, e, 0}):
                        ss.append(["setslice", runs, s, e, fs, length])
    yield from rng.sample(ss, 20000 if thorough else 1500)
    # 4. random larger
    for _ in range(20000 if thorough else 1200):
        runs = canon.rand_runs(rng, maxruns=6, maxlen=8)
        n = total(runs)
        new = rand_operand(rng)
        r = rng.random()
        s = rng.randint(0, n + 2)
        e = rng.randint(s, n + 2)
        if r < 0.6:
            yield ["splice", runs, new, s, rng.choice([e, e, e, None])]
        elif r < 0.7:
            yield ["append", runs, new]
        elif r < 0.9:
            yield ["setslice", runs, s, e, new, rng.choice([n, n, n + 2, e, n + op_total(new)])]
        else:
            yield ["setitem", runs, s, new]
    # 4a. the new value is the subject's OWN text (retyping a line over itself, a[:] = a.s): as a plain str, and as a
    #     FmtStr of one differently formatted run; over the whole subject and over parts of it
    for runs in rng.sample(lays, len(lays) if thorough else 60) + [canon.rand_runs(rng, maxruns=5, maxlen=4) for _ in range(60)]:
        n = total(runs)
        text = "".join(t for t, _ in runs)
        if "\x1b" in text or "\x9b" in text:
            continue
        for new in (["str", text], ["fs", [[text, list(ATTS[3])]]]):
            yield ["splice", runs, new, 0, n]
            yield ["splice", runs, new, 0, None] if n else ["append", runs, new]
            yield ["setslice", runs, 0, n, new, n]
            if n > 1:
                yield ["splice", runs, ["str", text[1:]], 1, n]
                yield ["splice", runs, ["str", text[:-1]], 0, n - 1]
    # 4b. subjects one of whose runs holds raw terminal output as TEXT (what `f + some_str` makes: no parsing on that
    #     path): an escape sequence inside a run is ordinary characters for every operation on f
    raw = [[["ab", list(ATTS[0])], ["x\x1b[31my\x1b[0m", list(ATTS[1])], ["cd", list(ATTS[2])]],
           [["\x1b[1mq", list(ATTS[3])], ["\x9b4mz\x1b[", list(ATTS[0])]]]
    for runs in raw:
        n = total(runs)
        for new in (NEWS[0], NEWS[3], NEWS[1]):
            for s_ in range(0, n + 1):
                yield ["splice", runs, new, s_, None]
                for e_ in (s_, s_ + 1, s_ + 3, n):
                    if e_ >= s_:
                        yield ["splice", runs, new, s_, e_]
        yield ["append", runs, NEWS[0]]
    # 4c. subjects in which a run occurs twice or three times with the same text AND attributes (a repeated token or
    #     separator, f * n): what is cut must be found by position, not by value
    X, P, S3 = ["x", list(ATTS[0])], ["(", list(ATTS[3])], [", ", list(ATTS[3])]
    twins = [[X, [" = ", list(ATTS[3])], ["f", list(ATTS[1])], P, X, S3, X, [")", list(ATTS[3])]],
             [["ab", list(ATTS[1])], ["-", list(ATTS[2])]] * 3]
    for runs in twins:
        runs = [list(r) for r in runs]
        n = total(runs)
        for new in (NEWS[0], NEWS[1], NEWS[3]):
            for s_ in range(0, n + 1):
                for e_ in sorted({s_, s_ + 1, s_ + 2, n - 1, n}):
                    if e_ >= s_:
                        yield ["splice", runs, new, s_, e_]
    # 5. outside the quantifier: negative start, end < start (model = implementation only)
    for _ in range(3000 if thorough else 300):
        runs = rng.choice(lays) if rng.random() < 0.7 else canon.rand_runs(rng)
        n = total(runs)
        new = rng.choice(NEWS) if rng.random() < 0.7 else rand_operand(rng)
        s = rng.randint(-n - 2, n + 2)
        e = rng.randint(-n - 2, n + 2)
        r = rng.random()
        if r < 0.7:
            yield ["splice", runs, new, s, rng.choice([e, e, None])]
        elif r < 0.9:
            yield ["setslice", runs, s, e, new, rng.choice([n, n + 2, 0])]
        else:
            yield ["setitem", runs, s, new]


def build_operand(o):
    return o[1] if o[0] == "str" else canon.build_fs(o[1])


def observe(r):
    if not isinstance(r, canon.FmtStr):
        raise canon.Unrepresentable("result is %r" % (type(r),))
    return [[ch, list(st)] for ch, st in canon.cells_of(canon.canon_fs(r))]


def run(inp):
    kind = inp[0]
    f = canon.build_fs(inp[1])
    if kind == "splice":
        new = build_operand(inp[2])
        s, e = inp[3], inp[4]
        out = canon.outcome((lambda: f.splice(new, s)) if e is None else (lambda: f.splice(new, s, e)), observe)
    elif kind == "append":
        new = build_operand(inp[2])
        out = canon.outcome(lambda: f.append(new), observe)
    elif kind == "setslice":
        new = build_operand(inp[4])
        out = canon.outcome(lambda: f.setslice_with_length(inp[2], inp[3], new, inp[5]), observe)
    elif kind == "setitem":
        new = build_operand(inp[3])
        out = canon.outcome(lambda: f.setitem(inp[2], new), observe)
    else:
        raise ValueError(kind)
    # "f itself is unchanged" (the rest of that clause is C13's): the operand's runs are re-read
    if canon.canon_fs(f) != [[s, list(a)] for s, a in inp[1]]:
        return ["raise", "OtherError"]
    return out


def coq_operand(o):
    return "(OStr %s)" % coq_str(o[1]) if o[0] == "str" else "(OFmt %s)" % coq_fs(o[1])


def to_coq(inp, out):
    kind = inp[0]
    f = coq_fs(inp[1])
    if kind == "splice":
        op = "C09.Splice %s %s %s %s" % (f, coq_operand(inp[2]), coq_z(inp[3]), coq_opt(inp[4], coq_z))
    elif kind == "append":
        op = "C09.Append %s %s" % (f, coq_operand(inp[2]))
    elif kind == "setslice":
        op = "C09.SetSlice %s %s %s %s %s" % (f, coq_z(inp[2]), coq_z(inp[3]), coq_operand(inp[4]), coq_z(inp[5]))
    else:
        op = "C09.SetItem %s %s %s" % (f, coq_z(inp[2]), coq_operand(inp[3]))
    return "(%s, %s)" % (op, coq_res(out, lambda v: coq_cells([(c, st) for c, st in v])))


def to_json_input(inp):
    return {"op": inp}


def to_json_output(out):
    if out[0] == "ok":
        return {"text": "".join(c for c, _ in out[1]), "cells": out[1]}
    return {"raise": out[1]}


def from_json(obj):
    return obj["op"]


def key(inp):
    return repr(inp)


def the_operand(inp):
    return {"splice": 2, "append": 2, "setslice": 4, "setitem": 3}[inp[0]]


def nontrivial(inp, out):
    return total(inp[1]) + op_total(inp[the_operand(inp)]) > 0


def stats(inp, out):
    kind, runs = inp[0], inp[1]
    n = total(runs)
    new = inp[the_operand(inp)]
    yield "op=" + kind
    yield "runs=%d" % min(len(runs), 5)
    if not runs:
        yield "no_runs"
    if any(not s for s, _ in runs):
        yield "has_empty_run"
    yield "new=%s%s" % (new[0], "_empty" if op_total(new) == 0 else "")
    if new[0] == "fs" and not new[1]:
        yield "new_no_runs"
    if new[0] == "fs" and any(not s for s, _ in new[1]):
        yield "new_has_empty_run"
    if out[0] == "raise":
        yield "raises_" + out[1]
    if kind in ("splice", "setslice"):
        s = inp[2] if kind == "setslice" else inp[3]
        e = inp[3] if kind == "setslice" else inp[4]
        if e is None:
            yield "end_omitted"
            e = s
        if s < 0 or e < s:
            yield "outside_quantifier"
        else:
            div, acc = set(), 0
            for t, _ in runs:
                div.add(acc)
                acc += len(t)
            div.add(acc)
            inner = div - {0, n}
            if s in inner:
                yield "start_on_inner_boundary"
            if e in inner:
                yield "end_on_inner_boundary"
            if s == e:
                yield "pure_insertion"
            if s > n:
                yield "start_past_end"
            elif e > n:
                yield "end_past_end"
            if s == 0:
                yield "start_0"


def shrink(inp):
    kind, runs = inp[0], inp[1]
    rest = inp[2:]
    k = the_operand(inp)
    for i in range(len(runs)):
        yield [kind, runs[:i] + runs[i + 1:]] + rest
    for i, (s, a) in enumerate(runs):
        if len(s) > 1:
            yield [kind, runs[:i] + [[s[:-1], a]] + runs[i + 1:]] + rest
        if any(a):
            yield [kind, runs[:i] + [[s, [0] * 8]] + runs[i + 1:]] + rest
    new = inp[k]
    if new[0] == "str" and new[1]:
        yield inp[:k] + [["str", new[1][:-1]]] + inp[k + 1:]
    if new[0] == "fs":
        for i in range(len(new[1])):
            yield inp[:k] + [["fs", new[1][:i] + new[1][i + 1:]]] + inp[k + 1:]
    for j in range(2, len(inp)):
        if j != k and isinstance(inp[j], int) and inp[j] != 0:
            yield inp[:j] + [inp[j] - 1 if inp[j] > 0 else inp[j] + 1] + inp[j + 1:]


LEVEL_TEXT = ("Machine-checked theorem (Coq) for ALL FmtStrs (any number of runs, empty runs, no runs), ALL replacement "
              "values (str or FmtStr, empty, without runs, with empty runs) and ALL 0 <= start <= end (end omitted = "
              "start; start or end past the end included): cells(f.splice(new, start, end)) = first start cells of f ++ "
              "cells of new ++ cells of f from end on, a plain str contributing unformatted cells; append(x) is splice at "
              "the end; setslice_with_length/setitem are characterised (padding, AssertionError, ValueError) on top. The "
              "model follows divides, the zip over run boundaries, the four-branch case split with the `inserted` flag, the "
              "early return and the final filter of empty runs, and is compared in Coq with the real implementation on "
              "the complete small scope (166 layouts x 8 replacements x all start <= end <= len+2, end omitted) in the "
              "thorough tier and a seeded sample in the quick tier, plus random larger cases and calls outside the quantifier")
LEVEL_NOTE = ("Trusted: Coq kernel+vm_compute, the reference list semantics Spec/ListOps.v, the canonicaliser. Modelled not "
              "verified: built-in str slicing, zip, list extend, chained comparison. 'f itself is unchanged' is observed by "
              "the harness on every case (runs re-read after the call); the general immutability argument is C13's. "
              "Replacement strs containing ESC[ go through the parser (C05/C17) and are outside the model")
TECHNIQUE = ("Coq proof by induction over the run list generalising the running offset with the invariant 'inserted exactly "
             "once' (not inserted: offset <= start; inserted: start <= offset) + lia; in-Coq differential correspondence, "
             "exhaustive small scope in the thorough tier")
