"""C16 -- linesplit word-wraps without losing, reordering or restyling words."""
import itertools
import re

import canon
from canon import coq_fs, coq_str, coq_list, coq_z

ID = "C16"
LEVEL = "proof"
PROPS_FILE = "Props/C16.v"
CORR_VO = "Corr/C16.vo"
REQUIRE = ("From Curtsies Require Import Model.Base Model.Slice Corr.C16.\n"
           "Import C16.")
CASE_TYPE = "C16.case"
MODEL_OK = "C16.model_ok"
SPEC_OK = "C16.spec_ok"
SHARD = 400
EXHAUSTIVE = {"quick": False, "thorough": False}
RULE = ("(0) word-length grid: 2 and 3 words with lengths in {1, c-1, c, c+1, 2c, 2c+1} for columns c in {2,3,4,5}, gaps "
        "' ' and TAB+' ', formatting changing at every character (plus the plain-str form) - every combination of exact "
        "fill / one short / one over, and a non-first over-long word followed by a word that fits behind its last piece; "
        "(1) every text over the alphabet {a, b, ' ', TAB} up to length 6 (5 in the quick tier) x columns {1,2,3,5} x "
        "layouts {plain str, one formatted run, a new run with different attributes at every character, seeded random "
        "cuts with empty runs} (quick: two of the four layouts per text, rotating with the seed); (2) random texts up to "
        "40 characters over letters, wide and combining characters, ZERO WIDTH SPACE (not `\\s`) and the whitespace "
        "characters SPACE TAB LF VT FF CR FS US NEL NBSP EM-SPACE LINE-SEPARATOR IDEOGRAPHIC-SPACE, words longer than / "
        "equal to / shorter than columns in 1..12, run boundaries inside words and inside whitespace blocks, shared-base "
        "+ per-run attributes, empty runs, str and FmtStr arguments, texts without any word; (3) columns 0, -1, -2 "
        "(outside the claim: model only). The set of `\\s` characters of each text is computed with the real re module "
        "(the pattern linesplit uses is r'\\s+' on a str, i.e. Unicode whitespace) and carried in the case, so the "
        "model's is_space and the regex agree on every generated character by construction. Observation: per-character "
        "cells (character + graphic state) of every returned line against the model, against the independent greedy "
        "reference, and against the clauses of the property one by one. non-trivial = at least two words and "
        "columns >= 1; distinct = distinct (argument, columns)")
TRUSTED = [
    "Coq 8.16.1 kernel incl. vm_compute; Print Assumptions: closed under the global context",
    "reference functions coq/Spec/StrSpec.v: blocks / inner_gaps (maximal blocks of non-space / of space items between "
    "two words), chop, greedy_wrap (greedy first-fit wrap), meet_sgr (what all cells of a gap share), sgr_le, interleave "
    "- sanity-proved: C16_gaps_lie_between_consecutive_words (they partition the text), "
    "C16_joining_space_of_a_uniform_gap / _shows_only_shared_formatting",
    "Python's `\\s` as data: the whitespace characters of each text are classified by the real re module in the harness; "
    "the theorems hold for an arbitrary classifier is_space (only `is_space U+0020` is assumed, for conservation)",
    "harness canonicaliser (FmtStr runs -> Coq literal), parser of coqc's answer",
    "modelled, not verified: re.finditer(r'\\s+') as the maximal-block scanner over is_space (Model/StrMeth.ws_spans), "
    "zip/range/list.extend, floor division; slicing string[a:b] is the proved C06 model",
]
ASSUMPTIONS = ["columns >= 1 (columns = 0 divides by zero unless there is no word, negative columns are modelled but not "
               "claimed)",
               "text free of ESC '[' and U+009B when given as a str (fmtstr() would parse it)",
               "line length is counted in characters (len), as the code does, not in display columns",
               "is_space 32 = true (Python's `\\s` matches U+0020) for the conservation theorem only"]
LEVEL_TEXT = ("Machine-checked theorems (Coq, all closed under the global context) for the model of linesplit over the "
              "proved slicing model (C06), for EVERY FmtStr or str and EVERY columns >= 1, by induction (no size bound): "
              "no exception (the model's Raise outcomes - IndexError of lines[-1] / shared_atts, ZeroDivisionError - are "
              "unreachable); the lines are cell by cell (characters and formatting) the greedy first-fit wrap of the "
              "maximal non-whitespace blocks of the per-character list, a word longer than a line cut into full-length "
              "pieces, two words on a line joined by one U+0020 formatted with what all cells of the replaced gap share "
              "(= the gap's formatting when uniform; never an attribute some gap cell lacks); the same on the text "
              "alone; 1 <= len(line) <= columns; every line begins and ends with a non-whitespace character; the "
              "non-whitespace cells are conserved in order with their formatting; the gaps lie between consecutive "
              "words (partition theorem); no lines iff no words. Tied to the code by a word-length grid, an exhaustive "
              "small-scope sweep and random cases compared inside Coq with model and reference")
LEVEL_NOTE = ("Trusted: Coq kernel, Spec/StrSpec.v references, `\\s` classification by the real re module, canonicaliser. "
              "Modelled: the regex engine on \\s+ as a maximal-block scanner. Nothing partial: all clauses of the DESIGN "
              "statement are proved")
TECHNIQUE = ("Coq proof: scanner-vs-blocks/inner_gaps correspondence by induction over the text with a prefix accumulator; "
             "word_to_lines = chop via Z division bounds; induction over the (word, gap) pairs with the current line as "
             "accumulator (loop_wrap) on top of the C06 slicing theorem and shared_atts_meet; consequences (fit, "
             "conservation, text-level wrap via map-commutation lemmas, partition) proved on the reference; section "
             "variable is_space; grid + exhaustive small-scope + random in-Coq differential correspondence")

SMALL = "ab \t"
WS = " \t\n\x0b\x0c\r\x1c\xa0\u2003\u3000\x1f\x85\u2028"   # all matched by `\s` on str patterns (checked per case with re)
LETTERS = "abcdefgXYZ.,-\xe9\u4e2d\u0300\u200b"     # U+200B ZERO WIDTH SPACE is NOT `\s`: part of a word
A1 = [2, 0, 1, 0, 0, 0, 0, 0]
A2 = [0, 5, 0, 0, 0, 1, 0, 0]
A3 = [2, 5, 1, 0, 0, 1, 0, 2]


def seeded_layout(text, salt):
    """deterministic pseudo-random cuts with empty runs (depends only on text and salt)"""
    import random
    rng = random.Random("%s/%d" % (text, salt))
    return rand_layout(rng, text)


def rand_layout(rng, text):
    k = rng.choice([0, 1, 2, 3, 4, 6])
    cuts = sorted(rng.randint(0, len(text)) for _ in range(k)) if text else []
    pieces = [text[a:b] for a, b in zip([0] + cuts, cuts + [len(text)])]
    mode = rng.random()
    base = list(canon.rand_atts(rng)) if mode < 0.7 else [0] * 8
    runs = []
    for p in pieces:
        a = list(base)
        if mode >= 0.15:
            extra = canon.rand_atts(rng)
            for i in range(8):
                if extra[i] and rng.random() < 0.5:
                    a[i] = extra[i]
        runs.append([p, a])
    if rng.random() < 0.35:
        for _ in range(rng.choice([1, 1, 2])):
            runs.insert(rng.randint(0, len(runs)), ["", list(canon.rand_atts(rng))])
    return runs


def layouts(text, which, salt):
    if which == 0:
        return ["s", text]
    if which == 1:
        return ["f", [[text, A1]]]
    if which == 2:
        return ["f", [[ch, [A1, A2, A3][i % 3]] for i, ch in enumerate(text)] or [["", A1]]]
    return ["f", seeded_layout(text, salt)]


def rand_big(rng):
    nwords = rng.choice([0, 1, 2, 3, 4, 6, 8])
    cols = rng.randint(1, 12)
    parts = []
    if rng.random() < 0.4:
        parts.append("".join(rng.choice(WS) for _ in range(rng.randint(1, 3))))
    for i in range(nwords):
        ln = rng.choice([1, 1, 2, 3, cols - 1, cols, cols + 1, 2 * cols, 2 * cols + 1, rng.randint(1, 6)])
        parts.append("".join(rng.choice(LETTERS) for _ in range(max(1, ln))))
        if i < nwords - 1 or rng.random() < 0.4:
            ws = rng.choice([" ", " ", WS[:2], WS])
            parts.append("".join(rng.choice(ws) for _ in range(rng.choice([1, 1, 2, 3]))))
    text = "".join(parts)[:40]
    if rng.random() < 0.2:
        arg = ["s", text]
    else:
        arg = ["f", rand_layout(rng, text)]
    return {"arg": arg, "columns": cols}


def grid(tier):
    """word-length grid: 2 and 3 words whose lengths sit around columns and its multiples, so that every
    combination of (tail of a cut word / exact fill / one short / one over) x (next word fits / just not) occurs,
    also for a NON-first over-long word followed by a word that fits behind its last piece"""
    letters = "abc"
    for cols in (2, 3, 4, 5):
        lens = sorted({1, cols - 1, cols, cols + 1, 2 * cols, 2 * cols + 1} - {0})
        for k in (2, 3):
            for combo in itertools.product(lens, repeat=k):
                words = [letters[i] * n for i, n in enumerate(combo)]
                for gap in (" ", "\t "):
                    text = gap.join(words)
                    yield {"arg": ["f", [[ch, [A1, A2, A3][i % 3]] for i, ch in enumerate(text)]], "columns": cols}
                    if tier == "thorough" or gap == " ":
                        yield {"arg": ["s", text], "columns": cols}


def generate(rng, tier):
    yield from grid(tier)
    maxlen = 6 if tier == "thorough" else 5
    salt = rng.randrange(1 << 30)
    rot = rng.randrange(4)
    idx = 0
    for n in range(maxlen + 1):
        for tup in itertools.product(SMALL, repeat=n):
            text = "".join(tup)
            idx += 1
            which = range(4) if tier == "thorough" else [(idx + rot) % 4, (idx + rot + 2) % 4]
            for w in which:
                arg = layouts(text, w, salt)
                for cols in (1, 2, 3, 5):
                    yield {"arg": arg, "columns": cols}
    for _ in range(30000 if tier == "thorough" else 1500):
        yield rand_big(rng)
    # a single whitespace-free token of a few thousand characters (a hex blob, a URL): thousands of pieces
    blob = "0123456789abcdef" * 150
    yield {"arg": ["s", "id " + blob + " end"], "columns": 2}
    yield {"arg": ["f", [["x ", [2, 0, 0, 0, 0, 0, 0, 0]], [blob[:1500], [0, 5, 1, 0, 0, 0, 0, 0]]]], "columns": 1}
    yield {"arg": ["s", blob], "columns": 80}
    # a few calls outside the claimed domain (model only)
    for cols in (0, -1, -2):
        yield {"arg": ["s", "ab cde f"], "columns": cols}


def arg_text(arg):
    return arg[1] if arg[0] == "s" else "".join(s for s, _ in arg[1])


def run(inp):
    from curtsies.formatstring import linesplit
    arg = inp["arg"]
    text = arg_text(arg)
    ws = sorted(set(ch for ch in text if re.fullmatch(r"\s", ch)))
    a = arg[1] if arg[0] == "s" else canon.build_fs(arg[1])
    got = canon.outcome(lambda: linesplit(a, inp["columns"]), lambda ls: [canon.canon_fs(x) for x in ls])
    return {"ws": "".join(ws), "got": got}


def to_coq(inp, out):
    arg = inp["arg"]
    a = "(OStr %s)" % coq_str(arg[1]) if arg[0] == "s" else "(OFmt %s)" % coq_fs(arg[1])
    g = out["got"]
    got = "(Ok %s)" % coq_list([coq_fs(x) for x in g[1]]) if g[0] == "ok" else "(Raise %s)" % g[1]
    return "(%s, %s, %s, %s)" % (a, coq_z(inp["columns"]), coq_str(out["ws"]), got)


def to_json_input(inp):
    return inp


def to_json_output(out):
    return out


def from_json(obj):
    return {"arg": obj["arg"], "columns": obj["columns"]}


def key(inp):
    return repr((inp["arg"], inp["columns"]))


def nontrivial(inp, out):
    return len(arg_text(inp["arg"]).split()) >= 2 and inp["columns"] >= 1


def stats(inp, out):
    arg = inp["arg"]
    text = arg_text(arg)
    cols = inp["columns"]
    words = text.split()
    yield "arg=" + ("str" if arg[0] == "s" else "FmtStr")
    yield "columns=%s" % (cols if cols <= 5 else "6+")
    yield "words=%s" % (len(words) if len(words) <= 3 else "4+")
    if cols >= 1:
        if any(len(w) > cols for w in words):
            yield "word_longer_than_columns"
        if any(len(w) == cols for w in words):
            yield "word_equals_columns"
    if text and not words:
        yield "only_whitespace"
    if text[:1].isspace():
        yield "leading_whitespace"
    if text[-1:].isspace():
        yield "trailing_whitespace"
    if re.search(r"\s\s", text):
        yield "multiple_whitespace"
    if any(ch in text for ch in WS[2:]):
        yield "non_blank_whitespace_kinds"
    if arg[0] == "f":
        runs = arg[1]
        yield "runs=%d" % min(len(runs), 6)
        if any(not s for s, _ in runs):
            yield "has_empty_run"
        bounds, acc = set(), 0
        for s, _ in runs:
            acc += len(s)
            bounds.add(acc)
        if any(0 < b < len(text) and not text[b - 1].isspace() and not text[b].isspace() for b in bounds):
            yield "run_boundary_inside_word"
        if any(0 < b < len(text) and text[b - 1].isspace() and text[b].isspace() for b in bounds):
            yield "run_boundary_inside_gap"
    g = out["got"]
    yield "result=" + (g[0] if g[0] != "ok" else "lines:%s" % (len(g[1]) if len(g[1]) <= 3 else "4+"))


def shrink(inp):
    arg = inp["arg"]
    if arg[0] == "s":
        t = arg[1]
        for i in range(len(t)):
            yield {"arg": ["s", t[:i] + t[i + 1:]], "columns": inp["columns"]}
        return
    runs = arg[1]
    if len(runs) > 1:
        for i in range(len(runs)):
            yield {"arg": ["f", runs[:i] + runs[i + 1:]], "columns": inp["columns"]}
    for i, (s, a) in enumerate(runs):
        for j in range(len(s)):
            yield {"arg": ["f", runs[:i] + [[s[:j] + s[j + 1:], a]] + runs[i + 1:]], "columns": inp["columns"]}
