"""C13 -- FmtStr values are immutable and their memoised views never go stale."""
import re
from itertools import chain

import canon
from canon import coq_atts, coq_fs, coq_str, exn_name

from curtsies.formatstring import FmtStr, Chunk, fmtstr, linesplit
from curtsies import fmtfuncs
from cwcwidth import wcwidth

ID = "C13"
LEVEL = "proof"
PROPS_FILE = "Props/C13.v"
CORR_VO = "Corr/C13.vo"
GENERATORS = ("gen/gen_effects.py",)
REQUIRE = "From Curtsies Require Import Model.Base Model.Heap Corr.C13."
CASE_TYPE = "C13.case"
MODEL_OK = "C13.model_ok"
SPEC_OK = "C13.spec_ok"
EXHAUSTIVE = {"quick": False, "thorough": False}
SHARD = 12
RULE = ("random straight-line programs (quick: up to 12 operations after 2-3 constructions, thorough: up to 30) over a "
        "growing pool of FmtStr objects, drawn from the whole public operation set: + (FmtStr/str), str + FmtStr, *, "
        "indexing, slicing, splice, append, join, split (literal, regex, whitespace), splitlines (both keepends), "
        "ljust/rjust (with and without fillchar), copy, copy_with_new_atts, fmtstr() re-wrapping in all spellings, "
        "fmtfuncs on FmtStr, new_with_atts_removed, copy_with_new_str, width_aware_slice, width_aware_splitlines, "
        "linesplit, delegated str methods (upper, lower, strip, center, replace, title, zfill, ...), ==, and the "
        "observations str/len/.s/.width/repr inserted with probability 1/2 before and after every aliasing operation, "
        "plus the forbidden mutations f[i]=x and atts[k]=v / update / del / |= / pop / popitem / clear / setdefault on a "
        "run's attributes. After EVERY step EVERY pool object is snapshotted without calling its getters (runs, the raw "
        "memo slots, each run's cached color_str, identity of runs and of objects). Texts: plain, control (newline, tab), "
        "wide and combining characters. non-trivial = at least one aliasing operation and one observation; distinct = "
        "distinct program")
TRUSTED = [
    "Coq 8.16.1 kernel incl. vm_compute (no native_compute); Print Assumptions: closed under the global context",
    "translator gen/gen_effects.py (AST walk of curtsies/formatstring.py, fails closed) and the acceptance policy "
    "`safe` in coq/Spec/HeapSpec.v, which is a reviewed whitelist, not a theorem about Python",
    "the Python object model as modelled in coq/Model/Heap.v: list(components) copies, a + b on lists and slicing "
    "build new lists, *args passes references, functools.cached_property stores in the instance __dict__, "
    "**kwargs is a dict built per call, tuples/str/int are immutable",
    "reference functions render (Model/Render.v, proved against the SGR interpreter in C01), text, flen, spec_width",
    "harness canonicaliser (harness/canon.py, this module): raw reads of __dict__ / .chunks, identity via `is`",
    "cwcwidth.wcwidth per character is passed into each case as data",
]
ASSUMPTIONS = [
    "texts contain no ESC (fmtstr(str) takes the FmtStr(Chunk(s)) path of from_str)",
    "0 <= start <= end in splice; multiplication by n >= 0",
    "results of delegated str methods, regex match positions of split, and the sharing structure of the results of "
    "linesplit / width_aware_splitlines are taken from the implementation as data of the model's operation "
    "(the frame theorem covers them for ANY such data)",
    "not covered: calling dict.__init__ on an existing FrozenAttributes, object.__setattr__, direct assignment to "
    "obj.chunks / obj._s from outside the module (the property speaks of the public operation set)",
]
LEVEL_TEXT = ("Machine-checked (Coq) frame theorem for a HEAP model of formatstring.py (FmtStr objects with a list "
              "reference and four memo slots, list objects, run objects with cached color_str; every public operation a "
              "heap transformer mirroring allocation and aliasing): for every program of any length, cut at any position, "
              "every object allocated before keeps its value and every filled memo slot equals the recomputed value; "
              "item assignment / attribute-dict mutation raise. The tie to the source is (a) an AST effect summary of every "
              "function of formatstring.py regenerated on every run and accepted by a kernel-evaluated policy "
              "(effects_safe), (b) in-Coq differential replay of random programs against the real objects with "
              "per-step snapshots of values, raw memo slots, run identity and object identity")
LEVEL_NOTE = ("proof of the heap discipline + partial: the Python object model (what list(...), slicing, `+` on lists and "
              "*args copy; cached_property; per-call **kwargs) is assumed as modelled; the effect policy `safe` is a "
              "whitelist judged by review; linesplit / width_aware_splitlines enter the model through a generic "
              "allocate-and-fill operation whose sharing data come from the implementation")
TECHNIQUE = ("Coq: state-monad heap model, Hoare-style preservation lemmas per primitive, structural descent over the "
             "operations, induction over programs; generated effect table + vm_compute; in-Coq differential correspondence")

COLORS = canon.COLORS
STYLES = canon.STYLES
SLOTS = ["_unicode", "_len", "_s", "_width"]
SLOT_COQ = ["SUnicode", "SLen", "SS", "SWidth"]
ATT_MUTATORS = ["setitem", "update", "delitem", "ior", "pop", "popitem", "clear", "setdefault"]
STR_METHODS = [("upper", []), ("lower", []), ("strip", []), ("lstrip", []), ("rstrip", []), ("title", []),
               ("capitalize", []), ("swapcase", []), ("center", [9]), ("center", [3]), ("zfill", [7]),
               ("replace", ["a", "bb"]), ("replace", [" ", ""]), ("expandtabs", [4]), ("strip", ["ab "])]
ALIASING = {"add", "addstr", "raddstr", "mul", "copy", "getitem", "splice", "append", "join", "split", "splitlines",
            "just", "wrap", "remove", "newstr", "strmeth", "waslice", "linesplit", "wasplitlines"}
OBSERVE = {"str", "len", "s", "width", "repr", "eq"}


class PoolIndex(Exception):
    """the program names a pool entry / run that does not exist (only after shrinking)"""


# ---------------------------------------------------------------------------------------------
# spelling of attribute dictionaries as fmtstr arguments
def spell(atts8, mode):
    """atts 8-tuple -> (args, kwargs) for fmtstr(); mode picks the spelling deterministically"""
    args, kwargs = [], {}
    a = atts8
    if a[0]:
        if mode % 3 == 0:
            args.append(COLORS[a[0] - 1])
        elif mode % 3 == 1:
            kwargs["fg"] = COLORS[a[0] - 1]
        else:
            kwargs["fg"] = 29 + a[0]
    if a[1]:
        if (mode // 3) % 3 == 0:
            args.append("on_" + COLORS[a[1] - 1])
        elif (mode // 3) % 3 == 1:
            kwargs["bg"] = COLORS[a[1] - 1]
        else:
            kwargs["bg"] = 39 + a[1]
    for i, (s, v) in enumerate(zip(STYLES, a[2:])):
        if v == 1:
            if (mode >> i) & 1:
                args.append(s)
            else:
                kwargs[s] = True
        elif v == 2:
            kwargs[s] = False
    return args, kwargs


def raw_text(f):
    return "".join(c.s for c in f.__dict__["chunks"])


def split_bounds(s, sep, regex):
    """the (start, end) pairs FmtStr.split iterates over"""
    if sep is None:
        pat = r"\s+"
    elif not regex:
        pat = re.escape(sep)
    else:
        pat = sep
    matches = list(re.finditer(pat, s))
    return [[a, b] for a, b in zip(chain((0,), (m.end() for m in matches)),
                                   chain((m.start() for m in matches), (len(s),)))]


def sarg(pool, x):
    if x[0] == "fs":
        return get(pool, x[1])
    return x[1]


def get(pool, p):
    if not (0 <= p < len(pool)):
        raise PoolIndex(p)
    return pool[p]


def raw_slots(f):
    d = f.__dict__
    return [d.get(k) for k in SLOTS]


def execute(pool, op):
    """run one operation on the real objects.
    returns (obs, data, new_objects); obs is JSON-able: ["raise", name] | ["objs", n] | ["str", s] | ["nat", n]
    | ["z", n] | ["bool", b] | ["unit"]"""
    kind = op[0]
    data = None
    new = []
    before = None
    if kind in ("linesplit", "wasplitlines"):
        before = [raw_slots(f) for f in pool]
    try:
        if kind == "new":
            new = [canon.build_fs(op[1], share=False)]   # aliasing is part of what C13 models: fresh Chunk objects
        elif kind == "fmtstr":
            args, kwargs = spell(op[2], op[3])
            new = [fmtstr(op[1], *args, **kwargs)]
        elif kind == "wrap":
            f = get(pool, op[1])
            how = op[3]
            if how == "cwna":
                new = [f.copy_with_new_atts(**canon.atts_dict(tuple(op[2])))]
            elif how == "fmtfunc":
                a = op[2]
                name = (COLORS[a[0] - 1] if a[0] else "on_" + COLORS[a[1] - 1] if a[1]
                        else STYLES[[i for i in range(6) if a[2 + i]][0]])
                new = [getattr(fmtfuncs, name)(f)]
            else:
                args, kwargs = spell(op[2], int(how))
                new = [fmtstr(f, *args, **kwargs)]
        elif kind == "remove":
            f = get(pool, op[1])
            keys = [k for k, m in zip(["fg", "bg"] + STYLES, op[2]) if m]
            new = [f.new_with_atts_removed(*keys)]
        elif kind == "newstr":
            new = [get(pool, op[1]).copy_with_new_str(op[2])]
        elif kind == "add":
            if (op[1] + op[2]) % 2:
                new = [get(pool, op[1]) + get(pool, op[2])]
            else:                       # the augmented form on a second name: no in-place + on an immutable value
                g = get(pool, op[1])
                g += get(pool, op[2])
                new = [g]
        elif kind == "addstr":
            if len(op[2]) % 2:
                new = [get(pool, op[1]) + op[2]]
            else:
                g = get(pool, op[1])
                g += op[2]
                new = [g]
        elif kind == "raddstr":
            new = [op[1] + get(pool, op[2])]
        elif kind == "mul":
            new = [get(pool, op[1]) * op[2]]
        elif kind == "copy":
            new = [get(pool, op[1]).copy()]
        elif kind == "getitem":
            f = get(pool, op[1])
            ix = op[2]
            new = [f[ix[1]] if ix[0] == "int" else f[ix[1]:ix[2]]]
        elif kind == "splice":
            f = get(pool, op[1])
            n = sarg(pool, op[2])
            new = [f.splice(n, op[3]) if op[4] is None else f.splice(n, op[3], op[4])]
        elif kind == "append":
            f = get(pool, op[1])
            new = [f.append(sarg(pool, op[2]))]
        elif kind == "join":
            f = get(pool, op[1])
            items = [sarg(pool, x) for x in op[2]]
            new = [f.join(items)]
        elif kind == "split":
            f = get(pool, op[1])
            data = split_bounds(raw_text(f), op[2], op[3])
            new = f.split(op[2], regex=True) if op[3] else (f.split(op[2]) if op[2] is not None else f.split())
        elif kind == "splitlines":
            new = get(pool, op[1]).splitlines(op[2]) if op[2] else get(pool, op[1]).splitlines()
        elif kind == "just":
            f = get(pool, op[2])
            m = f.ljust if op[1] else f.rjust
            new = [m(op[3]) if op[4] is None else m(op[3], op[4])]
        elif kind == "strmeth":
            f = get(pool, op[1])
            data = getattr(raw_text(f), op[2])(*op[3])
            new = [getattr(f, op[2])(*op[3])]
        elif kind == "waslice":
            f = get(pool, op[1])
            ix = op[2]
            new = [f.width_aware_slice(ix[1]) if ix[0] == "int" else f.width_aware_slice(slice(ix[1], ix[2]))]
        elif kind == "linesplit":
            new = linesplit(get(pool, op[1]), op[2])
        elif kind == "wasplitlines":
            new = list(get(pool, op[1]).width_aware_splitlines(op[2]))
        elif kind == "str":
            return ["str", str(get(pool, op[1]))], None, []
        elif kind == "len":
            return ["nat", len(get(pool, op[1]))], None, []
        elif kind == "s":
            return ["str", get(pool, op[1]).s], None, []
        elif kind == "width":
            return ["z", get(pool, op[1]).width], None, []
        elif kind == "repr":
            f = get(pool, op[1])
            repr(f)
            return ["unit"], None, []
        elif kind == "eq":
            return ["bool", bool(get(pool, op[1]) == get(pool, op[2]))], None, []
        elif kind == "setitem":
            f = get(pool, op[1])
            f[op[2]] = "x"
            return ["unit"], None, []          # not raising is the violation
        elif kind == "attsmut":
            f = get(pool, op[1])
            chunks = f.__dict__["chunks"]
            if not (0 <= op[2] < len(chunks)):
                raise PoolIndex(op[2])
            a = chunks[op[2]].atts
            how = ATT_MUTATORS[op[3]]
            if how == "setitem":
                a["fg"] = 31
            elif how == "update":
                a.update({"bold": True})
            elif how == "delitem":
                del a[next(iter(a), "fg")]
            elif how == "ior":
                a |= {"bg": 44}
            elif how == "pop":
                a.pop(next(iter(a), "fg"), None)
            elif how == "popitem":
                a.popitem()
            elif how == "clear":
                a.clear()
            elif how == "setdefault":
                a.setdefault("underline", True)
            return ["unit"], None, []
        else:
            raise AssertionError("unknown operation %r" % (op,))
    except PoolIndex:
        obs = ["raise", "OtherError"]
        new = []
    except Exception as e:  # noqa: exceptions are outcomes
        obs = ["raise", exn_name(e)]
        new = []
    else:
        new = list(new)
        for f in new:
            if not isinstance(f, FmtStr):
                raise canon.Unrepresentable("operation %r returned %r" % (op, type(f)))
        obs = ["objs", len(new)]
    if before is not None:
        # generic operations: which slots were filled (operands and results), how the results share runs
        where = {}
        for p, f in enumerate(pool):
            for pos, c in enumerate(f.__dict__["chunks"]):
                where.setdefault(id(c), (p, pos))
        seen = set()
        fills = []
        for p, f in enumerate(list(pool) + new):
            if id(f) in seen:
                continue
            seen.add(id(f))
            old = before[p] if p < len(pool) else [None] * 4
            for k, (o, n) in enumerate(zip(old, raw_slots(f))):
                if o is None and n is not None:
                    fills.append([p, k])
        results = []
        for f in new:
            r = []
            for c in f.__dict__["chunks"]:
                if id(c) in where:
                    r.append(["old"] + list(where[id(c)]))
                else:
                    r.append(["new", c.s, list(canon.canon_atts(c.atts))])
            results.append(r)
        data = {"fills": fills, "results": results}
    return obs, data, new


def snapshot(pool):
    labels = {}
    snap = []
    for i, f in enumerate(pool):
        same = next(j for j in range(i + 1) if pool[j] is f)
        d = f.__dict__
        chunks = d["chunks"]
        if type(chunks) is not list:
            raise canon.Unrepresentable("chunks is %r" % type(chunks))
        runs = [[c.s, list(canon.canon_atts(c.atts))] for c in chunks]
        labs = [labels.setdefault(id(c), len(labels)) for c in chunks]
        ckm = [c.__dict__.get("color_str") for c in chunks]
        slots = raw_slots(f)
        fresh = canon.build_fs(runs, share=False)
        ok = True
        if slots[0] is not None and slots[0] != str(fresh):
            ok = False
        if slots[1] is not None and slots[1] != len(fresh):
            ok = False
        if slots[2] is not None and slots[2] != fresh.s:
            ok = False
        if slots[3] is not None:
            try:
                ok = ok and slots[3] == fresh.width
            except ValueError:
                ok = False
        for v, t in zip(slots, (str, int, str, int)):
            if v is not None and type(v) is not t:
                raise canon.Unrepresentable("memo slot holds %r" % (v,))
        snap.append({"same": same, "runs": runs, "slots": slots, "labels": labs, "ckmemo": ckm, "fresh": ok})
    return snap


def observe_all(f):
    def width():
        try:
            return ["ok", f.width]
        except Exception as e:  # noqa
            return ["raise", exn_name(e)]
    return [str(f), len(f), f.s, width(), repr(f)]


def run(inp):
    prog = inp[1]
    pool = []
    steps = []
    prev = []
    for op in prog:
        obs, data, new = execute(pool, op)
        pool.extend(new)
        snap = snapshot(pool)
        comp = [None if (i < len(prev) and prev[i] == s) else s for i, s in enumerate(snap)]
        prev = snap
        steps.append({"obs": obs, "data": data, "snap": comp})
    finals = []
    for f in pool:
        first = observe_all(f)
        again = observe_all(f)
        runs = [[c.s, list(canon.canon_atts(c.atts))] for c in f.__dict__["chunks"]]
        fresh = observe_all(canon.build_fs(runs, share=False))
        finals.append({"runs": runs, "obj": first, "again": first == again, "fresh": fresh})
    chars = set()

    def note(s):
        chars.update(s)
    for st in steps:
        for s in st["snap"]:
            if s is not None:
                for t, _ in s["runs"]:
                    note(t)
    for op in prog:
        for x in op:
            if isinstance(x, str):
                note(x)
    wc = sorted((ord(c), wcwidth(c)) for c in chars)
    return {"wc": wc, "steps": steps, "final": finals}


# ---------------------------------------------------------------------------------------------
# Coq literals
def cn(n):
    return "%d%%nat" % n


def cz(n):
    return "(%d)%%Z" % n


def copt(x, f):
    return "None" if x is None else "(Some %s)" % f(x)


def cnats(xs):
    return "[" + "; ".join(str(x) for x in xs) + "]%nat"


def cix(ix):
    if ix[0] == "int":
        return "(IxInt %s)" % cz(ix[1])
    return "(IxSlice %s %s)" % (copt(ix[1], cz), copt(ix[2], cz))


def csarg(x):
    return "(inl %s)" % cn(x[1]) if x[0] == "fs" else "(inr %s)" % coq_str(x[1])


def coq_op(op, data):
    k = op[0]
    if k == "new":
        return "ONew %s" % coq_fs(op[1])
    if k == "fmtstr":
        return "OFmtstr %s %s" % (coq_str(op[1]), coq_atts(op[2]))
    if k == "wrap":
        return "OWrap %d %s" % (op[1], coq_atts(op[2]))
    if k == "remove":
        return "ORemove %d %s" % (op[1], coq_atts(op[2]))
    if k == "newstr":
        return "ONewStr %d %s" % (op[1], coq_str(op[2]))
    if k == "add":
        return "OAdd %d %d" % (op[1], op[2])
    if k == "addstr":
        return "OAddStr %d %s" % (op[1], coq_str(op[2]))
    if k == "raddstr":
        return "ORaddStr %s %d" % (coq_str(op[1]), op[2])
    if k == "mul":
        return "OMul %d %d" % (op[1], max(0, op[2]))
    if k == "copy":
        return "OCopy %d" % op[1]
    if k == "getitem":
        return "OGetitem %d %s" % (op[1], cix(op[2]))
    if k == "splice":
        return "OSplice %d %s %d %s" % (op[1], csarg(op[2]), op[3], copt(op[4], cn))
    if k == "append":
        return "OAppend %d %s" % (op[1], csarg(op[2]))
    if k == "join":
        return "OJoin %d [%s]" % (op[1], "; ".join(csarg(x) for x in op[2]))
    if k == "split":
        bounds = data if data is not None else []
        return "OSplit %d [%s]%%nat" % (op[1], "; ".join("(%d, %d)" % (a, b) for a, b in bounds))
    if k == "splitlines":
        return "OSplitlines %d %s" % (op[1], "true" if op[2] else "false")
    if k == "just":
        return "OJust %s %d %d %s" % ("true" if op[1] else "false", op[2], op[3],
                                      copt(op[4], lambda c: str(ord(c))))
    if k == "strmeth":
        return "OStrMeth %d %s" % (op[1], coq_str(data if data is not None else ""))
    if k == "waslice":
        return "OWaSlice %d %s" % (op[1], cix(op[2]))
    if k in ("linesplit", "wasplitlines"):
        d = data or {"fills": [], "results": []}
        fills = "; ".join("(%s, %s)" % (cn(p), SLOT_COQ[s]) for p, s in d["fills"])
        res = "; ".join("[" + "; ".join(
            ("GOld %d %d" % (e[1], e[2])) if e[0] == "old" else "GNew %s %s" % (coq_str(e[1]), coq_atts(e[2]))
            for e in r) + "]" for r in d["results"])
        return "OGeneric [%s] [%s]" % (fills, res)
    if k == "str":
        return "OStr %d" % op[1]
    if k == "len":
        return "OLen %d" % op[1]
    if k == "s":
        return "OS %d" % op[1]
    if k == "width":
        return "OWidth %d" % op[1]
    if k == "repr":
        return "ORepr %d" % op[1]
    if k == "eq":
        return "OEq %d %d" % (op[1], op[2])
    if k == "setitem":
        return "OSetitem %d" % op[1]
    if k == "attsmut":
        return "OAttsMutate %d %d %d" % (op[1], op[2], op[3])
    raise AssertionError(op)


def coq_obs(o):
    if o[0] == "raise":
        return "(C13.XRaise %s)" % o[1]
    if o[0] == "objs":
        return "(C13.XObjs %d)" % o[1]
    if o[0] == "str":
        return "(C13.XStr %s)" % coq_str(o[1])
    if o[0] == "nat":
        return "(C13.XNat %d)" % o[1]
    if o[0] == "z":
        return "(C13.XZ %s)" % cz(o[1])
    if o[0] == "bool":
        return "(C13.XBool %s)" % ("true" if o[1] else "false")
    return "C13.XUnit"


def coq_snap(s):
    if s is None:
        return "None"
    u, n, t, w = s["slots"]
    return "(Some (C13.mkSnap %d %s %s %s %s %s %s [%s] %s))" % (
        s["same"], coq_fs(s["runs"]), copt(u, coq_str), copt(n, cn), copt(t, coq_str), copt(w, cz),
        cnats(s["labels"]), "; ".join(copt(x, coq_str) for x in s["ckmemo"]), "true" if s["fresh"] else "false")


def cresz(o):
    return "(Ok %s)" % cz(o[1]) if o[0] == "ok" else "(Raise %s)" % o[1]


def coq_fin(f):
    a, b = f["obj"], f["fresh"]
    return "C13.mkFin %s %s %d %s %s %s %s %s %d %s %s %s" % (
        coq_fs(f["runs"]), coq_str(a[0]), a[1], coq_str(a[2]), cresz(a[3]), coq_str(a[4]),
        "true" if f["again"] else "false",
        coq_str(b[0]), b[1], coq_str(b[2]), cresz(b[3]), coq_str(b[4]))


def to_coq(inp, out):
    prog = inp[1]
    steps = []
    for op, st in zip(prog, out["steps"]):
        steps.append("C13.mkStep (%s) %s [%s]" % (coq_op(op, st["data"]), coq_obs(st["obs"]),
                                                  "; ".join(coq_snap(s) for s in st["snap"])))
    return "(C13.mkCase [%s] [%s] [%s])" % (
        "; ".join("(%d, %s)" % (c, cz(w)) for c, w in out["wc"]),
        ";\n     ".join(steps), ";\n     ".join(coq_fin(f) for f in out["final"]))


def to_json_input(inp):
    return {"program": inp[1]}


def to_json_output(out):
    return out


def from_json(obj):
    return ("prog", obj["program"])


def key(inp):
    return repr(inp[1])


def nontrivial(inp, out):
    kinds = {op[0] for op in inp[1]}
    return bool(kinds & ALIASING) and bool(kinds & OBSERVE)


def stats(inp, out):
    prog = inp[1]
    for k in sorted({op[0] for op in prog}):
        yield "op=" + k
    yield "steps=%s" % ("<=6" if len(prog) <= 6 else "7-15" if len(prog) <= 15 else "16+")
    n = len(out["final"])
    yield "pool=%s" % ("<=4" if n <= 4 else "5-9" if n <= 9 else "10+")
    if any(st["obs"][0] == "raise" for st in out["steps"]):
        yield "has_exception_outcome"
    if any(s is not None and s["same"] != i for st in out["steps"] for i, s in enumerate(st["snap"])):
        yield "result_is_operand"
    last = None
    for st in out["steps"]:
        for s in st["snap"]:
            if s is not None:
                last = s
    labs = []
    snaps = {}
    for st in out["steps"]:
        for i, s in enumerate(st["snap"]):
            if s is not None:
                snaps[i] = s
    for s in snaps.values():
        labs += s["labels"]
    if len(labs) != len(set(labs)):
        yield "runs_shared_between_objects"
    if any(ord(c) > 255 for f in out["final"] for t, _ in f["runs"] for c in t):
        yield "has_wide_or_combining"
    if any(f["obj"][3][0] == "raise" for f in out["final"]):
        yield "width_raises"
    # an observation of an object before AND after it was used as an operand
    seen_obs = set()
    used = set()
    for op in prog:
        if op[0] in OBSERVE:
            p = op[1]
            if p in used and p in seen_obs:
                yield "observed_before_and_after_aliasing"
                break
            seen_obs.add(p)
        elif op[0] in ALIASING:
            for x in op[1:]:
                if isinstance(x, int) and x in seen_obs:
                    used.add(x)


def shrink(inp):
    prog = inp[1]
    for i in range(len(prog) - 1, -1, -1):
        yield ("prog", prog[:i] + prog[i + 1:])


# ---------------------------------------------------------------------------------------------
# generator
def rand_ix(rng, n):
    r = rng.random()
    if r < 0.25:
        return ["int", rng.randint(-n - 1, n)]
    lo = rng.choice([None, 0, rng.randint(-n - 1, n + 1), rng.randint(0, n + 1)])
    hi = rng.choice([None, n, rng.randint(-n - 1, n + 2), rng.randint(0, n + 2)])
    return ["slice", lo, hi]


def gen_program(rng, maxlen):
    mode = rng.choice(["plain", "plain", "ctrl", "wide"])
    alphabet = {"plain": canon.ALPHA_PLAIN, "ctrl": "ab c\n\t xy\n",
                "wide": canon.ALPHA_PLAIN + canon.ALPHA_WIDE + canon.ALPHA_COMB + "é"}[mode]

    def text(maxn=5):
        return canon.rand_text(rng, maxn, alphabet)

    prog = []
    pool = []

    def emit(op):
        prog.append(op)
        _, _, new = execute(pool, op)
        pool.extend(new)

    def some(prefer_recent=True):
        if prefer_recent and rng.random() < 0.4:
            return rng.randrange(max(0, len(pool) - 3), len(pool))
        return rng.randrange(len(pool))

    def observe(p):
        k = rng.choice(["str", "len", "s", "width", "repr", "str", "s"])
        emit([k, p])

    for _ in range(rng.choice([2, 2, 3])):
        r = rng.random()
        if r < 0.15:
            # runs that share a background (the `return self + ... if to_add else self` paths of ljust / rjust)
            bg = rng.randint(1, 8)
            runs = canon.rand_runs(rng, 3, 5, alphabet) or [[text(4), list(canon.rand_atts(rng))]]
            for run_ in runs:
                run_[1][1] = bg
            emit(["new", runs])
        elif r < 0.6:
            emit(["new", canon.rand_runs(rng, 3, 5, alphabet)])
        else:
            emit(["fmtstr", text(6), list(canon.rand_atts(rng)), rng.randrange(64 * 9)])
    n = rng.randint(3, maxlen)
    kinds = ["add", "addstr", "raddstr", "mul", "copy", "getitem", "getitem", "splice", "splice", "append", "join",
             "join", "split", "splitlines", "just", "just", "wrap", "wrap", "remove", "newstr", "strmeth", "waslice",
             "linesplit", "wasplitlines", "eq", "setitem", "attsmut", "new", "fmtstr", "copy", "add", "just"]
    while len(prog) < n + 3 and len(pool) < 16:
        k = rng.choice(kinds)
        p = some()
        f = pool[p]
        ln = len(raw_text(f))
        operands = [p]
        if k == "add":
            q = some()
            operands.append(q)
            op = ["add", p, q]
        elif k == "addstr":
            op = ["addstr", p, text(3)]
        elif k == "raddstr":
            op = ["raddstr", text(3), p]
        elif k == "mul":
            op = ["mul", p, rng.choice([0, 1, 2, 3, -1, -2])]     # a negative count is an empty repetition, like 0
        elif k == "copy":
            op = ["copy", p]
        elif k == "getitem":
            op = ["getitem", p, rand_ix(rng, ln)]
        elif k in ("splice", "append"):
            if rng.random() < 0.5:
                q = some()
                operands.append(q)
                new = ["fs", q]
            else:
                new = ["str", rng.choice(["", "", text(3), text(3)])]
            if k == "append":
                op = ["append", p, new]
            else:
                start = rng.randint(0, ln + 1)
                end = rng.choice([None, None, start, rng.randint(start, ln + 2)])
                op = ["splice", p, new, start, end]
        elif k == "join":
            items = []
            for _ in range(rng.choice([0, 1, 2, 3, 4])):
                if rng.random() < 0.65:
                    q = some()
                    operands.append(q)
                    items.append(["fs", q])
                else:
                    items.append(["str", text(3)])
            op = ["join", p, items]
        elif k == "split":
            r = rng.random()
            if r < 0.4:
                op = ["split", p, rng.choice([" ", "a", "b", ",", "ab", "\n"]), False]
            elif r < 0.7:
                op = ["split", p, None, False]
            else:
                op = ["split", p, rng.choice(["[ab]", r"\s", "x+", "a|,"]), True]
        elif k == "splitlines":
            op = ["splitlines", p, rng.random() < 0.5]
        elif k == "just":
            op = ["just", rng.random() < 0.5, p, rng.choice([0, ln, ln + 1, ln + 2, ln + 3]),
                  rng.choice([None, None, None, "-", "*"])]
        elif k == "wrap":
            how = rng.choice(["cwna", "fmtfunc", str(rng.randrange(64 * 9))])
            if how == "fmtfunc":
                d = [0] * 8
                j = rng.randrange(8)
                d[j] = rng.randint(1, 8) if j < 2 else 1
            else:
                d = list(canon.rand_atts(rng))
            op = ["wrap", p, d, how]
        elif k == "remove":
            op = ["remove", p, [int(rng.random() < 0.3) for _ in range(8)]]
        elif k == "newstr":
            op = ["newstr", p, text(5)]
        elif k == "strmeth":
            name, args = rng.choice(STR_METHODS)
            op = ["strmeth", p, name, list(args)]
        elif k == "waslice":
            op = ["waslice", p, rand_ix(rng, ln + 1)]
        elif k == "linesplit":
            op = ["linesplit", p, rng.choice([1, 2, 3, 5, 8])]
        elif k == "wasplitlines":
            op = ["wasplitlines", p, rng.choice([2, 3, 4, 7])]
        elif k == "eq":
            q = some()
            operands.append(q)
            op = ["eq", p, q]
        elif k == "setitem":
            op = ["setitem", p, rng.randint(0, max(0, ln - 1))]
        elif k == "attsmut":
            nchunks = len(f.__dict__["chunks"])
            if nchunks == 0:
                continue
            op = ["attsmut", p, rng.randrange(nchunks), rng.randrange(len(ATT_MUTATORS))]
        elif k == "new":
            op = ["new", canon.rand_runs(rng, 3, 4, alphabet)]
            operands = []
        else:
            op = ["fmtstr", text(5), list(canon.rand_atts(rng)), rng.randrange(64 * 9)]
            operands = []
        # observations BEFORE the operation (fill caches of the operands) ...
        for q in operands:
            if rng.random() < 0.5:
                observe(q)
        first_new = len(pool)
        emit(op)
        # ... and AFTER it, on operands and results
        for q in operands + list(range(first_new, len(pool))):
            if rng.random() < 0.4:
                observe(q)
    return prog


def twin_programs():
    """two values with the same terminal string and different text: `f + g` and `f + str(g)` (the str is not parsed
    by +, its escape sequences become text of a run), compared with each other between observations"""
    Z = [0] * 8
    for tail_runs, rendered in (([["b", [2, 0, 0, 0, 0, 0, 0, 0]]], "\x1b[31mb\x1b[39m"),
                                ([["Tb", [0, 0, 1, 0, 0, 0, 0, 0]]], "\x1b[1mTb\x1b[0m")):
        for first in (["len", 2], ["s", 2], ["str", 2], ["width", 3], ["len", 3]):
            yield [["new", [[">>> ", [0, 5, 0, 0, 0, 0, 0, 0]]]], ["new", tail_runs], ["add", 0, 1], ["addstr", 0, rendered],
                   first, ["eq", 2, 3], ["len", 3], ["s", 3], ["len", 2], ["s", 2], ["eq", 3, 2], ["str", 3], ["width", 2]]


def generate(rng, tier):
    for prog in twin_programs():
        yield ("prog", prog)
    n = 6000 if tier == "thorough" else 600
    for i in range(n):
        maxlen = 12 if tier == "quick" or i % 3 else 30
        yield ("prog", gen_program(rng, maxlen))
