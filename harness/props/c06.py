"""C06 -- indexing, slicing, +, *, join act like str and carry formatting along."""
import itertools

import canon
from canon import coq_fs, coq_str, coq_z, coq_opt, coq_list, coq_cells, coq_res

ID = "C06"
LEVEL = "proof"
PROPS_FILE = "Props/C06.v"
EXTRA_PROPS = ("Props/C06Tie.v", "Props/C06TieGetitem.v", "Props/C06TieAdd.v", "Props/C06TieRadd.v", "Props/C06TieJoin.v", "Props/C06TieMul.v")
CORR_VO = "Corr/C06.vo"
REQUIRE = "From Curtsies Require Import Model.Base Model.Slice Corr.C06."
CASE_TYPE = "C06.case"
MODEL_OK = "C06.model_ok"
SPEC_OK = "C06.spec_ok"
EXHAUSTIVE = {"quick": False, "thorough": True}
SHARD = 400
RULE = ("small scope: every run layout with <= 3 runs of 0..3 characters and every layout with 4 runs of 0..2 characters (166 layouts: no runs, empty runs, distinct "
        "characters and attributes per run) x every pair of slice bounds in [-len-2, len+2] u {None} and every int "
        "index in [-len-2, len+2] (thorough: all of them; quick: all int indices and a seeded sample of the bound "
        "pairs); f+x and x+f (x a str or a FmtStr, incl. '' / FmtStr() / empty runs / a lone ESC), f*n for n in -1..3, "
        "sep.join(items) for all lists of 0..3 items drawn from 9 str/FmtStr values (quick: a sample); random larger FmtStrs (<= 6 runs, <= 8 chars, control / "
        "wide / combining characters, explicit False attributes) with random bounds; a small stream of slices with a "
        "step (NotImplementedError, model only). observation: per-character (char, attributes) list of the result, "
        "len(result), exception class. non-trivial = an operand has at least one character; distinct = distinct input")
GENERATORS = ("gen/gen_pure.py",)
PURE_HELPERS = ('normalize_slice', 'FmtStr_getitem', 'FmtStr_add', 'FmtStr_radd', 'FmtStr_join', 'FmtStr_mul')
TRUSTED = [
    "translator gen/gen_pure.py (dumps the Python AST of normalize_slice and of FmtStr.__getitem__ / __add__ / __radd__ / join / __mul__ / Chunk.s / "
    "Chunk.atts / Chunk.__len__ node by node into coq/Gen/Pure.v, coq/Gen/PureFmt.v) and the reference semantics of that Python subset "
    "coq/Spec/PyMini.v (for loops over lists, break, objects as records of instance attributes, local lists with append / extend, "
    "range(n) as an iterable, sum(iterable, start) with + dispatched to the generated __add__), "
    "itself run against CPython on enumerated arguments in every check",
    "oracles of coq/Spec/PyEnvFmt.v used by the tie of __getitem__: len(fs) = sum of the run lengths (FmtStr.__len__ is memoised: "
    "attribute assignment is outside the subset), Chunk(s, atts), FmtStr(*parts), fmtstr('') = one empty unformatted run; "
    "validated against the real methods on enumerated FmtStrs in every check",
    "Coq 8.16.1 kernel incl. vm_compute (no native_compute); Print Assumptions: closed under the global context",
    "reference list semantics coq/Spec/ListOps.v (pyslice = slice.indices for step None, pyindex, repeat, join)",
    "harness canonicaliser harness/canon.py (FmtStr runs -> cells -> Coq literal) and the parser of coqc's answer",
    "in the hand model, tied to the text for __getitem__, __add__, __radd__, join, __mul__ (C06_getitem_is_the_repository_method, "
    "C06_add_is_the_repository_method, C06_radd_is_the_repository_method, C06_join_is_the_repository_method, "
    "C06_mul_is_the_repository_method): Python list +/extend, built-in str slicing (= pyslice), "
    "isinstance dispatch, the loop of join, sum() / range() of __mul__",
    "oracle of coq/Spec/PyEnvFmt.v used by the tie of join: fmtstr(s) = one unformatted run for a str s without ESC[ / CSI "
    "(the parsing branch is C05/C17's subject); the tie of join is for LISTS of items (a generator argument is not a value "
    "of the theorem's quantifier)",
]
ASSUMPTIONS = ["operands of + and items of join are str or FmtStr (other types: NotImplemented/TypeError paths not modelled)",
               "a plain str item of join does not contain ESC[ (it goes through fmtstr(), whose parser is C05/C17); "
               "+ has no such restriction (Chunk(other), no parsing)",
               "slices without a step (a step raises NotImplementedError; modelled, outside the property)"]

ATTS = [[2, 0, 0, 0, 0, 0, 0, 0], [0, 5, 1, 0, 0, 0, 0, 0], [3, 0, 0, 0, 1, 2, 0, 0], [0, 0, 0, 0, 0, 0, 0, 0]]
LETTERS = "abcdefghi"


def layouts(maxruns=3, maxlen=3, minruns=0):
    for k in range(minruns, maxruns + 1):
        for lens in itertools.product(range(maxlen + 1), repeat=k):
            runs, pos = [], 0
            for i, n in enumerate(lens):
                runs.append([LETTERS[pos:pos + n], list(ATTS[i])])
                pos += n
            yield runs


def total(runs):
    return sum(len(s) for s, _ in runs)


def bounds(n, pad=2):
    return [None] + list(range(-n - pad, n + pad + 1))


STR_OPERANDS = ["", "x", "pq\n", "\x1b", "[\x1bm", "\ufe0fy", "\u200d", "\x1b[31mq", "a\x9b2Kb"]
FS_OPERANDS = [[], [["", [0] * 8]], [["u", [5, 0, 0, 0, 0, 1, 0, 0]]],
               [["\ufe0fk", [3, 0, 0, 0, 0, 0, 0, 0]]], [["\u200d", [0, 4, 1, 0, 0, 0, 0, 0]], ["\u0301", [1, 0, 0, 0, 0, 0, 0, 0]]],
               [["vw", [0] * 8], ["", [2, 0, 0, 0, 0, 0, 0, 0]], ["z", [0, 3, 2, 0, 0, 0, 0, 0]]]]


def all_operands():
    return [["str", s] for s in STR_OPERANDS] + [["fs", r] for r in FS_OPERANDS]


def generate(rng, tier):
    thorough = tier == "thorough"
    # 85 layouts with <= 3 runs of <= 3 characters + 81 layouts with 4 runs of <= 2 characters
    lays = list(layouts()) + list(layouts(4, 2, 4))
    # 1. indexing and slicing, small scope
    slices = []
    for runs in lays:
        n = total(runs)
        for i in range(-n - 2, n + 3):
            yield ["get", runs, ["i", i]]
        for a in bounds(n):
            for b in bounds(n):
                slices.append(["get", runs, ["s", a, b]])
    if not thorough:
        slices = rng.sample(slices, 2500)
    yield from slices
    # 2. + on either side
    ops = all_operands()
    some = lays if thorough else rng.sample(lays, 25) + [[], [["", list(ATTS[0])]]]
    for runs in some:
        for o in ops:
            yield ["add", runs, o]
            yield ["radd", runs, o]
    # 3. repetition
    for runs in (lays if thorough else rng.sample(lays, 30)):
        for n in (-1, 0, 1, 2, 3):
            yield ["mul", runs, n]
    # 4. join
    seps = [[], [["", list(ATTS[1])]], [[",", list(ATTS[1])]], [["-", [0] * 8], ["", list(ATTS[0])], [">", list(ATTS[2])]]]
    for sep in seps:
        for k in range(0, 4):
            combos = list(itertools.product(ops, repeat=k))
            if not thorough and len(combos) > 25:
                combos = rng.sample(combos, 25)
            for items in combos:
                if any(o[0] == "str" and ("\x1b[" in o[1] or "\x9b" in o[1]) for o in items):
                    continue
                yield ["join", sep, [list(o) for o in items]]
    # 4b. join over a str / a FmtStr given as the iterable itself (run() passes the whole string when every item is
    #     one character)
    for _ in range(400 if thorough else 60):
        sep = rng.choice(seps + [canon.rand_runs(rng, maxruns=2, maxlen=2)])
        if rng.random() < 0.5:
            text = canon.rand_text(rng, rng.choice([2, 3, 5])).replace("\x1b", "e").replace("\x9b", "c")
            if len(text) >= 2:
                yield ["join", sep, [["str", c] for c in text]]
        else:
            cells = [[c, st] for t, st in canon.rand_runs(rng, maxruns=3, maxlen=3) for c in t]
            if len(cells) >= 2:
                yield ["join", sep, [["fs", [[c, list(st)]]] for c, st in cells]]
    # 5. random larger
    for _ in range(20000 if thorough else 1200):
        runs = canon.rand_runs(rng, maxruns=6, maxlen=8)
        n = total(runs)
        r = rng.random()
        if r < 0.5:
            a, b = rng.choice(bounds(n, 3)), rng.choice(bounds(n, 3))
            yield ["get", runs, ["s", a, b]]
        elif r < 0.6:
            yield ["get", runs, ["i", rng.randint(-n - 3, n + 3)]]
        elif r < 0.7:
            yield ["add", runs, rand_operand(rng, False)]
        elif r < 0.8:
            yield ["radd", runs, rand_operand(rng, False)]
        elif r < 0.87:
            yield ["mul", runs, rng.choice([0, 1, 2, 3, 4, 7])]
        else:
            yield ["join", runs, [rand_operand(rng, True) for _ in range(rng.choice([0, 1, 2, 3, 5]))]]
    # 6. slices with a step: NotImplementedError whatever the step (model only)
    for _ in range(40):
        runs = canon.rand_runs(rng)
        n = total(runs)
        yield ["get", runs, ["s3", rng.choice(bounds(n)), rng.choice(bounds(n)), rng.choice([1, 2, -1, 0])]]
    # 7. huge bounds
    for runs in rng.sample(lays, 10):
        for a, b in ((10 ** 30, None), (None, 10 ** 30), (-10 ** 30, 10 ** 30), (None, -10 ** 30)):
            yield ["get", runs, ["s", a, b]]
        yield ["get", runs, ["i", 10 ** 30]]
        yield ["get", runs, ["i", -10 ** 30]]


def rand_operand(rng, for_join):
    if rng.random() < 0.5:
        s = canon.rand_text(rng, 5)
        if rng.random() < 0.1:
            s += "\x1b"
        if for_join:
            s = s.replace("\x1b[", "\x1b")
        return ["str", s]
    return ["fs", canon.rand_runs(rng, maxruns=3, maxlen=4)]


def build_operand(o):
    return o[1] if o[0] == "str" else canon.build_fs(o[1])


def observe(r):
    if not isinstance(r, canon.FmtStr):
        raise canon.Unrepresentable("result is %r" % (type(r),))
    # cells from the runs, len(), and the text as the memoised .s reports it
    return [[[ch, list(st)] for ch, st in canon.cells_of(canon.canon_fs(r))], len(r), r.s]


def _pre(inp, objs):
    """for half of the cases (chosen by a hash of the input, so that it replays) the operands'
    memoised views are filled before the operation: stale or wrongly derived caches then show"""
    import zlib
    if zlib.crc32(repr(inp).encode()) & 1:
        for o in objs:
            if isinstance(o, canon.FmtStr):
                canon.observe(o, ["s", "len", "str", "width"])


def run(inp):
    """the operation itself is [_run]; around it: str has no in-place operations, so `g = f; g += x` and `g *= n`
    must leave f alone exactly like `f + x` (half of the add / mul cases use the augmented form on a second
    name), and no operation may change its left operand -- if the operand's runs differ afterwards the
    outcome is reported as an OtherError, which neither the model nor the specification accepts"""
    f = canon.build_fs(inp[1])
    before = canon.canon_fs(f)
    out = _run(inp, f)
    if canon.canon_fs(f) != before:
        return ["raise", "OtherError"]
    return out


def _aug(inp):
    return (len(inp[1]) + sum(len(s) for s, _ in inp[1])) % 3 == 0


def _run(inp, f):
    kind = inp[0]
    if kind == "get":
        _pre(inp, [f])
        ix = inp[2]
        if ix[0] == "i":
            return canon.outcome(lambda: f[ix[1]], observe)
        if ix[0] == "s":
            return canon.outcome(lambda: f[ix[1]:ix[2]], observe)
        return canon.outcome(lambda: f[ix[1]:ix[2]:ix[3]], observe)
    if kind == "add":
        x = build_operand(inp[2])
        _pre(inp, [f, x])
        if _aug(inp):
            def iadd():
                g = f
                g += x
                return g
            return canon.outcome(iadd, observe)
        return canon.outcome(lambda: f + x, observe)
    if kind == "radd":
        x = build_operand(inp[2])
        _pre(inp, [f, x])
        # str + FmtStr dispatches to FmtStr.__radd__; for FmtStr + FmtStr Python never
        # gets there, so the method is called directly
        if inp[2][0] == "str":
            return canon.outcome(lambda: x + f, observe)
        return canon.outcome(lambda: f.__radd__(x), observe)
    if kind == "mul":
        _pre(inp, [f])
        if _aug(inp):
            def imul():
                g = f
                g *= inp[2]
                return g
            return canon.outcome(imul, observe)
        return canon.outcome(lambda: f * inp[2], observe)
    if kind == "join":
        items = [build_operand(o) for o in inp[2]]
        _pre(inp, [f] + items)
        # str.join takes any iterable: a list, or something that can be walked only once (a generator, map, iter)
        shape = (len(items) + len(inp[1])) % 3
        arg = items if shape == 0 else iter(items) if shape == 1 else (x for x in items)
        # ... or a str / a FmtStr itself, which are iterables of their characters: when every item is one character
        if len(items) >= 2 and all(o[0] == "str" and len(o[1]) == 1 for o in inp[2]):
            arg = "".join(items)
        elif len(items) >= 2 and all(o[0] == "fs" and len(o[1]) == 1 and len(o[1][0][0]) == 1 for o in inp[2]):
            arg = canon.build_fs([o[1][0] for o in inp[2]], share=False)
        return canon.outcome(lambda: f.join(arg), observe)
    raise ValueError(kind)


def coq_operand(o):
    return "(OStr %s)" % coq_str(o[1]) if o[0] == "str" else "(OFmt %s)" % coq_fs(o[1])


def coq_index(ix):
    if ix[0] == "i":
        return "(Idx %s)" % coq_z(ix[1])
    if ix[0] == "s":
        return "(Slice %s %s None)" % (coq_opt(ix[1], coq_z), coq_opt(ix[2], coq_z))
    return "(Slice %s %s %s)" % (coq_opt(ix[1], coq_z), coq_opt(ix[2], coq_z), coq_opt(ix[3], coq_z))


def coq_out(out):
    return coq_res(out, lambda v: "(%s, %s, %s)" % (coq_cells([(c, st) for c, st in v[0]]), coq_z(v[1]), coq_str(v[2])))


def to_coq(inp, out):
    kind = inp[0]
    f = coq_fs(inp[1])
    if kind == "get":
        op = "C06.Get %s %s" % (f, coq_index(inp[2]))
    elif kind == "add":
        op = "C06.Add %s %s" % (f, coq_operand(inp[2]))
    elif kind == "radd":
        op = "C06.Radd %s %s" % (f, coq_operand(inp[2]))
    elif kind == "mul":
        op = "C06.Mul %s %s" % (f, coq_z(inp[2]))
    else:
        op = "C06.Join %s %s" % (f, coq_list([coq_operand(o) for o in inp[2]]))
    return "(%s, %s)" % (op, coq_out(out))


def to_json_input(inp):
    return {"op": inp}


def to_json_output(out):
    if out[0] == "ok":
        return {"text": "".join(c for c, _ in out[1][0]), "cells": out[1][0], "len": out[1][1]}
    return {"raise": out[1]}


def from_json(obj):
    return obj["op"]


def key(inp):
    return repr(inp)


def operands_of(inp):
    yield inp[1]
    if inp[0] in ("add", "radd"):
        yield inp[2][1] if inp[2][0] == "fs" else [[inp[2][1], [0] * 8]]
    if inp[0] == "join":
        for o in inp[2]:
            yield o[1] if o[0] == "fs" else [[o[1], [0] * 8]]


def nontrivial(inp, out):
    return any(total(r) > 0 for r in operands_of(inp))


def stats(inp, out):
    kind = inp[0]
    runs = inp[1]
    n = total(runs)
    yield "op=%s" % (kind if kind != "get" else "get_" + {"i": "int", "s": "slice", "s3": "slice_step"}[inp[2][0]])
    yield "runs=%d" % min(len(runs), 5)
    if not runs:
        yield "no_runs"
    if any(not s for s, _ in runs):
        yield "has_empty_run"
    if out[0] == "raise":
        yield "raises_" + out[1]
    if kind == "get":
        ix = inp[2]
        bs = ix[1:3] if ix[0] != "i" else ix[1:2]
        if any(b is None for b in bs):
            yield "bound_None"
        if any(b is not None and b < 0 for b in bs):
            yield "bound_negative"
        if any(b is not None and (b > n or b < -n) for b in bs):
            yield "bound_beyond_len"
        if out[0] == "ok" and not out[1][0]:
            yield "empty_result"
        if out[0] == "ok" and len(out[1][0]) > 1 and len({tuple(st) for _, st in out[1][0]}) > 1:
            yield "result_spans_runs"
    if kind in ("add", "radd"):
        yield "operand_" + inp[2][0]
    if kind == "join":
        yield "items=%d" % min(len(inp[2]), 5)


def shrink(inp):
    kind, runs = inp[0], inp[1]
    rest = inp[2:]
    for i in range(len(runs)):
        yield [kind, runs[:i] + runs[i + 1:]] + rest
    for i, (s, a) in enumerate(runs):
        if len(s) > 1:
            yield [kind, runs[:i] + [[s[:-1], a]] + runs[i + 1:]] + rest
        if any(a):
            yield [kind, runs[:i] + [[s, [0] * 8]] + runs[i + 1:]] + rest
    if kind == "get":
        ix = inp[2]
        for j in range(1, len(ix)):
            if ix[j] is not None:
                yield [kind, runs, ix[:j] + [ix[j] - 1 if ix[j] > 0 else ix[j] + 1 if ix[j] < 0 else None] + ix[j + 1:]]
    if kind == "join":
        for i in range(len(inp[2])):
            yield [kind, runs, inp[2][:i] + inp[2][i + 1:]]
    if kind == "mul" and inp[2] > 0:
        yield [kind, runs, inp[2] - 1]


LEVEL_TEXT = ("Machine-checked theorems (Coq) for ALL FmtStrs (any number of runs, empty runs, no runs) and ALL bounds: "
              "cells(f[a:b]) = pyslice(cells f, a, b) for a, b any integer or None; f[i] raises IndexError exactly when "
              "i < -len or i >= len and otherwise is the single cell at i mod len; cells(f + x) = cells f ++ cells x and "
              "cells(x + f) likewise with a plain str contributing unformatted cells; cells(f * n) = n copies; "
              "cells(sep.join(xs)) = the interleaving; len(f) = number of cells; with the text-level corollaries. The model "
              "follows normalize_slice / the __getitem__ run walk with its counter, whole-run reuse and early break / "
              "__add__ / __radd__ / sum-based __mul__ / join, and is compared in Coq with the real implementation on the "
              "complete small scope (166 layouts x all bound pairs in [-len-2,len+2] u {None} x all int indices) in the "
              "thorough tier and a seeded sample of it in the quick tier, plus random larger cases")
LEVEL_NOTE = ("Trusted: Coq kernel+vm_compute, the reference list semantics Spec/ListOps.v, the canonicaliser. Modelled not "
              "verified: built-in str slicing, list concatenation, sum(), isinstance dispatch; operands other than "
              "str/FmtStr and join items containing ESC[ are outside the model; memoisation of len/s is C13's")
TECHNIQUE = ("Coq proof by induction over the run list generalising the running counter (window lemma for slices of "
             "concatenations) + lia; in-Coq differential correspondence, exhaustive small scope in the thorough tier")
