"""C05 -- parsing a FmtStr's terminal string gives the same FmtStr back; parsing text interleaved with
supported SGR sequences gives every character the formatting an ANSI terminal would display."""
import itertools

import canon
from canon import coq_fs, coq_str, coq_res

ID = "C05"
LEVEL = "proof"
PROPS_FILE = "Props/C05.v"
CORR_VO = "Corr/C05.vo"
REQUIRE = "From Curtsies Require Import Model.Base Spec.EscScan Corr.C05."
CASE_TYPE = "C05.case"
MODEL_OK = "C05.model_ok"
SPEC_OK = "C05.spec_ok"
EXHAUSTIVE = {"quick": False, "thorough": False}
SHARD = 400

ESC, CSI8 = "\x1b", "\x9b"
SUPPORTED = [0, 1, 2, 3, 4, 5, 7] + list(range(30, 38)) + [39] + list(range(40, 48)) + [49]
TEXT_ALPHA = "abx \n[];m0139é中\t"

RULE = ("(a) grammar strings (text | ESC[p1;...;pn m)*: 0-6 tokens, 0-4 parameters per sequence drawn from the supported "
        "codes 0,1,2,3,4,5,7,30-37,39,40-47,49 (ESC[m included), resets in any order, texts over "
        "'abx \\n[];m0139' + non-ASCII; all sequences ESC[p m x ESC[q m y (p, q supported or empty; quick) / all triples "
        "(thorough) and all two-parameter sequences; (b) str() of FmtStrs: single runs over the attribute dictionaries "
        "(every 40th in quick, all 59049 in thorough) and random multi-run values built through the public API and from raw runs; "
        "(c) free strings around the grammar (unsupported codes, leading zeros, trailing/doubled ';', 8-bit CSI, cursor moves, "
        "random strings over the C17 alphabet) for the model correspondence only. observation: exception class and exact run "
        "list of FmtStr.from_str (model), per-character cells vs the reference SGR interpreter / the source FmtStr (spec). "
        "non-trivial = at least one character and one escape sequence; distinct = distinct input string")
TRUSTED = [
    "Coq 8.16.1 kernel incl. vm_compute (no native_compute); Print Assumptions: closed under the global context",
    "reference SGR interpreter coq/Spec/Sgr.v and the grammar definition (gtok, flatten, supported) in coq/Spec/EscScan.v",
    "translator gen/gen_tables.py (colour/style tables and wrapped strings of the current tree; hashes of the regex sources)",
    "harness canonicaliser harness/canon.py and the parser of coqc's answer",
    "modelled, not verified: the `re` engine on the two regular expressions of peel_off_esc_code (hand-translated to a "
    "deterministic scanner; uniqueness-of-match lemmas in Proofs/Parse.v; validated by this correspondence and by C17's "
    "exhaustive short strings), int(), str.split, dict.update, `in` on str",
]
ASSUMPTIONS = [
    "text free of ESC (27) and 8-bit CSI (155), as the property's quantifier states",
    "only ASCII 0-9 are treated as digits: Python's \\d and int() also accept other Unicode decimal digits; the generators keep them out of the inputs",
]


def flatten(toks):
    out = []
    for kind, v in toks:
        if kind == "t":
            out.append(v)
        else:
            out.append(ESC + "[" + ";".join(str(p) for p in v) + "m")
    return "".join(out)


def the_string(inp):
    if inp[0] == "g":
        return flatten(inp[1])
    if inp[0] == "r":
        return str(canon.build_fs(inp[1]))
    return inp[1]


def rand_text(rng):
    n = rng.choice([0, 1, 1, 2, 3, 5])
    return "".join(rng.choice(TEXT_ALPHA) for _ in range(n))


def rand_params(rng):
    r = rng.random()
    if r < 0.12:
        return []
    if r < 0.55:
        return [rng.choice(SUPPORTED)]
    if r < 0.7:      # resets in any order
        ps = [0, 39, 49]
        rng.shuffle(ps)
        return ps[:rng.choice([1, 2, 3])]
    return [rng.choice(SUPPORTED) for _ in range(rng.choice([2, 2, 3, 4]))]


def rand_grammar(rng):
    n = rng.choice([0, 1, 2, 3, 4, 5, 6])
    toks = []
    for _ in range(n):
        if rng.random() < 0.45:
            toks.append(["t", rand_text(rng)])
        else:
            toks.append(["s", rand_params(rng)])
    return toks


NEAR = ["\x1b[01mx", "\x1b[1;mx", "\x1b[;1mx", "\x1b[;mx", "\x1b[1;;4mx", "\x1b[38;5;123mx", "\x1b[38mx\x1b[1my", "\x1b[6mx", "\x1b[8mx",
        "\x1b[9mx", "\x1b[21mx", "\x1b[22mx", "\x1b[90mx", "\x1b[100mx", "\x1b[031mx", "\x9b31mx\x1b[1my", "\x9b31mx", "\x1b[1mx\x9b0my",
        "\x1b[2Ax\x1b[1my", "\x1b[1mx\x1b[Hy", "\x1b[1mx\x1bHy", "\x1b[31mx\x1b[10;20Hy\x1b[39mz", "\x1b[1mx\x1b[?25ly", "\x1b[1 mx",
        "\x1b[31", "\x1b[31x", "x\x1b", "\x1b[1mx\x1b", "\x1b[1m\x1b[", "\x1b[3" + "\x1b[1mx", "\x1b\x1b[1mx", "\x1b[1m\x9b", "\x1b[1m\x1b[4"]


def generate(rng, tier):
    thorough = tier == "thorough"
    # (a) grammar
    codes = [None] + SUPPORTED
    yield ("g", [])
    reps = 3 if thorough else 2
    for combo in itertools.product(codes, repeat=reps):
        toks = []
        for i, p in enumerate(combo):
            toks.append(["s", [] if p is None else [p]])
            toks.append(["t", "xy\n"[i % 3]])
        yield ("g", toks)
    for p, q in itertools.product(SUPPORTED, repeat=2):
        yield ("g", [["t", "a"], ["s", [p, q]], ["t", "b"], ["s", [q]], ["t", "c"]])
    for n in (15, 16, 17, 18, 24, 40):                 # one sequence with very many parameters
        ps = [SUPPORTED[(7 * i + n) % len(SUPPORTED)] for i in range(n)]
        yield ("g", [["t", "a"], ["s", ps], ["t", "b"], ["s", [0]], ["t", "c"]])
        yield ("g", [["s", ps[::-1]], ["t", "z\n"]])
    for _ in range(30000 if thorough else 1500):
        yield ("g", rand_grammar(rng))
    # (b) round trips
    all_atts = list(itertools.product(range(9), range(9), *([range(3)] * 6)))
    step = 1 if thorough else 40
    off = rng.randrange(step)
    for a in all_atts[off::step]:
        yield ("r", [[rng.choice(["x", "hi\n", "a b;1m[", "\t中"]), list(a)]])
    for _ in range(8000 if thorough else 700):
        if rng.random() < 0.5:
            f = canon.rand_fs_via_api(rng, depth=rng.choice([1, 2, 3, 4]))
            yield ("r", canon.canon_fs(f))
        else:
            yield ("r", canon.rand_runs(rng))
    for a in ([2, 0, 0, 0, 0, 0, 0, 0], [0, 5, 1, 0, 0, 0, 0, 0], [3, 3, 0, 0, 1, 1, 0, 0]):
        for tail in ("\n", "\n\n", "\r\n", " ", "\t", "x\n"):
            yield ("r", [["print", list(a)], [tail, [0] * 8]])
            yield ("r", [["p", list(a)], [tail, [0] * 8], ["q", list(a)]])
            yield ("r", [[tail, [0] * 8], ["p", list(a)]])
    for tail in ("a[1m", "x;31m", "[0m", "q[39m", ";1m", "[", "[3", "1"):
        for a in ([2, 0, 0, 0, 0, 0, 0, 0], [0, 5, 1, 0, 0, 0, 0, 0], [0, 0, 0, 0, 0, 1, 0, 0]):
            yield ("r", [[tail, list(a)]])
            yield ("r", [["p", list(a)], [tail, [0] * 8], ["q", list(a)]])
    # (c) around the grammar
    for s in NEAR:
        yield ("f", s)
    import props.c17 as c17
    for s in c17.SAMPLES:
        if len(s) < 400:
            yield ("f", s)
    for _ in range(6000 if thorough else 500):
        r = rng.random()
        if r < 0.5:
            yield ("f", c17.rand_string(rng))
        else:   # a grammar string with one mutation
            s = flatten(rand_grammar(rng))
            if s:
                i = rng.randrange(len(s))
                m = rng.random()
                if m < 0.4:
                    s = s[:i] + s[i + 1:]
                elif m < 0.8:
                    s = s[:i] + rng.choice(["0", "9", ";", "m", ESC, CSI8, "[", " ", "H", "8", "6"]) + s[i:]
                else:
                    s = s[:i] + rng.choice(["0", ";", "m", ESC, "[", "A"]) + s[i + 1:]
            yield ("f", s)


def run(inp):
    from curtsies.formatstring import FmtStr
    s = the_string(inp)
    return [s, canon.outcome(lambda: FmtStr.from_str(s), canon.canon_fs)]


def coq_toks(toks):
    return canon.coq_list(["GText %s" % coq_str(v) if k == "t" else "GSgr [%s]" % ";".join(str(p) for p in v)
                           for k, v in toks])


def to_coq(inp, out):
    s, r = out
    if inp[0] == "g":
        return "C05.Grammar %s %s %s" % (coq_toks(inp[1]), coq_str(s), coq_res(r, coq_fs))
    if inp[0] == "r":
        return "C05.Round %s %s %s" % (coq_fs(inp[1]), coq_str(s), coq_res(r, coq_fs))
    return "C05.Free %s %s" % (coq_str(s), coq_res(r, coq_fs))


def to_json_input(inp):
    return {"kind": inp[0], "value": inp[1]}


def to_json_output(out):
    return out


def from_json(obj):
    return (obj["kind"], obj["value"])


def key(inp):
    return inp[0] + repr(the_string(inp)) if inp[0] != "r" else "r" + repr(inp[1])


def nontrivial(inp, out):
    s, r = out
    return ESC in s and r[0] == "ok" and any(t for t, _ in r[1])


def stats(inp, out):
    s, r = out
    yield "kind=" + {"g": "grammar", "r": "roundtrip", "f": "free"}[inp[0]]
    if inp[0] == "g":
        toks = inp[1]
        yield "g_tokens=%d" % len(toks)
        if any(k == "s" and len(v) > 1 for k, v in toks):
            yield "g_combined_params"
        if any(k == "s" and len(v) == 0 for k, v in toks):
            yield "g_ESC[m"
        if any(k == "t" and "\n" in v for k, v in toks):
            yield "g_text_with_newline"
    if inp[0] == "r":
        yield "r_runs=%d" % min(len(inp[1]), 5)
    if r[0] == "ok":
        yield "result_runs=%d" % min(len(r[1]), 6)
        if any(sum(1 for x in a if x) >= 3 for _, a in r[1]):
            yield "result_run_with_3+_attributes"
    else:
        yield "raised_" + r[1]


def shrink(inp):
    if inp[0] == "f":
        s = inp[1]
        for i in range(len(s)):
            yield ("f", s[:i] + s[i + 1:])
        return
    xs = inp[1]
    for i in range(len(xs)):
        yield (inp[0], xs[:i] + xs[i + 1:])
    for i, x in enumerate(xs):
        if inp[0] == "g":
            k, v = x
            if len(v) > 1:
                for j in range(len(v)):
                    yield ("g", xs[:i] + [[k, v[:j] + v[j + 1:]]] + xs[i + 1:])
        else:
            s, a = x
            if len(s) > 1:
                yield ("r", xs[:i] + [[s[:1], a]] + xs[i + 1:])
            for j in range(8):
                if a[j]:
                    b = list(a)
                    b[j] = 0
                    yield ("r", xs[:i] + [[s, b]] + xs[i + 1:])


LEVEL_TEXT = "TODO"
LEVEL_NOTE = "TODO"
TECHNIQUE = "Coq proof (induction over tokens / runs, per-code kernel computation) + generated tables + in-Coq differential correspondence"
