"""C03 -- key decoding splits any byte stream losslessly into correctly named keys."""
import curtsies.input as cinput
from curtsies import events

from canon import coq_bytes, coq_list, exn_name

ID = "C03"
LEVEL = "proof"
PROPS_FILE = "Props/C03.v"
EXTRA_PROPS = ("Props/C03Tie.v",)
CORR_VO = "Corr/C03.vo"
REQUIRE = "From Curtsies Require Import Model.Base Model.Utf8 Model.Keys Corr.C03."
CASE_TYPE = "C03.case"
MODEL_OK = "C03.model_ok"
SPEC_OK = "C03.spec_ok"
SHARD = 1200
EXHAUSTIVE = {"quick": False, "thorough": False}
RULE = ("(a) events.get_key on the decoder's complete one-step tree: every pending sequence p in {empty} + KEYMAP_PREFIXES "
        "x every next byte (256) x 3 encodings, each evaluated in the 3 naming modes x full/not full (thorough: all "
        "~35k nodes = 212k calls; quick: every 8th node, offset from the seed); (b) every sequence of both tables and every "
        "proper prefix of it, same 18 situations; (c) streams through the REAL find_key loop (Input.unget_bytes + send until "
        "the buffer is empty, curtsies.input.getpreferredencoding replaced), in all three naming modes: every table "
        "sequence followed by every byte, every table sequence followed by every other table sequence (thorough: all for "
        "utf-8, a fixed fraction for ascii/latin-1; quick: seeded samples), random token streams of table sequences, 1-4 "
        "byte characters and stray bytes; (d) events.decodable on all 1- and 2-byte sequences and boundary 3/4-byte ones; "
        "(e) could_be_unfinished_utf8 / _char on every first byte x lengths 0..7. non-trivial = at least one byte; "
        "distinct = distinct (kind, encoding, bytes/tokens)")
GENERATORS = ("gen/gen_pure.py",)
PURE_HELPERS = ('could_be_unfinished_utf8', 'decodable', '_key_name', 'could_be_unfinished_char', 'get_key')
TRUSTED = [
    "translator gen/gen_pure.py (dumps the Python AST of get_key, _key_name, decodable, could_be_unfinished_char, "
    "could_be_unfinished_utf8 node by node into coq/Gen/Pure.v; checks that every free name of them is a translated function, "
    "a generated table, Keynames, codecs or an unshadowed builtin) and the reference semantics of that Python subset "
    "coq/Spec/PyMini.v, itself run against CPython (the real functions) on enumerated arguments in every check",
    "module context coq/Spec/PyEnv.v: globals built from Gen/Tables.v; calls between the five functions run the callee's own "
    "generated tree (nothing assumed); ORACLES (assumed, validated against CPython in every check): bytes.decode(name) = "
    "Model/Utf8.decode for the names of the alias table (utf-8, utf8, UTF-8, ascii, us-ascii, latin-1, latin1, iso-8859-1), "
    "codecs.getdecoder(a) is codecs.getdecoder(b) iff a and b name the same codec; exception messages are not modelled; "
    "python without -O (assert is executed)",
    "Coq 8.16.1 kernel incl. vm_compute (no native_compute); Print Assumptions: closed under the global context",
    "translator gen/gen_tables.py (CURTSIES_NAMES, CURSES_NAMES, KEYMAP_PREFIXES, MAX_KEYPRESS_SIZE of the live modules)",
    "reference notions coq/Spec/KeySpec.v (growable = proper prefix of an ESC-initiated table sequence, name_ok, prop_ok, stream_ok)",
    "codec model coq/Model/Utf8.v (Unicode Table 3-7 automaton; ascii; latin-1) -- validated here against bytes.decode on "
    "all 1-/2-byte and boundary 3/4-byte sequences, not verified",
    "harness canonicaliser (outcome -> Coq literal) and the parser of coqc's answer",
    "modelled, not verified: dict lookup as association-list lookup (keys checked pairwise distinct), list.pop(0)/append, "
    "codecs.getdecoder identity test (three encodings only), `\"x%02X\" % ord(seq)`",
]
ASSUMPTIONS = [
    "encodings utf-8, ascii, latin-1 (as the property's quantifier states); bytes are 0..255",
    "valid input = concatenation of ESC-initiated table sequences and validly encoded characters, reads ending on token boundaries",
    "known finding F-C03: pending bytes in KEYMAP_PREFIXES followed by a byte >= 0x80 (utf-8, ascii) raise UnicodeDecodeError",
]

ENCS = ["utf-8", "ascii", "latin-1"]
COQ_ENC = {"utf-8": "Utf8", "ascii": "Ascii", "latin-1": "Latin1"}
MODES = [events.Keynames.CURTSIES, events.Keynames.CURSES, events.Keynames.BYTES]
SITUATIONS = [(m, f) for m in MODES for f in (False, True)]

TABLE_KEYS = sorted(set(events.CURTSIES_NAMES) | set(events.CURSES_NAMES))
PREFIXES = sorted(events.KEYMAP_PREFIXES)


# ---------------------------------------------------------------------------
# running the implementation
def _outcome(thunk):
    try:
        v = thunk()
    except Exception as e:  # noqa
        return ["raise", exn_name(e)]
    if v is None:
        return ["more"]
    if isinstance(v, bytes):
        return ["key", list(v)]
    if isinstance(v, str):
        return ["key", [ord(c) for c in v]]
    return ["raise", "OtherError"]


def _get(enc, s):
    bs = [bytes([b]) for b in s]
    return [_outcome(lambda m=m, f=f: events.get_key(bs, enc, keynames=m, full=f)) for m, f in SITUATIONS]


_INPUTS = {}


def decode_stream(enc, mode, buf):
    """the real find_key loop: a real Input, bytes pushed with unget_bytes, send() until the buffer is empty"""
    inp = _INPUTS.get(mode)
    if inp is None:
        inp = _INPUTS[mode] = cinput.Input(keynames=mode)
    inp.unprocessed_bytes = []
    saved = cinput.getpreferredencoding
    cinput.getpreferredencoding = lambda: enc
    try:
        if len(buf) >= 2 and (len(buf) + buf[0]) % 2:
            # handed back in two pieces: what is handed back later was read later and comes out later
            inp.unget_bytes(bytes(buf[:len(buf) // 2]))
            inp.unget_bytes(bytes(buf[len(buf) // 2:]))
        else:
            inp.unget_bytes(bytes(buf))
        keys = []
        try:
            while inp.unprocessed_bytes:
                e = inp.send(0)
                if isinstance(e, bytes):
                    keys.append(list(e))
                elif isinstance(e, str):
                    keys.append([ord(c) for c in e])
                else:
                    return ["raise", "OtherError"]
        except Exception as e:  # noqa
            return ["raise", exn_name(e)]
        return ["ok", keys]
    finally:
        cinput.getpreferredencoding = saved
        inp.unprocessed_bytes = []


def _bool_outcome(thunk):
    try:
        v = thunk()
    except Exception as e:  # noqa
        return ["raise", exn_name(e)]
    return ["ok", bool(v)]


def run(inp):
    kind, enc = inp[0], inp[1]
    if kind == "get":
        return _get(enc, inp[2])
    if kind == "stream":
        buf = [b for t in inp[2] for b in t]
        return [decode_stream(enc, m, buf) for m in MODES]
    if kind == "dec":
        return bool(events.decodable(bytes(inp[2]), enc))
    if kind == "unf":
        s = bytes(inp[2])
        return [_bool_outcome(lambda: events.could_be_unfinished_utf8(s)),
                _bool_outcome(lambda: events.could_be_unfinished_char(s, enc))]
    raise ValueError(kind)


# ---------------------------------------------------------------------------
# Coq literals
def coq_outcome(o):
    if o[0] == "key":
        return "Key " + coq_bytes(o[1])
    if o[0] == "more":
        return "More"
    return "Err " + o[1]


def coq_keys_res(r):
    if r[0] == "ok":
        return "(Ok %s)" % coq_list([coq_bytes(k) for k in r[1]])
    return "(Raise %s)" % r[1]


def coq_bool_res(r):
    return "(Ok %s)" % ("true" if r[1] else "false") if r[0] == "ok" else "(Raise %s)" % r[1]


def to_coq(inp, out):
    kind, enc = inp[0], COQ_ENC[inp[1]]
    if kind == "get":
        return "C03.CGet %s %s %s" % (enc, coq_bytes(inp[2]), coq_list([coq_outcome(o) for o in out]))
    if kind == "stream":
        return "C03.CStream %s %s (%s, %s, %s)" % (enc, coq_list([coq_bytes(t) for t in inp[2]]),
                                                   coq_keys_res(out[0]), coq_keys_res(out[1]), coq_keys_res(out[2]))
    if kind == "dec":
        return "C03.CDecodable %s %s %s" % (enc, coq_bytes(inp[2]), "true" if out else "false")
    if kind == "unf":
        return "C03.CUnfinished %s %s %s %s" % (enc, coq_bytes(inp[2]), coq_bool_res(out[0]), coq_bool_res(out[1]))
    raise ValueError(kind)


def to_json_input(inp):
    if inp[0] == "stream":
        return {"kind": "stream", "enc": inp[1], "toks": [list(t) for t in inp[2]],
                "bytes": [b for t in inp[2] for b in t]}
    return {"kind": inp[0], "enc": inp[1], "bytes": list(inp[2])}


def to_json_output(out):
    return out


def from_json(obj):
    if obj["kind"] == "stream":
        return ("stream", obj["enc"], tuple(tuple(t) for t in obj["toks"]))
    return (obj["kind"], obj["enc"], tuple(obj["bytes"]))


def key(inp):
    return repr(inp)


def nontrivial(inp, out):
    return len(inp[2]) > 0


# ---------------------------------------------------------------------------
# known finding F-C03: pending bytes in KEYMAP_PREFIXES, next byte >= 0x80, utf-8 / ascii
def _fc03_point(enc, pending):
    return (enc != "latin-1" and len(pending) >= 2 and pending[-1] >= 0x80
            and bytes(pending[:-1]) in events.KEYMAP_PREFIXES)


def family(inp, out):
    kind, enc = inp[0], inp[1]
    if kind == "get":
        # the failure must be the exception, nothing else
        if _fc03_point(enc, list(inp[2])) and all(o == ["raise", "UnicodeDecodeError"] for o in out):
            return "F-C03"
        return None
    if kind == "stream":
        if not all(o == ["raise", "UnicodeDecodeError"] for o in out):
            return None
        # replay the find_key loop with the real get_key up to the failure
        buf = [b for t in inp[2] for b in t]
        pending = []
        while buf:
            pending.append(buf.pop(0))
            o = _outcome(lambda: events.get_key([bytes([b]) for b in pending], enc,
                                                keynames=events.Keynames.BYTES, full=not buf))
            if o[0] == "raise":
                return "F-C03" if _fc03_point(enc, pending) else None
            if o[0] == "key":
                pending = []
        return None
    return None


# ---------------------------------------------------------------------------
# generation
def _char_bytes(rng, enc):
    """a validly encoded character"""
    if enc == "ascii":
        return tuple(bytes([rng.randrange(0x20, 0x7F)]))
    if enc == "latin-1":
        return tuple(bytes([rng.choice([rng.randrange(0x20, 0x7F), rng.randrange(0xA0, 0x100)])]))
    r = rng.random()
    if r < 0.35:
        c = rng.randrange(0x20, 0x7F)
    elif r < 0.6:
        c = rng.choice([0x80, 0xE9, 0x7FF, rng.randrange(0x80, 0x800)])
    elif r < 0.85:
        c = rng.choice([0x800, 0xFFF, 0x1000, 0xD7FF, 0xE000, 0xFFFD, 0xFFFF, 0x20AC, rng.randrange(0x800, 0xD800)])
    else:
        c = rng.choice([0x10000, 0x1F600, 0x3FFFF, 0x40000, 0xFFFFF, 0x100000, 0x10FFFF, rng.randrange(0x10000, 0x110000)])
    return tuple(chr(c).encode("utf-8"))


def _rand_stream(rng, enc):
    n = rng.choice([1, 2, 2, 3, 3, 4, 5, 6])
    toks = []
    garbage = rng.random() < 0.15
    for _ in range(n):
        r = rng.random()
        if r < 0.45:
            toks.append(tuple(rng.choice(TABLE_KEYS)))
        elif r < 0.9 or not garbage:
            toks.append(_char_bytes(rng, enc))
        else:
            toks.append(tuple(rng.randrange(256) for _ in range(rng.choice([1, 1, 2, 3]))))
    return ("stream", enc, tuple(toks))


def _boundary_sequences():
    leads3 = [0xE0, 0xE1, 0xEC, 0xED, 0xEE, 0xEF]
    leads4 = [0xF0, 0xF1, 0xF3, 0xF4, 0xF5, 0xF7, 0xF8, 0xFC, 0xFE, 0xFF]
    seconds = [0x00, 0x7F, 0x80, 0x8F, 0x90, 0x9F, 0xA0, 0xBF, 0xC0, 0xFF]
    conts = [0x7F, 0x80, 0xBF, 0xC0]
    for a in leads3:
        for b in seconds:
            for c in conts:
                yield (a, b, c)
            yield (a, b)
    for a in leads4:
        for b in seconds:
            for c in conts:
                for d in conts:
                    yield (a, b, c, d)
                yield (a, b, c)
    for tail in [(0x41,), (0xC3, 0xA9), (0x80,), (0xE2, 0x82)]:
        yield (0xE2, 0x82, 0xAC) + tail
        yield (0xF0, 0x9F, 0x98, 0x80) + tail
        yield (0x41,) + tail
    yield ()


def generate(rng, tier):
    thorough = tier == "thorough"
    # (a) the complete one-step tree
    nodes = [(), ] + [tuple(p) for p in PREFIXES]
    tree = [("get", enc, p + (b,)) for p in nodes for b in range(256) for enc in ENCS]
    if thorough:
        yield from tree
    else:
        off = rng.randrange(8)
        yield from tree[off::8]
        yield ("get", "utf-8", (27, 195))
    # (b) table sequences and their prefixes
    for i, k in enumerate(TABLE_KEYS):
        for enc in ENCS:
            yield ("get", enc, tuple(k))
            for j in range(1, len(k)):
                if thorough or (i + j) % 4 == 0:
                    yield ("get", enc, tuple(k[:j]))
    # too long / odd ones
    for enc in ENCS:
        yield ("get", enc, tuple(range(65, 65 + events.MAX_KEYPRESS_SIZE + 1)))
        yield ("get", enc, (27,) * (events.MAX_KEYPRESS_SIZE + 1))
        yield ("get", enc, tuple(range(65, 65 + events.MAX_KEYPRESS_SIZE)))
        yield ("get", enc, (0xE2, 0x82, 0xAC))
        yield ("get", enc, (0xE2, 0x82))
        yield ("get", enc, (0xF0, 0x9F, 0x98, 0x80))
        yield ("get", enc, (0xF0, 0x9F, 0x98))
        yield ("get", enc, (0xC3, 0x28))
        yield ("get", enc, (0xFC, 0x80, 0x80, 0x80, 0x80))
        yield ("get", enc, (0xFC, 0x80, 0x80, 0x80, 0x80, 0x80))
    # (c) streams through the real find_key loop
    seq_byte = [("stream", enc, (tuple(k), (b,))) for enc in ENCS for k in TABLE_KEYS for b in range(256)]
    if thorough:
        for c in seq_byte:
            if c[1] == "utf-8" or (hash_small(c) % 4 == 0):
                yield c
    else:
        yield from rng.sample(seq_byte, 2500)
    if thorough:
        for enc in ENCS:
            for i, a in enumerate(TABLE_KEYS):
                for j, b in enumerate(TABLE_KEYS):
                    if enc == "utf-8" or (i * 7 + j) % 8 == 0:
                        yield ("stream", enc, (tuple(a), tuple(b)))
    else:
        for _ in range(1500):
            yield ("stream", rng.choice(ENCS), (tuple(rng.choice(TABLE_KEYS)), tuple(rng.choice(TABLE_KEYS))))
    # a key that is also a prefix of longer sequences (ESC, ESC [, ESC O, ...) followed, in the same read, by a long
    # run of ordinary characters of the kind escape sequences are made of (digits, ';', '?', space ...): pasted or
    # leaked control sequences the tables do not know must still come back losslessly, never as an error
    growable = [k for k in TABLE_KEYS if bytes(k) in events.KEYMAP_PREFIXES]
    tails = ["123456", "38;5;208m", "      ", "0;0;0;0;0;0", "?1049h", ":::::::", "12;34R", "1;2;3;4;5;6;7;8", "<=>?<=>?", "9" * 12]
    for k in (growable if thorough else rng.sample(growable, min(len(growable), 12))):
        for t in tails:
            for enc in (ENCS if thorough else ["utf-8"]):
                yield ("stream", enc, (tuple(k),) + tuple((ord(c),) for c in t))
    for k in TABLE_KEYS:                      # every table sequence alone (arrives whole, read ends)
        for enc in ENCS:
            yield ("stream", enc, (tuple(k),))
    for _ in range(20000 if thorough else 800):
        yield _rand_stream(rng, rng.choice(["utf-8", "utf-8", "ascii", "latin-1"]))
    # (d) decodable
    for enc in ENCS:
        for a in range(256):
            yield ("dec", enc, (a,))
    two = [(a, b) for a in range(256) for b in range(256)]
    if thorough:
        for s in two:
            yield ("dec", "utf-8", s)
        for s in two[::16]:
            yield ("dec", "ascii", s)
            yield ("dec", "latin-1", s)
    else:
        off = rng.randrange(16)
        for s in two[off::16]:
            yield ("dec", "utf-8", s)
        for s in two[off::256]:
            yield ("dec", "ascii", s)
            yield ("dec", "latin-1", s)
    for s in _boundary_sequences():
        for enc in ENCS:
            yield ("dec", enc, s)
    # (e) unfinished-character tests
    for enc in ENCS:
        yield ("unf", enc, ())
        for a in range(256):
            for n in range(0, 7):
                if thorough or n < 2 or (a + n) % 3 == 0:
                    yield ("unf", enc, (a,) + (0x80,) * n)


def hash_small(c):
    h = 0
    for t in c[2]:
        for b in t:
            h = (h * 131 + b + 1) % 1000003
    return h


def stats(inp, out):
    kind, enc = inp[0], inp[1]
    yield "kind=%s" % kind
    yield "enc=%s" % enc
    if kind == "get":
        yield "get:len=%d" % len(inp[2])
        for (m, f), o in zip(SITUATIONS, out):
            if m is events.Keynames.CURTSIES:
                yield "get:%s:%s" % ("full" if f else "more-buffered", o[0] if o[0] != "raise" else o[1])
    elif kind == "stream":
        yield "stream:tokens=%d" % len(inp[2])
        yield "stream:%s" % (out[2][0] if out[2][0] == "ok" else out[2][1])
        if out[2][0] == "ok":
            yield "stream:cuts_equal_tokens" if [tuple(k) for k in out[2][1]] == [tuple(t) for t in inp[2]] \
                else "stream:merged_or_split"
    elif kind == "dec":
        yield "dec:%s" % out


def shrink(inp):
    if inp[0] == "stream":
        toks = list(inp[2])
        for i in range(len(toks)):
            if len(toks) > 1:
                yield ("stream", inp[1], tuple(toks[:i] + toks[i + 1:]))
        for i, t in enumerate(toks):
            if len(t) > 1:
                yield ("stream", inp[1], tuple(toks[:i] + [t[:-1]] + toks[i + 1:]))
                yield ("stream", inp[1], tuple(toks[:i] + [t[1:]] + toks[i + 1:]))
    else:
        s = inp[2]
        if len(s) > 1:
            yield (inp[0], inp[1], s[:-1])
            yield (inp[0], inp[1], s[1:])


LEVEL_TEXT = ("Machine-checked theorems (Coq) about a model that follows events.get_key/_key_name/could_be_unfinished_* and the "
              "find_key loop statement by statement, over the key tables regenerated from the live modules on every run: "
              "lossless segmentation for ALL byte strings/encodings/modes by induction; exact iff-characterisations of when "
              "get_key raises / asks for more (all byte strings) and their closed form on the complete one-step tree "
              "(46 nodes x 256 bytes x 3 encodings x 3 modes x 2, kernel-evaluated); KEYMAP_PREFIXES = proper prefixes of "
              "ESC-initiated table sequences; every table sequence decoded under its table name with every proper prefix "
              "answered 'more' (forallb over both tables); every Unicode scalar value reported as itself (utf-8 from "
              "byte-range lemmas, not enumerated); ALL streams of non-growable table sequences and characters are cut "
              "exactly at token boundaries; on ALL valid streams the decoder fails only with UnicodeDecodeError, only under "
              "utf-8/ascii and only where a member of KEYMAP_PREFIXES is directly followed by a byte >= 0x80 -- the known "
              "finding F-C03, stated as an iff on the tree and carried as a refuted example. Model tied to the code by "
              "in-Coq differential correspondence on the whole tree, all table entries, table x byte / table x table streams "
              "through a real Input, and the codec on all 1-/2-byte and boundary sequences")
LEVEL_NOTE = ("Known finding F-C03 (ESC-prefix + byte >= 0x80 under utf-8/ascii raises UnicodeDecodeError) is printed as "
              "KNOWN-FINDING on every run; 'never fails on valid input' is therefore proved in the form 'fails only inside "
              "F-C03'. 'More only while growable' is exact on the one-step tree and per token; under utf-8 the masks of "
              "could_be_unfinished_utf8 also wait on the never-valid lead bytes C0, C1, F5..FD (not valid input). Trusted: "
              "Coq kernel+vm_compute, gen_tables.py, Spec/KeySpec.v, the codec model Utf8.v, the canonicaliser")
TECHNIQUE = ("Coq proof: induction over buffers; kernel evaluation (vm_compute) over the generated tables and the one-step "
             "tree; byte-range arithmetic (lia) for utf-8; generated tables; in-Coq differential correspondence")
