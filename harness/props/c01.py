"""C01 -- str(FmtStr) displays exactly its characters and formatting, then resets."""
import itertools

import canon
from canon import coq_fs, coq_str

ID = "C01"
LEVEL = "proof"
PROPS_FILE = "Props/C01.v"
CORR_VO = "Corr/C01.vo"
REQUIRE = "From Curtsies Require Import Model.Base Corr.C01."
CASE_TYPE = "C01.case"
MODEL_OK = "C01.model_ok"
SPEC_OK = "C01.spec_ok"
EXHAUSTIVE = {"quick": False, "thorough": False}
RULE = ("single runs over ALL 9*9*3^6 attribute dictionaries (fg, bg in 8 colours or absent; each style True, False "
        "or absent) with a text drawn per case, plus random multi-run FmtStrs built through the public API "
        "(fmtstr spellings, fmtfuncs, +, slicing, *) over plain, control, wide and combining characters; "
        "observation: exact str(f) vs the model's render, and the SGR reference interpreter on the "
        "implementation's string vs the per-character cells. non-trivial = at least one character and one "
        "attribute; distinct = distinct (runs) value. Before the first case the process has written FmtStrs whose "
        "colours were given as floats equal to the table's numbers (their own output is not judged)")
TRUSTED = [
    "Coq 8.16.1 kernel incl. vm_compute (no native_compute); Print Assumptions: closed under the global context",
    "reference SGR interpreter coq/Spec/Sgr.v (independent of the code's constants)",
    "translator gen/gen_tables.py (observes one_arg_xforms/two_arg_xforms of the current tree)",
    "harness canonicaliser harness/canon.py (FmtStr runs -> Coq literal) and the parser of coqc's answer",
    "modelled, not verified: Python sorted() over the eight attribute keys, str concatenation, `v is False`",
]
ASSUMPTIONS = ["text free of ESC (27) and 8-bit CSI (155), as the property's quantifier states",
               "attribute values are the eight colours / True / False (what parse_args admits)"]

TEXTS = ["x", "hi\n", "\tＥ́", "a b;1m[", ""]


def _earlier_in_the_process():
    """What a process may have done before the first FmtStr of the check is written: colours given by numbers that are
    EQUAL to the table's numbers without being the same objects -- floats (parse_args admits 31.0, it compares with
    `in`), and ints that are not the interned small ones.  Their own output is not judged (the quantifier is over
    the colours parse_args documents); what is judged is that nothing they leave behind (a table keyed by value)
    changes what an ordinary FmtStr writes afterwards."""
    from curtsies.formatstring import fmtstr
    for n in list(range(30, 38)) + list(range(40, 48)):
        for spelling in (float(n), int(str(n) * 1)):
            try:
                str(fmtstr("q", **{"fg" if n < 40 else "bg": spelling}))
            except Exception:  # noqa: a tree that refuses such numbers has nothing to leave behind
                pass


_earlier_in_the_process()


def generate(rng, tier):
    # every attribute dictionary once (quick: every 3rd, rotating with the seed)
    all_atts = list(itertools.product(range(9), range(9), *([range(3)] * 6)))
    step = 1 if tier == "thorough" else 8
    off = rng.randrange(step)
    for a in all_atts[off::step]:
        yield ("runs", [[rng.choice(TEXTS[:4]), list(a)]])
    # two or three neighbouring runs with IDENTICAL formatting (what a merging / grouping optimisation would look at)
    # whose texts are fragments of the escape codes themselves: digits, '[', ';', 'm', '1m', '31', ESC-less look-alikes
    frags = ["m", "[", ";", "0", "1", "3", "4", "9", "31", "1m", "[3", "39m", "x"]
    fmts = [[2, 0, 0, 0, 0, 0, 0, 0], [0, 5, 0, 0, 0, 0, 0, 0], [5, 0, 1, 0, 0, 0, 0, 0], [2, 3, 1, 0, 0, 1, 0, 1], [0, 0, 0, 0, 1, 0, 0, 0]]
    for a in fmts:
        for t1 in (frags if tier == "thorough" else rng.sample(frags, 7)):
            t2 = rng.choice(frags)
            yield ("runs", [[t1, list(a)], [t2, list(a)]])
            yield ("runs", [[t1, list(a)], [t2, list(a)], [t1 + t2, list(a)]])
    for text, args in (("1m", ["red"]), ("31", ["red"]), ("[3", ["red"]), ("4m", ["underline"]), ("34m", ["blue"]),
                       ("1m", ["bold"]), ("[4", ["on_blue"]), ("0m", ["bold", "red"])):
        leaf = ["leaf", text, args, {}]
        seen = ["obs", leaf, ["str"]]
        for a, b in ((0, 1), (1, 2), (1, 3), (0, 2)):
            yield ("expr", ["slice", seen, a, b])
            yield ("expr", ["add", ["slice", seen, a, b], ["obs", ["slice", leaf, a, b], ["str", "hash"]]])
        yield ("expr", ["add", seen, ["slice", ["mul", seen, 2], 1, 3]])
    n = 6000 if tier == "thorough" else 800
    for _ in range(n):
        if rng.random() < 0.7:
            # a program over the public API, with observations (str, len, hash, ...) interleaved so that
            # memoised values exist before derived objects are made
            yield ("expr", canon.rand_expr(rng, depth=rng.choice([1, 2, 3, 4])))
        else:
            yield ("runs", canon.rand_runs(rng))


def run(inp):
    if inp[0] == "expr":
        f = canon.eval_expr(inp[1])
        return {"runs": canon.canon_fs(f), "str": str(f)}
    f = canon.build_fs(inp[1])
    return {"runs": inp[1], "str": str(f)}


def to_coq(inp, out):
    return "(%s, %s)" % (coq_fs(out["runs"]), coq_str(out["str"]))


def to_json_input(inp):
    return {inp[0]: inp[1]}


def to_json_output(out):
    return out


def from_json(obj):
    return ("expr", obj["expr"]) if "expr" in obj else ("runs", obj["runs"])


def key(inp):
    return repr(inp)


def nontrivial(inp, out):
    return any(s and any(a) for s, a in out["runs"])


def stats(inp, out):
    runs = out["runs"]
    yield "kind=" + inp[0]
    yield "runs=%d" % min(len(runs), 5)
    yield "chars=%s" % ("0" if not any(s for s, _ in runs) else "1-3" if sum(len(s) for s, _ in runs) <= 3 else "4+")
    if any(2 in a[2:] for _, a in runs):
        yield "has_explicit_False"
    if any(not s for s, _ in runs):
        yield "has_empty_run"
    if any(ord(c) < 32 for s, _ in runs for c in s):
        yield "has_control_char"
    if any(ord(c) > 255 for s, _ in runs for c in s):
        yield "has_wide_or_combining"


def shrink(inp):
    if inp[0] == "expr":
        for c in canon.shrink_expr(inp[1]):
            yield ("expr", c)
        return
    runs = inp[1]
    for i in range(len(runs)):
        yield ("runs", runs[:i] + runs[i + 1:])
    for i, (s, a) in enumerate(runs):
        if len(s) > 1:
            yield ("runs", runs[:i] + [[s[:1], a]] + runs[i + 1:])
        for j in range(8):
            if a[j]:
                b = list(a)
                b[j] = 0
                yield ("runs", runs[:i] + [[s, b]] + runs[i + 1:])

LEVEL_TEXT = ("Machine-checked theorem (Coq) for ALL FmtStrs with ESC/CSI-free text: the reference SGR interpreter run on "
              "render f yields exactly cells f and the default state, and fails on any non-SGR sequence; render is the model "
              "of Chunk.color_str/FmtStr.__str__ whose wrapped strings are regenerated from the code on every run, and whose "
              "agreement with the real str(f) is checked on all 59049 attribute dictionaries (thorough) plus random API-built values")
LEVEL_NOTE = ("Trusted: Coq kernel+vm_compute, the reference interpreter Spec/Sgr.v, gen_tables.py, the canonicaliser. "
              "Modelled not verified: sorted() key order, `v is False`, str concatenation, memoisation of __str__ (C13)")
TECHNIQUE = "Coq proof by induction over runs + per-constant kernel computation; generated tables; in-Coq differential correspondence"
