"""C15 -- str methods on a FmtStr agree with str on its text."""
import re

import canon
from canon import coq_fs, coq_str, coq_list, coq_z, coq_bool

ID = "C15"
LEVEL = "proof"
PROPS_FILE = "Props/C15.v"
CORR_VO = "Corr/C15.vo"
REQUIRE = ("From Curtsies Require Import Model.Base Model.Slice Model.StrMeth Corr.C15.\n"
           "Import C15.")
CASE_TYPE = "C15.case"
MODEL_OK = "C15.model_ok"
SPEC_OK = "C15.spec_ok"
SHARD = 250
EXHAUSTIVE = {"quick": False, "thorough": False}
RULE = ("one method call per case: the curated str methods (upper lower title capitalize swapcase casefold strip lstrip "
        "rstrip center zfill expandtabs replace removeprefix removesuffix find rfind index rindex count startswith "
        "endswith isalpha isdigit isspace islower isupper partition rpartition rsplit translate __contains__) and the "
        "native split (explicit separator; regex=True with the engine's match spans as data) / splitlines(False|True) / "
        "join / ljust / rjust, each with arguments from a pool built around the text (separators present, absent, "
        "adjacent, at the ends, multi-character, overlapping like 'aa' in 'aaa', regex metacharacters like '.', '|', '(', '*'; widths below / at / above the length; "
        "fill characters incl. wrong-length ones) on FmtStrs with >= 1 run: 1-5 runs cut at random positions (inside "
        "words and inside separators), attributes = a shared base + per-run extras (so that some, all or no formatting "
        "is shared), empty runs with unrelated attributes in first / middle / last position, all-empty FmtStrs. "
        "Observation: result.s or the plain answer or the exception class against the REAL str method on f.s (carried "
        "in the case), and the per-character cells of every result. non-trivial = at least one character and one "
        "attribute; distinct = distinct (runs, call)")
TRUSTED = [
    "Coq 8.16.1 kernel incl. vm_compute; Print Assumptions: closed under the global context",
    "reference functions coq/Spec/StrSpec.v (str_split, str_splitlines, py_ljust/py_rjust, cut_spans, meet_sgr, "
    "shown_by_some) and coq/Spec/ListOps.v (pyslice, join_lists); each is compared with the real str method's answer "
    "on every generated case",
    "the real Python str methods as the oracle for the text / plain answer (run in the harness process, carried as data)",
    "harness canonicaliser (FmtStr runs -> Coq literal; non-text answers compared through repr()), parser of coqc's answer",
    "modelled, not verified: re.finditer on an escaped literal (leftmost, non-overlapping scanner), re.finditer for "
    "regex=True (the spans are data), itertools.accumulate/zip/chain, dict comparison in shared_atts",
]
ASSUMPTIONS = [
    "texts and str-method results free of ESC '[' and of U+009B (fmtstr() would parse them: C05/C17)",
    "split: explicit non-empty separator or regex=True; sep=None, maxsplit and the empty separator are modelled but not "
    "claimed (split('') returns pieces where str raises ValueError)",
    "splitlines: '\\n' is the only line boundary (the method's docstring); generated texts contain no other line separator",
    "ljust/rjust without fillchar when a background is shared by all characters: the padding carries that background and "
    "nothing else (pinned by upstream tests/test_fmtstr.py::test_ljust_rjust), so 'shared formatting is carried' is "
    "checked on the original characters always, on the padding for the background only in that branch",
    "formatting clauses are stated for originals with at least one character (shared formatting of no characters is vacuous)",
    "the `in` operator is not the curated method __contains__ ('b' in red('abc') is False: no __contains__ on the type)",
]
LEVEL_TEXT = ("Machine-checked theorems (Coq) for the models of FmtStr.split / splitlines / ljust / rjust / shared_atts / the "
              "__getattr__ wrapper over the proved slicing model (C06): texts equal the reference str.split / splitlines / "
              "ljust / rjust, pieces are the sub-lists of the per-character cells at the right offsets, delegated results "
              "carry exactly the formatting shared by all characters; tied to the code by comparing model, references and "
              "the real str methods with the real FmtStr methods inside Coq on every generated call")
LEVEL_NOTE = ("Trusted: Coq kernel, Spec/StrSpec.v + Spec/ListOps.v, the real str methods as oracle, canonicaliser. "
              "Modelled: regex engine as match spans (literal scanner / data), accumulate/zip. Not claimed: sep=None, "
              "maxsplit, empty separator, encode")
TECHNIQUE = ("Coq proofs by induction over the scanned text / the span list on top of the C06 slicing theorem; section "
             "variables for the regex engine and the delegated str method; in-Coq differential correspondence against "
             "the real str methods")

# no other line boundaries than \n, no ESC / CSI
ALPHA = "abAB ,-\n\t"
EXTRA = "ßéǆ1٣.x"
# characters whose terminal width is not 1 (double-width, zero-width combining, astral): str methods count characters
WIDTHS = "Ｅ中́\u0300\U0001f600ab "
SEPS = [",", " ", "ab", "--", "\n", "a", ", ", "aa", "b,", "\t", "xyz", "A",
        # separators that mean something to the regex engine: split() must escape them
        ".", "a.", "|", "(", "*", "+", "a|b", "[a]", "\\", "$", "^"]


def rand_word(rng, alphabet):
    return "".join(rng.choice(alphabet) for _ in range(rng.choice([0, 1, 1, 2, 3, 4])))


def rand_text_around(rng, sep):
    """words joined by sep: adjacent separators, separators at the ends, none at all"""
    alphabet = rng.choice([ALPHA, ALPHA, "ab", "ab,", ALPHA + EXTRA, WIDTHS, ALPHA + WIDTHS])
    n = rng.choice([1, 1, 2, 3, 4])
    words = [rand_word(rng, alphabet) for _ in range(n)]
    if rng.random() < 0.3:
        words.insert(rng.randint(0, len(words)), "")          # adjacent / at an end
    if rng.random() < 0.2:
        words = [""] + words
    if rng.random() < 0.2:
        words = words + [""]
    return sep.join(words)


def layout(rng, text):
    """runs with >= 1 run: cuts anywhere, shared base attributes + extras, empty runs first / middle / last"""
    k = rng.choice([0, 0, 1, 1, 2, 3, 4])
    cuts = sorted(rng.randint(0, len(text)) for _ in range(k)) if text else []
    pieces = [text[a:b] for a, b in zip([0] + cuts, cuts + [len(text)])]
    mode = rng.random()
    base = list(canon.rand_atts(rng)) if mode < 0.7 else [0] * 8
    runs = []
    for p in pieces:
        a = list(base)
        if mode >= 0.15:                                      # mode < 0.15: uniformly formatted
            extra = canon.rand_atts(rng)
            for i in range(8):
                if extra[i] and rng.random() < 0.5:
                    a[i] = extra[i]
        runs.append([p, a])
    r = rng.random()
    if r < 0.45:
        where = rng.choice(["first", "middle", "last", "first", "any"])
        for _ in range(rng.choice([1, 1, 2])):
            e = ["", list(canon.rand_atts(rng) if rng.random() < 0.8 else base)]
            if where == "first":
                runs.insert(0, e)
            elif where == "last":
                runs.append(e)
            elif where == "middle":
                runs.insert(rng.randint(1, max(1, len(runs) - 1)) if len(runs) > 1 else 1, e)
            else:
                runs.insert(rng.randint(0, len(runs)), e)
    return runs


def rand_item(rng):
    t = rand_word(rng, "abXY ,")
    if rng.random() < 0.4:
        return ["s", t]
    return ["f", layout(rng, t)]


NOARG = ["upper", "lower", "title", "capitalize", "swapcase", "casefold", "strip", "lstrip", "rstrip",
         "isalpha", "isdigit", "isspace", "islower", "isupper", "expandtabs", "rsplit"]


def rand_sub(rng, text, esc=False):
    r = rng.random()
    if text and r < 0.5:
        a = rng.randint(0, len(text) - 1)
        return text[a:a + rng.choice([1, 1, 2, 3])]
    if r < 0.6:
        return ""
    if r < 0.68 and esc:
        # (only for methods whose answer is not text: a TEXT answer containing an escape introducer is re-parsed by the
        # wrapper's fmtstr(), which is outside the modelled scope, see ASSUMPTIONS)
        # an argument that looks like terminal output: for a str METHOD it is ordinary characters, never parsed
        return rng.choice(["\x1b[0m", "\x1b[31m" + (text[:1] or "h"), "\x9b1m", (text[-1:] or "d") + "\x1b[39m", "\x1b["])
    return rng.choice(SEPS + ["q", "zz"])


def rand_width(rng, n):
    return rng.choice([n - 2, n - 1, n, n, n + 1, n + 2, n + 5, 0, -1])


def rand_deleg(rng, text):
    n = len(text)
    r = rng.random()
    if r < 0.22:
        return [rng.choice(NOARG), []]
    m = rng.choice(["strip", "lstrip", "rstrip", "center", "center", "zfill", "expandtabs", "replace", "replace",
                    "removeprefix", "removesuffix", "find", "rfind", "index", "rindex", "count", "startswith",
                    "endswith", "partition", "rpartition", "rsplit", "rsplit", "translate", "__contains__"])
    if m in ("strip", "lstrip", "rstrip"):
        return [m, [rng.choice([" ", "ab", text[:1] + text[-1:], " \n\t", ","])]]
    if m == "center":
        return [m, [rand_width(rng, n)] + ([rng.choice(["*", " ", "-", "é"])] if rng.random() < 0.5 else [])]
    if m == "zfill":
        return [m, [rand_width(rng, n)]]
    if m == "expandtabs":
        return [m, [rng.choice([0, 1, 4, 8])]]
    if m == "replace":
        a = [rand_sub(rng, text), rng.choice(["", "X", "ab", "  ", rand_sub(rng, text)])]
        if rng.random() < 0.3:
            a.append(rng.choice([0, 1, 2, -1]))
        return [m, a]
    if m in ("removeprefix", "removesuffix", "startswith", "endswith"):
        p = rng.choice([text[:rng.randint(0, 3)], text[max(0, n - rng.randint(0, 3)):],
                        rand_sub(rng, text, esc=m in ("startswith", "endswith"))])
        return [m, [p]]
    if m in ("find", "rfind", "index", "rindex", "count"):
        a = [rand_sub(rng, text, esc=True)]
        if rng.random() < 0.35:
            a.append(rng.randint(-2, n + 1))
            if rng.random() < 0.5:
                a.append(rng.randint(-2, n + 1))
        return [m, a]
    if m in ("partition", "rpartition"):
        s = rand_sub(rng, text)
        return [m, [s if s else ","]] if rng.random() < 0.9 else [m, [""]]
    if m == "rsplit":
        a = [rng.choice([None] + SEPS[:6]) if rng.random() < 0.3 else (rand_sub(rng, text) or ",")]
        if rng.random() < 0.4:
            a.append(rng.choice([-1, 0, 1, 2]))
        return [m, a]
    if m == "translate":
        tab = []
        for ch in set(text[:6] + "ab"):
            if rng.random() < 0.5:
                tab.append([ord(ch), rng.choice(["X", "", "yz", None, ord("Q")])])
        return [m, [["table", sorted(tab, key=lambda kv: kv[0])]]]
    return [m, [rand_sub(rng, text, esc=(m == "__contains__"))]]


REGEXES = [r",", r"\s+", r"a+", r"[ab]", r"b*", r"a|,", r"\n", r",\s*", r"x?", r"(?:ab)+", r"$", r"^", r"\b"]


def rand_case(rng):
    sep = rng.choice(SEPS)
    text = rand_text_around(rng, sep)
    runs = layout(rng, text)
    n = len(text)
    r = rng.random()
    if r < 0.2:
        s = sep if rng.random() < 0.7 else rng.choice(SEPS + [text[:2] or ",", text[-1:] or ","])
        call = ["split", s]
    elif r < 0.27:
        call = ["split_re", rng.choice(REGEXES)]
    elif r < 0.29:
        call = ["split_none"] if rng.random() < 0.6 else (["split_max", sep, 1] if rng.random() < 0.7 else ["split", ""])
    elif r < 0.4:
        call = ["splitlines", rng.random() < 0.5]
        if rng.random() < 0.6:
            text = rand_text_around(rng, "\n") + rng.choice(["", "\n", "\n\n"])
            runs = layout(rng, text)
        elif rng.random() < 0.5:
            # CR LF line ends, keepends=True only: the LF splits and the CR stays with its line, exactly as in str
            # (a lone CR, or keepends=False, is where the method's "\n only" departs from str: not generated)
            call = ["splitlines", True]
            text = rand_text_around(rng, "\r\n").replace("\n\n", "\n") + rng.choice(["", "\r\n"])
            runs = layout(rng, text)
    elif r < 0.47:
        call = ["join", [rand_item(rng) for _ in range(rng.choice([0, 1, 2, 3, 3]))]]
    elif r < 0.65:
        fill = None
        if rng.random() < 0.45:
            fill = rng.choice(["*", " ", "x", "é", "", "ab"])
        call = [rng.choice(["ljust", "rjust"]), rand_width(rng, n), fill]
    else:
        call = ["deleg"] + rand_deleg(rng, text)
    return {"runs": runs, "call": call}


def generate(rng, tier):
    n = 30000 if tier == "thorough" else 2600
    for _ in range(n):
        yield rand_case(rng)


# ---- running the implementation ----------------------------------------------------------------
def _arg(a):
    if isinstance(a, list) and a and a[0] == "table":
        return {k: v for k, v in a[1]}
    return a


def canon_plain(v):
    """Python's own answer -> canonical"""
    if isinstance(v, str):
        return ["str", v]
    if isinstance(v, list) and all(isinstance(x, str) for x in v):
        return ["list", v]
    return ["other", repr(v)]


def canon_result(v):
    """the FmtStr method's answer -> canonical"""
    from curtsies.formatstring import FmtStr
    if isinstance(v, FmtStr):
        return ["fmt", canon.canon_fs(v)]
    if isinstance(v, list):
        return ["list", [canon.canon_fs(x) for x in v]]
    if isinstance(v, str):
        raise canon.Unrepresentable("plain str where a FmtStr is expected")
    if isinstance(v, tuple) and not all(type(x) is str for x in v):
        raise canon.Unrepresentable("tuple with non-str members")
    return ["other", repr(v)]


def outcome(thunk, conv):
    try:
        v = thunk()
    except canon.Unrepresentable:
        raise
    except Exception as e:  # noqa
        return ["raise", canon.exn_name(e)]
    return conv(v)


def build_item(it):
    return it[1] if it[0] == "s" else canon.build_fs(it[1])


def item_text(it):
    return it[1] if it[0] == "s" else "".join(s for s, _ in it[1])


def run(inp):
    f = canon.build_fs(inp["runs"])
    s = "".join(t for t, _ in inp["runs"])
    c = inp["call"]
    k = c[0]
    extra = None
    if k == "split":
        py = outcome(lambda: s.split(c[1]), canon_plain)
        got = outcome(lambda: f.split(c[1]), canon_result)
    elif k == "split_re":
        py = outcome(lambda: re.split(c[1], s), canon_plain)
        extra = [[m.start(), m.end()] for m in re.finditer(c[1], s)]
        got = outcome(lambda: f.split(c[1], regex=True), canon_result)
    elif k == "split_none":
        py = outcome(lambda: s.split(), canon_plain)
        extra = sorted(set(ch for ch in s if re.fullmatch(r"\s", ch)))
        got = outcome(lambda: f.split(), canon_result)
    elif k == "split_max":
        py = outcome(lambda: s.split(c[1], c[2]), canon_plain)
        got = outcome(lambda: f.split(c[1], c[2]), canon_result)
    elif k == "splitlines":
        py = outcome(lambda: s.splitlines(c[1]), canon_plain)
        got = outcome(lambda: f.splitlines(c[1]), canon_result)
    elif k == "join":
        py = outcome(lambda: s.join([item_text(it) for it in c[1]]), canon_plain)
        built = [build_item(it) for it in c[1]]
        shape = (len(built) + len(inp["runs"])) % 3          # a list, an iterator, a generator: str.join takes any iterable
        arg = built if shape == 0 else iter(built) if shape == 1 else (x for x in built)
        got = outcome(lambda: f.join(arg), canon_result)
    elif k in ("ljust", "rjust"):
        args = [c[1]] + ([] if c[2] is None else [c[2]])
        py = outcome(lambda: getattr(s, k)(*args), canon_plain)
        got = outcome(lambda: getattr(f, k)(*args), canon_result)
    elif k == "deleg":
        args = [_arg(a) for a in c[2]]
        py = outcome(lambda: getattr(s, c[1])(*args), canon_plain)
        got = outcome(lambda: getattr(f, c[1])(*args), canon_result)
    else:
        raise ValueError("unknown call %r" % (k,))
    return {"py": py, "got": got, "extra": extra}


# ---- Coq literals ----------------------------------------------------------------------------------
def coq_item(it):
    return "(OStr %s)" % coq_str(it[1]) if it[0] == "s" else "(OFmt %s)" % coq_fs(it[1])


def coq_spans(sp):
    return coq_list(["(%s, %s)" % (coq_z(a), coq_z(b)) for a, b in sp])


def coq_call(c, extra):
    k = c[0]
    if k == "split":
        return "(KSplit %s)" % coq_str(c[1])
    if k == "split_re":
        return "(KSplitRe %s)" % coq_spans(extra)
    if k == "split_none":
        return "(KSplitNone %s)" % coq_str("".join(extra))
    if k == "split_max":
        return "(KSplitMax %s %s)" % (coq_str(c[1]), coq_z(c[2]))
    if k == "splitlines":
        return "(KSplitlines %s)" % coq_bool(c[1])
    if k == "join":
        return "(KJoin %s)" % coq_list([coq_item(it) for it in c[1]])
    if k in ("ljust", "rjust"):
        return "(KJust %s %s %s)" % (coq_bool(k == "ljust"), coq_z(c[1]),
                                     "None" if c[2] is None else "(Some %s)" % coq_str(c[2]))
    return "KDeleg"


def coq_py(p):
    if p[0] == "str":
        return "(MStr %s)" % coq_str(p[1])
    if p[0] == "list":
        return "(MList %s)" % coq_list([coq_str(x) for x in p[1]])
    if p[0] == "other":
        return "(MOther %s)" % coq_str(p[1])
    return "(MRaise %s)" % p[1]


def coq_got(g):
    if g[0] == "fmt":
        return "(Ok (DFmt %s))" % coq_fs(g[1])
    if g[0] == "list":
        return "(Ok (DList %s))" % coq_list([coq_fs(x) for x in g[1]])
    if g[0] == "other":
        return "(Ok (DOther %s))" % coq_str(g[1])
    return "(Raise %s)" % g[1]


def to_coq(inp, out):
    return "(%s, %s, %s, %s)" % (coq_fs(inp["runs"]), coq_call(inp["call"], out["extra"]), coq_py(out["py"]),
                                 coq_got(out["got"]))


def to_json_input(inp):
    return inp


def to_json_output(out):
    return out


def from_json(obj):
    return {"runs": obj["runs"], "call": obj["call"]}


def key(inp):
    return repr((inp["runs"], inp["call"]))


def nontrivial(inp, out):
    return any(s and any(a) for s, a in inp["runs"])


def stats(inp, out):
    runs = inp["runs"]
    c = inp["call"]
    text = "".join(s for s, _ in runs)
    yield "method=" + (c[1] if c[0] == "deleg" else c[0])
    yield "runs=%d" % min(len(runs), 6)
    if not text:
        yield "no_characters"
    if runs and not runs[0][0] and text:
        yield "empty_first_run"
    if len(runs) > 1 and not runs[-1][0] and text:
        yield "empty_last_run"
    if any(not s for s, _ in runs[1:-1]):
        yield "empty_middle_run"
    if len({tuple(a) for s, a in runs if s}) > 1:
        yield "formatting_changes"
    yield "py=" + out["py"][0]
    if c[0] == "split" and c[1]:
        sep = c[1]
        yield "sep=" + ("absent" if sep not in text else "present")
        if sep in text:
            if text.startswith(sep) or text.endswith(sep):
                yield "sep_at_end"
            if sep + sep in text:
                yield "sep_adjacent"
            if len(sep) > 1:
                yield "sep_multichar"
            if re.escape(sep) != sep and not sep.isspace():
                yield "sep_regex_special"
            # a formatting change inside an occurrence of the separator
            pos = text.find(sep)
            bounds = set()
            acc = 0
            for s, _ in runs:
                acc += len(s)
                bounds.add(acc)
            if any(pos < b < pos + len(sep) for b in bounds):
                yield "run_boundary_inside_sep"
    if c[0] in ("ljust", "rjust"):
        w = c[1]
        yield "width=" + ("below" if w < len(text) else "at" if w == len(text) else "above")
        yield "fill=" + ("none" if c[2] is None else "1char" if len(c[2]) == 1 else "badlen")
        bgs = {a[1] for s, a in runs if s}
        if text:
            yield "just_bg=" + ("shared" if len(bgs) == 1 and 0 not in bgs else "none" if bgs == {0} else "not_shared")


def shrink(inp):
    runs = inp["runs"]
    if len(runs) > 1:
        for i in range(len(runs)):
            yield {"runs": runs[:i] + runs[i + 1:], "call": inp["call"]}
    for i, (s, a) in enumerate(runs):
        if len(s) > 1:
            yield {"runs": runs[:i] + [[s[1:], a]] + runs[i + 1:], "call": inp["call"]}
            yield {"runs": runs[:i] + [[s[:-1], a]] + runs[i + 1:], "call": inp["call"]}
        for j in range(8):
            if a[j]:
                b = list(a)
                b[j] = 0
                yield {"runs": runs[:i] + [[s, b]] + runs[i + 1:], "call": inp["call"]}
