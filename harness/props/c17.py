"""C17 -- fmtstr accepts any string: never raises, never loses ordinary text."""
import itertools

import canon
from canon import coq_fs, coq_str, coq_res

ID = "C17"
LEVEL = "proof"
PROPS_FILE = "Props/C17.v"
CORR_VO = "Corr/C17.vo"
REQUIRE = "From Curtsies Require Import Model.Base Corr.C17."
CASE_TYPE = "C17.case"
MODEL_OK = "C17.model_ok"
SPEC_OK = "C17.spec_ok"
EXHAUSTIVE = {"quick": False, "thorough": False}
SHARD = 400

ESC, CSI8 = "\x1b", "\x9b"
# the property's alphabet: ordinary characters (incl. newline), ESC, 8-bit CSI, '[', ']', digits, ';',
# a private-parameter byte, intermediates, final bytes (SGR, cursor, tilde, '@'), 'O' (SS3 / ESC O)
ALPHABET = ["a", "\n", ESC, CSI8, "[", "]", "0", "1", "3", "9", ";", "?", " ", "/", "m", "A", "H", "~", "@", "O", "é", "中"]
# the smaller alphabet enumerated exhaustively: one representative per character class of the three regexes
CORE = [ESC, CSI8, "[", "1", ";", "?", " ", "m", "H", "x", "\n"]

SAMPLES = [
    # pygments-style output (Terminal formatter), as bpython feeds it
    "\x1b[34mdef\x1b[39;49;00m \x1b[32mfoo\x1b[39;49;00m(x):\n    \x1b[34mreturn\x1b[39;49;00m x + \x1b[34m1\x1b[39;49;00m\n",
    "\x1b[01m\x1b[34mimport\x1b[39;49;00m \x1b[04m\x1b[36mos\x1b[39;49;00m\n",
    "\x1b[38;5;28;01mclass\x1b[39;00m \x1b[38;5;21;01mA\x1b[39;00m:\n",
    "\x1b[38;5;123mx\x1b[0m", "\x1b[48;2;10;20;30mtruecolor\x1b[m", "\x1b[38mx", "\x1b[m", "\x1b[0m", "x\x1b[my",
    "\x1b[2Aup\x1b[10;20Hat\x1b[Kerased\x1b[2J\x1b[1;1H", "\x1b[?25lhidden\x1b[?25h", "\x1b[?1049h\x1b[22;0;0t",
    "\x1b7save\x1b8", "\x1bOA\x1bOP", "\x1b]0;title\x07text", "\x1b(B\x1b[m", "\x1b[1 q", "\x1b[!p", "\x1b[>c",
    "\x1b[1;m", "\x1b[;m", "\x1b[1;;2m", "\x1b[;1m", "\x1b[001m", "\x1b[31", "\x1b[", "\x1b", "\x9b", "\x9b31mx",
    "\x9b31mx\x1b[0m", "\x1b[31mx\x9b0my", "a\x1b\x1b[1mb", "\x1b[\x1b[1mb", "\x1b[1m\n\x1b[0m\nq", "\x1bHx\x1b[1mz",
    "\x1b[1;Ay", "\x1b[1;Hy\x1b[31mz", "\x1b[31;1;4;44;5;7;3;2mall\x1b[0m", "\x1b[31m\x1b[39m", "",
    "\x1b[1mbold\x1b[Hhome\x1b[mreset", "\x1b[1 mz", "\x1b[1 /mz", "\x1b[ m", "\x1b[/", "\x1b[1;2 ", "\x1b[12x\x1b[12\x7f",
    ">>> [\x1b[33m1\x1b[39m, \x1b[33m2\x1b[39m]", "\x1b[31ma\nb", "\r\n\t\x00\x07\x7f\x80\x9a\x9c",
    "\x1b[" + "1" * 4300 + "Ax\x1b[1my", "\x1b[" + "1" * 4301 + "Ax\x1b[1my", "\x1b[3;" + "0" * 4300 + "7Ax\x1b[1my",
    "\x1b[" + "0" * 4301 + "mx", "\x1b[" + "0" * 300 + "31mx",
]

RULE = ("strings over the property's alphabet (ordinary characters incl. newline and non-ASCII, ESC, 8-bit CSI 155, "
        "'[', ']', digits, ';', '?', space, '/', 'm', 'A', 'H', '~', '@', 'O'): random of length 0-10 (plus splices of "
        "well-formed sequences into random strings); thorough additionally ALL strings up to length 5 over an 11-letter "
        "alphabet with one representative per character class of the three regular expressions; plus ~60 real-world "
        "samples (pygments output, 256-colour / truecolor SGR, cursor moves, private modes, OSC, SS3, the int() digit "
        "limit). observation: exception class and exact run list of BOTH FmtStr.from_str(s) and fmtstr(s). "
        "non-trivial = contains ESC or 155; distinct = distinct string")
TRUSTED = [
    "Coq 8.16.1 kernel incl. vm_compute (no native_compute); Print Assumptions: closed under the global context",
    "reference escape-sequence scanner coq/Spec/EscScan.v (ECMA-48 control sequences and two-byte ESC Fe sequences; independent of the code's regexes)",
    "translator gen/gen_tables.py (colour/style tables of the current tree; hashes of the regex sources)",
    "harness canonicaliser harness/canon.py and the parser of coqc's answer",
    "modelled, not verified: the `re` engine on the three regular expressions (hand-translated to deterministic scanners; "
    "uniqueness-of-match lemmas in Proofs/Parse.v; validated by this correspondence incl. exhaustive short strings), "
    "int() incl. the 4300-digit limit of CPython >= 3.11, str.split, dict.update, `in` on str",
]
ASSUMPTIONS = [
    "only ASCII 0-9 are treated as digits: Python's \\d and int() also accept other Unicode decimal digits; the generators keep them out of the inputs",
    "int() raises ValueError above 4300 digits (sys.get_int_max_str_digits() default)",
]


def rand_string(rng):
    n = rng.choice([0, 1, 2, 3, 4, 5, 6, 7, 8, 9, 10])
    mode = rng.random()
    if mode < 0.5:
        return "".join(rng.choice(ALPHABET) for _ in range(n))
    if mode < 0.75:   # escape-heavy
        alpha = [ESC, ESC, CSI8, "[", "[", "1", "3", ";", "m", "m", "H", "A", " ", "?", "x", "\n"]
        return "".join(rng.choice(alpha) for _ in range(n))
    # well-formed pieces spliced together
    pieces = []
    for _ in range(rng.choice([1, 2, 3, 4])):
        r = rng.random()
        if r < 0.35:
            pieces.append("".join(rng.choice("ab\n[;m19 ") for _ in range(rng.choice([0, 1, 2]))))
        elif r < 0.8:
            intro = rng.choice([ESC + "[", ESC + "[", ESC + "[", CSI8])
            ps = [rng.choice(["", "0", "1", "4", "7", "31", "39", "44", "49", "38", "5", "123", "007", "2", "10"])
                  for _ in range(rng.choice([0, 1, 1, 2, 3]))]
            inter = rng.choice(["", "", "", " ", "/", " /"])
            fin = rng.choice(["m", "m", "m", "A", "H", "K", "~", "@", "l", ""])
            pieces.append(intro + ";".join(ps) + inter + fin)
        else:
            pieces.append(rng.choice([ESC, ESC + "H", ESC + "O", ESC + "]", ESC + "7", CSI8, ESC + "[?25l", ESC + "[1;"]))
    return "".join(pieces)


def generate(rng, tier):
    for s in SAMPLES:
        yield s
    # numeric parameters far longer than any real one (CPython >= 3.11 refuses int() of more than 4300 digits)
    for d in (4299, 4301, 5000):
        yield "x\x1b[" + "7" * d + "mhello"
        yield "\x9b1;" + "3" * d + "Hz\x1b[31mr"
    # terminal output of realistic size: thousands of sequences in ONE string (a coloured listing, a long log)
    for n in ((1100, 2600) if tier == "thorough" else (1100,)):
        words = ["ab", "c\n", "", "d e", "ｗ"]
        yield "".join("\x1b[%sm%s" % (rng.choice(["0", "1", "31", "44", "1;32", "39;49", "", "7"]), words[i % 5])
                      for i in range(n))
        yield "".join("%s\x1b[%s" % (words[i % 5], rng.choice(["2K", "10;20H", "A", "0m", "?25l", "1m"])) for i in range(n))
    if tier == "thorough":
        for n in range(0, 6):
            for t in itertools.product(CORE, repeat=n):
                yield "".join(t)
        k = 40000
    else:
        # all strings up to length 3 over the core alphabet, a random slice of length 4
        for n in range(0, 4):
            for t in itertools.product(CORE, repeat=n):
                yield "".join(t)
        k = 2500
    for _ in range(k):
        yield rand_string(rng)


def run(inp):
    from curtsies.formatstring import FmtStr, fmtstr
    return [canon.outcome(lambda: FmtStr.from_str(inp), canon.canon_fs),
            canon.outcome(lambda: fmtstr(inp), canon.canon_fs)]


def to_coq(inp, out):
    return "(%s, %s, %s)" % (coq_str(inp), coq_res(out[0], coq_fs), coq_res(out[1], coq_fs))


def to_json_input(inp):
    return {"s": inp}


def to_json_output(out):
    return out


def from_json(obj):
    return obj["s"]


def key(inp):
    return inp


def nontrivial(inp, out):
    return ESC in inp or CSI8 in inp


def stats(inp, out):
    yield "len=%s" % (len(inp) if len(inp) <= 5 else "6-10" if len(inp) <= 10 else "11+")
    if ESC + "[" in inp:
        yield "has_ESC["
    elif ESC in inp:
        yield "has_ESC_only"
    if CSI8 in inp:
        yield "has_CSI8"
    if "\n" in inp:
        yield "has_newline"
    if out[0][0] == "ok":
        runs = out[0][1]
        t = "".join(s for s, _ in runs)
        if t != inp:
            yield "something_removed"
        if any(any(a) for _, a in runs):
            yield "formatted_result"
        if ESC + "[" in inp and len(runs) == 1 and not any(runs[0][1]) and (ESC + "[" in inp):
            yield "one_plain_run_from_ESC[_input"
    else:
        yield "raised_" + out[0][1]


def shrink(inp):
    for i in range(len(inp)):
        yield inp[:i] + inp[i + 1:]
    for i, c in enumerate(inp):
        if c not in (ESC, CSI8, "x") and not c.isdigit():
            yield inp[:i] + "x" + inp[i + 1:]


LEVEL_TEXT = "TODO"
LEVEL_NOTE = "TODO"
TECHNIQUE = "Coq proof (induction over the string / fuel) + generated tables + in-Coq differential correspondence"
