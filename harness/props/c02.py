"""C02 -- FullscreenWindow: after every render the screen equals the array."""
import io

import blessed

import canon
import termref
from canon import coq_fs, coq_cells, coq_bool
from curtsies.window import FullscreenWindow
from curtsies.formatstringarray import fsarray, FSArray
from curtsies import fmtfuncs
from curtsies.formatstring import FmtStr, fmtstr

ID = "C02"
LEVEL = "proof"
PROPS_FILE = "Props/C02.v"
CORR_VO = "Corr/C02.vo"
REQUIRE = "From Curtsies Require Import Model.Base Spec.Term Corr.C02.\nImport C02."
CASE_TYPE = "C02.case"
MODEL_OK = "C02.model_ok"
SPEC_OK = "C02.spec_ok"
SHARD = 150
EXHAUSTIVE = {"quick": False, "thorough": False}
RULE = ("random histories of 1-6 operations on every terminal size 1-4 x 1-5: renders of arrays given as list of "
        "str/FmtStr rows or as FSArray, heights in {0,h-1,h,h+1,h+2}, row lengths in {0,1,w-1,w,w+1,w+3}, rows reused from "
        "the previous render with only the formatting changed, cursor on any screen cell, interleaved with resizes to a "
        "size different from the last rendered one that leave random junk (characters with attributes), a random cursor "
        "and a random pending-wrap flag; hide_cursor on and off. The bytes the real window writes are tokenised and run "
        "through the reference terminal model inside Coq after every render. non-trivial = history with >=2 renders or a "
        "resize; distinct = distinct history")
TRUSTED = [
    "Coq 8.16.1 kernel incl. vm_compute; Print Assumptions: closed under the global context",
    "reference terminal model coq/Spec/Term.v (xterm pending-wrap, erase with current background, alternate screen) and "
    "reference SGR interpreter coq/Spec/Sgr.v",
    "tokeniser harness/termref.py (capability strings blessed emits for xterm-256color -> abstract commands)",
    "translator gen/gen_tables.py, canonicaliser harness/canon.py",
    "modelled, not verified: blessed/terminfo, Python dict/enumerate semantics, FmtStr slicing of a clipped row observed "
    "per cell (run structure is C06's business)",
]
ASSUMPTIONS = ["rows consist of single-column printable characters (no control, wide or combining characters)",
               "cursor_pos lies on the screen", "terminal height and width >= 1",
               "a resize is to a size different from the one last rendered at (as the property states)"]
LEVEL_TEXT = ("Machine-checked invariant proof (Coq) over ALL histories of renders and resizes for the model of "
              "FullscreenWindow.render_to_terminal against the reference terminal model: after every render the screen shows "
              "exactly the array (clipped), cursor at cursor_pos, no scroll; the model is tied to the code by replaying the "
              "real window's bytes through the same terminal model inside Coq after every render of random histories")
LEVEL_NOTE = ("Trusted: Coq kernel, Spec/Term.v + Spec/Sgr.v (oracles), tokeniser, translator. Modelled: blessed capability "
              "strings for xterm-256color, dict semantics; rows restricted to single-column printable characters")
TECHNIQUE = "Coq invariant proof over operation histories (cache invariant) layered on the C01 theorem; in-Coq replay of the implementation's terminal bytes"

_SIZE = [4, 5]
blessed.Terminal.height = property(lambda self: _SIZE[0])
blessed.Terminal.width = property(lambda self: _SIZE[1])

CHARS = "abcdefgXYZ0123.,-_#@ "


def rand_row(rng, length):
    """a row of exactly `length` single-column characters: ["str", text] or ["fs", runs]"""
    if rng.random() < 0.3:
        return ["str", "".join(rng.choice(CHARS) for _ in range(length))]
    if length >= 2 and rng.random() < 0.15:
        # formatted text that ENDS in blanks, a run boundary right there, then unformatted blanks or nothing
        k = rng.randint(1, length - 1)
        head = "".join(rng.choice(CHARS) for _ in range(k - 1)) + " "
        a = list(canon.rand_atts(rng, allow_false=False))
        if not any(a):
            a[1] = 5
        tail = rng.choice([[" " * (length - k), [0] * 8], [" " * (length - k), [0, 0, 2, 0, 0, 0, 0, 0]]])
        runs = [[head, a], tail]
        if rng.random() < 0.4:
            runs.append(["", [0] * 8])
        return ["fs", runs]
    runs = []
    left = length
    while left > 0:
        k = rng.randint(1, left)
        runs.append(["".join(rng.choice(CHARS) for _ in range(k)), list(canon.rand_atts(rng))])
        left -= k
    if rng.random() < 0.2:
        runs.insert(rng.randint(0, len(runs)), ["", list(canon.rand_atts(rng))])
    return ["fs", runs]


FMTFUNCS = ["red", "blue", "on_green", "on_red", "bold", "invert", "underline", "plain"]


def reformat(rng, row):
    if row[0] in ("same", "restyle"):
        return rand_row(rng, 2)
    if row[0] == "str":
        return ["fs", [[row[1], list(canon.rand_atts(rng))]]] if row[1] else row
    return ["fs", [[s, list(canon.rand_atts(rng)) if rng.random() < 0.5 else a] for s, a in row[1]]]


def rand_history(rng):
    h = rng.randint(1, 4)
    w = rng.randint(1, 5)
    hide = rng.random() < 0.5
    ops = []
    cur_h, cur_w = h, w
    last_rows = []
    last_size = None
    for _ in range(rng.randint(1, 6)):
        if ops and rng.random() < 0.25 and last_size is not None:
            while True:
                nh, nw = rng.randint(1, 4), rng.randint(1, 5)
                if (nh, nw) != last_size:
                    break
            junk = [[(rng.choice(CHARS), canon.eff_atts(canon.rand_atts(rng))) for _ in range(nw)] for _ in range(nh)]
            junk = [[[ch, list(st)] for ch, st in row] for row in junk]
            ops.append(["resize", nh, nw, junk, rng.randrange(nh), rng.randrange(nw), rng.random() < 0.3])
            cur_h, cur_w = nh, nw
            continue
        height = rng.choice([0, max(0, cur_h - 1), cur_h, cur_h, cur_h + 1, cur_h + 2])
        rows = []
        for i in range(height):
            r = rng.random()
            if i < len(last_rows) and r < 0.15:
                rows.append(last_rows[i])
            elif i < len(last_rows) and r < 0.3:
                rows.append(["same", i])            # the very same Python object as in the previous render
            elif i < len(last_rows) and r < 0.45:
                rows.append(["restyle", i, rng.choice(FMTFUNCS)])   # fmtfuncs.<name>(previous object)
            elif i < len(last_rows) and r < 0.55:
                rows.append(reformat(rng, last_rows[i]))
            else:
                rows.append(rand_row(rng, rng.choice([0, 1, max(0, cur_w - 1), cur_w, cur_w, cur_w + 1, cur_w + 3])))
        kind = rng.choices(["fsarray", "fsarray_rowassign", "list", "inplace", "from_text"], [22, 10, 50, 15, 6])[0]
        if ops and ops[-1][0] == "resize" and rng.random() < 0.3:
            kind = "from_text_early"     # laid out by the window BEFORE the size change, rendered after it
        ops.append(["render", kind, rows, [rng.randrange(cur_h), rng.randrange(cur_w)]])
        last_rows = rows
        last_size = (cur_h, cur_w)
    return {"hide": hide, "h": h, "w": w, "ops": ops}


_TIER = ["quick"]


def edit_histories(rng, count):
    """a small highlighting editor on a 24-30 column terminal: consecutive frames differ by ONE character deleted from
    or typed into a token of a multi-run line (long unchanged prefixes, a run that becomes a prefix of its old self)"""
    B, R, G, P = [5, 0, 0, 0, 0, 0, 0, 0], [2, 0, 1, 0, 0, 0, 0, 0], [0, 3, 0, 0, 0, 0, 0, 0], [0] * 8
    base = [[["def ", B], ["compute", R], ["(x, y):", P]],
            [["    ", P], ["return", B], [" ", P], ["x", G], [" + ", P], ["y", G], ["  # sum", R]],
            [["", P], ["print", B], ["(", P], ["'total'", R], [", ", P], ["compute", R], ["(1, 2))", P]]]
    for _ in range(count):
        w = rng.choice([24, 27, 30])
        lines = [[list(r) for r in ln] for ln in base]
        ops = [["render", "list", [["fs", [[t, list(a)] for t, a in ln]] for ln in lines], [0, 0]]]
        for _ in range(rng.randint(2, 5)):
            i = rng.randrange(len(lines))
            j = rng.choice([k for k, (t, _) in enumerate(lines[i]) if t])
            t, a = lines[i][j]
            if rng.random() < 0.6 and len(t) > 0:
                k = rng.choice([len(t) - 1, len(t) - 1, rng.randrange(len(t))])
                lines[i][j] = [t[:k] + t[k + 1:], a]                      # delete one character (often the last)
            else:
                k = rng.randint(0, len(t))
                lines[i][j] = [t[:k] + rng.choice("xyz_1") + t[k:], a]     # type one
            ops.append(["render", rng.choice(["list", "list", "fsarray"]),
                        [["fs", [[t2, list(a2)] for t2, a2 in ln]] for ln in lines], [rng.randrange(3), rng.randrange(w)]])
        yield {"hide": rng.random() < 0.5, "h": 3, "w": w, "ops": ops}


def generate(rng, tier):
    _TIER[0] = tier
    yield from edit_histories(rng, 60 if tier == "thorough" else 12)
    n = 6000 if tier == "thorough" else 500
    for _ in range(n):
        yield rand_history(rng)


def build_row(row, prev):
    if row[0] == "str":
        return row[1]
    if row[0] == "fs":
        return canon.build_fs(row[1])
    old = prev[row[1]] if row[1] < len(prev) else ""
    if row[0] == "same":
        return old
    return getattr(fmtfuncs, row[2])(old)


def _from_text(w, rows):
    return w.array_from_text("\n".join(r if isinstance(r, str) else r.s for r in rows))


def canon_row(obj):
    return [[obj, [0] * 8]] if isinstance(obj, str) else canon.canon_fs(obj)


def pyte_second_opinion(inp, res):
    """thorough tier: replay the same bytes in the vendored pyte emulator and compare its screen with the
    expected one after every render (second opinion on the reference terminal model; informational)"""
    import pyte
    h, w = inp["h"], inp["w"]
    scr = pyte.Screen(w, h)
    stream = pyte.Stream(scr)
    stream.feed(res["enter"])
    k = 0
    verdict = "agree"
    for op in inp["ops"]:
        if op[0] == "resize":
            h, w = op[1], op[2]
            scr.resize(h, w)
            scr.reset()
            for r, row in enumerate(op[3]):
                for c, (ch, st) in enumerate(row):
                    scr.buffer[r][c] = scr.buffer[r][c]._replace(data=ch, fg="red" if st[0] else "default")
            scr.cursor.y, scr.cursor.x = op[4], op[5]
            continue
        if k >= len(res["renders"]) or k >= len(res["arrays"]):
            return "incomplete"
        stream.feed(res["renders"][k])
        rows = res["arrays"][k]
        k += 1
        for r in range(h):
            want = "".join(t for t, _ in rows[r])[:w] if r < len(rows) else ""
            got = "".join(scr.buffer[r][c].data for c in range(w))
            if got.rstrip(" ") != want.rstrip(" ") or (len(want) > len(got)):
                verdict = "DISAGREE"
        if (scr.cursor.y, min(scr.cursor.x, w - 1)) != tuple(op[3]):
            verdict = "DISAGREE"
    return verdict


def run(inp):
    out = _run(inp)
    if _TIER[0] == "thorough" and out["error"] is None:
        try:
            out["pyte"] = pyte_second_opinion(inp, out)
        except Exception as e:  # noqa
            out["pyte"] = "error:%s" % type(e).__name__
    return out


def _run(inp):
    _SIZE[0], _SIZE[1] = inp["h"], inp["w"]
    out = io.StringIO()
    pos = 0
    res = {"enter": None, "renders": [], "arrays": [], "exit": None, "error": None}
    prev = []

    def take():
        nonlocal pos
        s = out.getvalue()[pos:]
        pos += len(s)
        return s

    try:
        w = FullscreenWindow(out_stream=out, hide_cursor=inp["hide"])
        with w:
            res["enter"] = take()
            keep = None
            early = None
            for k, op in enumerate(inp["ops"]):
                if op[0] == "resize":
                    nxt = inp["ops"][k + 1] if k + 1 < len(inp["ops"]) else None
                    if nxt is not None and nxt[0] == "render" and nxt[1] == "from_text_early":
                        early = _from_text(w, [build_row(r, prev) for r in nxt[2]])
                    _SIZE[0], _SIZE[1] = op[1], op[2]
                    continue
                rows = [build_row(r, prev) for r in op[2]]
                prev = rows
                if op[1] in ("from_text", "from_text_early"):
                    # the window's own array_from_text(): the text of the rows, laid out for the terminal size of the
                    # moment ("early": of the moment before the size change that precedes this render)
                    arr = early if op[1] == "from_text_early" and early is not None else _from_text(w, rows)
                    early = None
                    res["arrays"].append([canon_row(r) for r in arr.rows])
                else:
                    res["arrays"].append([canon_row(r) for r in rows])
                if op[1] in ("from_text", "from_text_early"):
                    pass
                elif op[1] == "inplace" and isinstance(keep, FSArray) and len(keep.rows) == len(rows):
                    # the application keeps ONE array object across frames, changes rows of it and renders it again
                    arr = keep
                    for i, r in enumerate(rows):
                        arr[i] = r if isinstance(r, FmtStr) else fmtstr(r)
                elif op[1] == "inplace" and isinstance(keep, list) and keep is not None and rows:
                    arr = keep
                    arr[:] = rows                      # the same list object, edited in place
                elif op[1] == "fsarray":
                    arr = fsarray(rows)
                elif op[1] == "fsarray_rowassign":
                    # an FSArray no wider than the terminal whose rows were stored by integer-index assignment
                    # (a[i] = row keeps the row as it is): rows may be longer than the array's own width
                    arr = FSArray(len(rows), min([_SIZE[1]] + [max(len(r) for r in rows)] if rows else [0]))
                    for i, r in enumerate(rows):
                        arr[i] = r if isinstance(r, FmtStr) else fmtstr(r)
                else:
                    arr = rows if op[1] != "inplace" else (list(rows) if len(rows) % 2 else
                                                           FSArray(len(rows), min([_SIZE[1]] + [max(len(r) for r in rows)] if rows else [0])))
                    if isinstance(arr, FSArray):
                        for i, r in enumerate(rows):
                            arr[i] = r if isinstance(r, FmtStr) else fmtstr(r)
                keep = arr
                try:
                    w.render_to_terminal(arr, tuple(op[3]))
                    res["renders"].append(take())
                except Exception as e:  # recorded: the Coq side then sees an unusable trace
                    take()
                    res["renders"].append("\x1b!render raised %s: %s" % (type(e).__name__, e))
        res["exit"] = take()
    except Exception as e:
        res["error"] = "%s: %s" % (type(e).__name__, e)
    return res


def _cmds(s):
    try:
        return termref.coq_cmds(termref.tokenize(s))
    except termref.UnknownSequence:
        return "[Str [27]]"  # makes exec fail => reported


def to_coq(inp, out):
    ops = []
    k = 0
    for op in inp["ops"]:
        if op[0] == "resize":
            junk = "[" + "; ".join(coq_cells([(ch, tuple(st)) for ch, st in row]) for row in op[3]) + "]"
            ops.append("Resize %d %d %s %d %d %s" % (op[1], op[2], junk, op[4], op[5], coq_bool(op[6])))
        else:
            impl = out["renders"][k] if k < len(out["renders"]) else "\x1b!"
            rows = out["arrays"][k] if k < len(out["arrays"]) else []
            k += 1
            arr = "[" + "; ".join(coq_fs(r) for r in rows) + "]"
            ops.append("Render %s %d %d %s" % (arr, op[3][0], op[3][1], _cmds(impl)))
    enter = _cmds(out["enter"]) if out["enter"] is not None else "[Str [27]]"
    return "(%s, (%d%%nat, %d%%nat), %s, [%s])" % (coq_bool(inp["hide"]), inp["h"], inp["w"], enter, "; ".join(ops))


def to_json_input(inp):
    return inp


def to_json_output(out):
    return out


def from_json(obj):
    return obj


def key(inp):
    return repr(inp)


def nontrivial(inp, out):
    return len(inp["ops"]) >= 2


def stats(inp, out):
    if "pyte" in out:
        yield "pyte:" + out["pyte"]
    yield "size=%dx%d" % (inp["h"], inp["w"])
    yield "ops=%d" % len(inp["ops"])
    yield "hide=%s" % inp["hide"]
    h, w = inp["h"], inp["w"]
    for op in inp["ops"]:
        if op[0] == "resize":
            yield "op:resize"
            h, w = op[1], op[2]
        else:
            yield "op:render:%s" % op[1]
            n = len(op[2])
            yield "array_height:%s" % ("0" if n == 0 else "<h" if n < h else "=h" if n == h else ">h")
            for r in op[2]:
                if r[0] in ("same", "restyle"):
                    yield "row:" + r[0]
                    continue
                ln = len(r[1]) if r[0] == "str" else sum(len(s) for s, _ in r[1])
                yield "row_len:%s" % ("0" if ln == 0 else "<w" if ln < w else "=w" if ln == w else ">w")


def shrink(inp):
    ops = inp["ops"]
    for i in range(len(ops)):
        yield dict(inp, ops=ops[:i] + ops[i + 1:])
    for i, op in enumerate(ops):
        if op[0] == "render":
            rows = op[2]
            for j in range(len(rows)):
                yield dict(inp, ops=ops[:i] + [[op[0], op[1], rows[:j] + rows[j + 1:], op[3]]] + ops[i + 1:])
            for j, r in enumerate(rows):
                if r[0] == "fs":
                    plain = ["str", "".join(s for s, _ in r[1])]
                    yield dict(inp, ops=ops[:i] + [[op[0], op[1], rows[:j] + [plain] + rows[j + 1:], op[3]]] + ops[i + 1:])
            if op[1] != "list":
                yield dict(inp, ops=ops[:i] + [[op[0], "list", rows, op[3]]] + ops[i + 1:])
