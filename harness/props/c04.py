"""C04 -- FSArray region assignment composites exactly the assigned block."""
import canon
from canon import coq_fs, coq_str, coq_atts, coq_bool
from curtsies.formatstring import FmtStr
from curtsies.formatstringarray import FSArray, fsarray

ID = "C04"
LEVEL = "proof"
PROPS_FILE = "Props/C04.v"
CORR_VO = "Corr/C04.vo"
REQUIRE = "From Curtsies Require Import Model.Base Model.Slice Model.FSArray Corr.C04.\nImport C04."
CASE_TYPE = "C04.case"
MODEL_OK = "C04.model_ok"
SPEC_OK = "C04.spec_ok"
SHARD = 250
EXHAUSTIVE = {"quick": False, "thorough": False}
RULE = ("random histories of 1-5 operations on arrays of every shape 0-3 rows x 0-4 columns, built by FSArray(h, w[, "
        "formatting]) or fsarray(strings[, width][, formatting]): region assignments a[r0:r1, c0:c1] = block and "
        "a[r, c] = ... with regions inside, straddling and beyond the current height, column ranges up to and past the "
        "width, blocks given as lists of str/FmtStr, as FSArray or as a plain str, with the right and a wrong number of "
        "rows, rows shorter than / equal to / longer than the region and empty rows; reads a[r0:r1, c0:c1], a[r, c], "
        "a[r] after every step. Observation: per-cell grid derived from a.rows after every operation, raised or not. "
        "non-trivial = at least one assignment to a non-empty region; distinct = distinct history")
TRUSTED = [
    "Coq 8.16.1 kernel incl. vm_compute; Print Assumptions: closed under the global context",
    "reference grid operations coq/Spec/Grid.v (pad, blit, grow) and coq/Spec/ListOps.v",
    "harness canonicaliser (FSArray.rows -> runs -> Coq literal), parser of coqc's answer",
    "modelled, not verified: Python list slicing/zip/extend semantics, sys.maxsize, exception classes are compared "
    "only as raised / not raised",
]
ASSUMPTIONS = ["row ranges have explicit bounds (an open-ended row slice makes __setitem__ extend towards sys.maxsize rows: "
               "outside the property's quantifier, skipped upstream as test_oomerror)",
               "text free of ESC; a[i] = value (whole-row assignment without checks) is outside the quantifier",
               "a row longer than its region that only spills into blank cells inside the width is accepted by the code; "
               "the property leaves it open: only the width invariant is required there"]
LEVEL_TEXT = ("Machine-checked theorems (Coq) for the model of FSArray.__setitem__/__getitem__/fsarray over the proved "
              "splice/setslice models: width invariant for every history; a well-formed block makes the grid equal the "
              "blit of the grown grid; an error leaves every old cell unchanged; tied to the code by comparing model, "
              "specification and the real FSArray after every step of random histories inside Coq")
LEVEL_NOTE = ("Trusted: Coq kernel, Spec/Grid.v + Spec/ListOps.v, canonicaliser. Modelled: list/zip/slice semantics; "
              "exception classes abstracted to raised/not raised")
TECHNIQUE = "Coq proofs over the row-level splice theorem (C09) lifted to grids; invariant over histories; in-Coq differential correspondence"

TXT = "abcxyz.#"


def rand_row(rng, n):
    """a row value of exactly n characters: ["s", text] or ["f", runs]"""
    if rng.random() < 0.45:
        return ["s", "".join(rng.choice(TXT) for _ in range(n))]
    runs = []
    left = n
    while left > 0:
        k = rng.randint(1, left)
        runs.append(["".join(rng.choice(TXT) for _ in range(k)), list(canon.rand_atts(rng))])
        left -= k
    if not runs or rng.random() < 0.15:
        runs.insert(rng.randint(0, len(runs)), ["", list(canon.rand_atts(rng))])
    return ["f", runs]


def rand_fill(rng):
    if rng.random() < 0.6:
        return [0] * 8
    return list(canon.rand_atts(rng, allow_false=False))


def rand_index(rng, lo, hi, allow_none=False):
    """an index over [lo, hi]: ["i", n] or ["s", a, b]"""
    r = rng.random()
    if r < 0.2:
        return ["i", rng.randint(lo, hi)]
    a = rng.randint(lo, hi)
    b = rng.randint(a, min(hi + 1, a + 3))
    if allow_none and rng.random() < 0.15:
        return ["s", None if rng.random() < 0.5 else a, None if rng.random() < 0.6 else b]
    return ["s", a, b]


def idx_size(ix):
    return 1 if ix[0] == "i" else (ix[2] - ix[1] if ix[1] is not None and ix[2] is not None else None)


def rand_history(rng):
    h = rng.randint(0, 3)
    w = rng.randint(0, 4)
    fill = rand_fill(rng)
    if rng.random() < 0.3:
        strings = [rand_row(rng, rng.randint(0, 4)) for _ in range(h)]
        width = rng.choice([None, None, w, max([len(s[1]) if s[0] == "s" else sum(len(t) for t, _ in s[1])
                                                 for s in strings] + [0])])
        init = ["arr", strings, width, fill]
        if width is None:
            w = max([len(s[1]) if s[0] == "s" else sum(len(t) for t, _ in s[1]) for s in strings] + [0])
        else:
            w = width
    else:
        init = ["new", h, w, fill]
    ops = []
    height = h
    for _ in range(rng.randint(1, 5)):
        r = rng.random()
        if r < 0.7:
            ri = rand_index(rng, 0, height + 2)
            ci = rand_index(rng, 0, w + 1, allow_none=True)
            nrows = idx_size(ri)
            width_r = idx_size(ci)
            if width_r is None:
                width_r = max(0, w - (ci[1] or 0))
            k = rng.random()
            count = nrows if k < 0.8 else max(0, nrows + rng.choice([-1, 1]))
            rows = []
            for _ in range(count):
                ln = rng.choice([0, max(0, width_r - 1), width_r, width_r, width_r, width_r + 1, width_r + 2])
                rows.append(rand_row(rng, ln))
            kind = rng.random()
            own = rng.random()
            if own < 0.08 and ri[0] == "s" and ri[2] <= height:
                # the block is made of the array's OWN row objects, at the very positions they are assigned to
                val = ["own", ri[1], ri[2]]
            elif own < 0.12 and ((ri[0] == "i" and ri[1] < height) or (ri[0] == "s" and ri[2] <= height)):
                # the array itself as the block (only where the assignment cannot grow it: the value would
                # change under the assignment's own row extension)
                val = ["self"]
            elif kind < 0.04:
                val = ["str", rng.choice(TXT) if rng.random() < 0.7 else "xy"]      # a str for any region (mostly an error)
            elif ri[0] == "i" and ci[0] == "i" and kind < 0.3:
                val = ["str", rng.choice(TXT) if rng.random() < 0.8 else "xy"]
            elif kind < 0.15 and rows:
                val = ["fsarray", rows]
            else:
                val = ["rows", rows]
            ops.append(["set", ri, ci, val])
            height = max(height, (ri[1] + 1) if ri[0] == "i" else ri[2])
        elif r < 0.9:
            ops.append(["get", rand_index(rng, 0, height + 1, allow_none=True), rand_index(rng, 0, w, allow_none=True)])
        else:
            ops.append(["getrow", rng.randint(0, height + 1)])
    return {"init": init, "ops": ops}


def wide_histories():
    """arrays a few hundred columns wide: paddings far longer than anything in the small shapes"""
    Z = [0] * 8
    B = [0, 5, 0, 0, 0, 0, 0, 0]
    yield {"init": ["new", 2, 300, Z], "ops": [["set", ["s", 0, 1], ["s", 280, 290], ["rows", [["s", "abcdefghij"]]]],
                                              ["get", ["s", 0, 2], ["s", 270, 300]],
                                              ["set", ["s", 1, 2], ["s", 299, 300], ["rows", [["f", [["Q", B]]]]]],
                                              ["getrow", 1]]}
    yield {"init": ["new", 1, 400, B], "ops": [["set", ["s", 0, 1], ["s", 390, 400], ["rows", [["s", "0123456789"]]]],
                                              ["set", ["s", 0, 1], ["s", 0, 300], ["rows", [["f", [["xy", B]]]]]],
                                              ["get", ["s", 0, 1], ["s", 0, 400]],
                                              ["set", ["s", 0, 2], ["s", 257, 258], ["rows", [["s", "k"], ["s", ""]]]]]}
    yield {"init": ["arr", [["s", "a" * 270], ["f", [["b" * 10, B]]]], None, Z],
           "ops": [["set", ["s", 1, 2], ["s", 268, 270], ["rows", [["s", "zz"]]]], ["get", ["s", 0, 2], ["s", 260, None]]]}


def generate(rng, tier):
    yield from wide_histories()
    n = 30000 if tier == "thorough" else 2500
    for _ in range(n):
        yield rand_history(rng)


def build_val(r):
    return r[1] if r[0] == "s" else canon.build_fs(r[1])


def py_index(ix):
    return ix[1] if ix[0] == "i" else slice(ix[1], ix[2])


def snapshot(a):
    rows = []
    for r in a.rows:
        if not isinstance(r, FmtStr):
            raise canon.Unrepresentable("row of type %s" % type(r).__name__)
        rows.append(canon.canon_fs(r))
    return rows


def shape_ok(a):
    try:
        return a.height == len(a.rows) == len(a) and a.width == a.num_columns and tuple(a.shape) == (len(a.rows), a.num_columns)
    except Exception:  # noqa
        return False


def run(inp):
    init = inp["init"]
    out = {"init": None, "steps": []}
    try:
        kw = canon.atts_dict(tuple(init[3]))
        pos = []
        if (init[3][0] + init[3][1] + len(inp["ops"])) % 2:
            # the same formatting spelt positionally: colour names and style names instead of keywords
            if "fg" in kw:
                pos.append(canon.COLORS[kw.pop("fg") - 30])
            if "bg" in kw:
                pos.append("on_" + canon.COLORS[kw.pop("bg") - 40])
            for st in canon.STYLES:
                if kw.get(st) is True:
                    pos.append(st)
                    del kw[st]
        if init[0] == "new":
            a = FSArray(init[1], init[2], *pos, **kw)
        else:
            args = [[build_val(s) for s in init[1]]]
            if init[2] is not None:
                a = fsarray(args[0], init[2], *pos, **kw)
            else:
                a = fsarray(args[0], None, *pos, **kw) if pos else fsarray(args[0], **kw)
        out["init"] = ["ok", snapshot(a), a.num_columns] if shape_ok(a) else ["raise", "OtherError"]
    except Exception as e:
        out["init"] = ["raise", canon.exn_name(e)]
        return out
    for op in inp["ops"]:
        if op[0] == "set":
            v = op[3]
            used = None
            if v[0] == "own":
                val = a[v[1]:v[2]]
                used = [canon.canon_fs(r) for r in val]
            elif v[0] == "self":
                val = a
                used = snapshot(a)
            elif v[0] == "str":
                val = v[1]
            elif v[0] == "fsarray":
                val = fsarray([build_val(r) for r in v[1]])
            else:
                val = [build_val(r) for r in v[1]]
            raised = None
            try:
                if op[2] == ["s", None, None] and op[1][0] == "s" and op[3][0] != "str" and (len(inp["ops"]) + op[1][1]) % 2:
                    a[py_index(op[1])] = val            # the one-dimensional form of the same assignment
                else:
                    a[py_index(op[1]), py_index(op[2])] = val
            except Exception as e:
                raised = canon.exn_name(e) + ": " + str(e)[:60]
            out["steps"].append(["set", raised, snapshot(a)] + ([used] if used is not None else []))
            if not shape_ok(a):
                out["steps"][-1][1] = "OtherError: height / width / shape / len disagree with the rows"
        elif op[0] == "get":
            out["steps"].append(["get"] + canon.outcome(lambda: a[py_index(op[1]), py_index(op[2])],
                                                        lambda rows: [canon.canon_fs(r) for r in rows]))
        else:
            out["steps"].append(["getrow"] + canon.outcome(lambda: a[op[1]], canon.canon_fs))
    return out


def coq_index(ix):
    if ix[0] == "i":
        return "(Idx %s)" % canon.coq_z(ix[1])
    f = lambda x: "None" if x is None else "(Some %s)" % canon.coq_z(x)
    return "(Slice %s %s None)" % (f(ix[1]), f(ix[2]))


def coq_operand(r):
    return "OStr %s" % coq_str(r[1]) if r[0] == "s" else "OFmt %s" % coq_fs(r[1])


def coq_rows(rows):
    return "[" + "; ".join(coq_fs(r) for r in rows) + "]"


def to_coq(inp, out):
    init = inp["init"]
    if init[0] == "new":
        ci = "New %d%%nat %s %s" % (init[1], canon.coq_z(init[2]), coq_atts(init[3]))
    else:
        ci = "Arr [%s] %s %s" % ("; ".join(coq_operand(s) for s in init[1]),
                                 "None" if init[2] is None else "(Some %s)" % canon.coq_z(init[2]), coq_atts(init[3]))
    o = out["init"]
    co = "(Ok (%s, %s))" % (coq_rows(o[1]), canon.coq_z(o[2])) if o[0] == "ok" else "(Raise %s)" % o[1]
    ops = []
    for op, st in zip(inp["ops"], out["steps"]):
        if op[0] == "set":
            v = op[3]
            if v[0] == "str":
                cv = "(VStr %s)" % coq_str(v[1])
            elif v[0] in ("own", "self"):
                cv = "(VRows [%s])" % "; ".join(coq_operand(["f", r]) for r in st[3])
            else:
                # an FSArray value iterates as its rows (FmtStrs); fsarray() of str rows makes unformatted FmtStrs
                rows = v[1] if v[0] == "rows" else [["f", [[r[1], [0] * 8]]] if r[0] == "s" else r for r in v[1]]
                cv = "(VRows [%s])" % "; ".join(coq_operand(r) for r in rows)
            ops.append("OSet %s %s %s %s %s" % (coq_index(op[1]), coq_index(op[2]), cv, coq_bool(st[1] is not None),
                                                 coq_rows(st[2])))
        elif op[0] == "get":
            res = "(Ok %s)" % coq_rows(st[2]) if st[1] == "ok" else "(Raise %s)" % st[2]
            ops.append("OGet %s %s %s" % (coq_index(op[1]), coq_index(op[2]), res))
        else:
            res = "(Ok %s)" % coq_fs(st[2]) if st[1] == "ok" else "(Raise %s)" % st[2]
            ops.append("OGetRow %s %s" % (canon.coq_z(op[1]), res))
    return "(%s, %s, [%s])" % (ci, co, "; ".join(ops))


def to_json_input(inp):
    return inp


def to_json_output(out):
    return out


def from_json(obj):
    return obj


def key(inp):
    return repr(inp)


def nontrivial(inp, out):
    return any(op[0] == "set" and idx_size(op[1]) and idx_size(op[2]) != 0 for op in inp["ops"])


def stats(inp, out):
    yield "init=" + inp["init"][0]
    yield "ops=%d" % len(inp["ops"])
    for op, st in zip(inp["ops"], out["steps"]):
        if op[0] == "set":
            yield "set:%s:%s" % (op[3][0], "raised" if st[1] is not None else "ok")
            if st[1] is not None:
                yield "raise:" + st[1].split(":")[0]
        else:
            yield "%s:%s" % (op[0], st[1])


def shrink(inp):
    ops = inp["ops"]
    for i in range(len(ops)):
        yield dict(inp, ops=ops[:i] + ops[i + 1:])
    for i, op in enumerate(ops):
        if op[0] == "set" and op[3][0] not in ("str", "own", "self"):
            rows = op[3][1]
            for j, r in enumerate(rows):
                if r[0] == "f":
                    plain = ["s", "".join(s for s, _ in r[1])]
                    yield dict(inp, ops=ops[:i] + [[op[0], op[1], op[2], [op[3][0], rows[:j] + [plain] + rows[j + 1:]]]] + ops[i + 1:])
    if inp["init"][0] == "new" and any(inp["init"][3]):
        yield dict(inp, init=["new", inp["init"][1], inp["init"][2], [0] * 8])
