"""C20 -- key naming modes and config-file key names are mutually consistent."""
import json
import os
import sys

from curtsies import events
from curtsies.configfile_keynames import keymap, SPECIALS

from canon import coq_bytes, coq_list, coq_str, exn_name
from props import c03

ID = "C20"
LEVEL = "proof"
PROPS_FILE = "Props/C20.v"
EXTRA_PROPS = ("Props/C20Tie.v",)
CORR_VO = "Corr/C20.vo"
REQUIRE = "From Curtsies Require Import Model.Base Model.Utf8 Model.Keys Corr.C20."
CASE_TYPE = "C20.case"
MODEL_OK = "C20.model_ok"
SPEC_OK = "C20.spec_ok"
SHARD = 1200
EXHAUSTIVE = {"quick": False, "thorough": False}
RULE = ("(a) events.get_key in the three naming modes side by side on the decoder's one-step tree (pending in {empty} + "
        "KEYMAP_PREFIXES x every byte x 3 encodings x full/not full; thorough: all, quick: every 8th node from a seeded "
        "offset), on every entry of both tables and on random byte strings up to MAX_KEYPRESS_SIZE+1; (b) whole buffers "
        "(random bytes, random token streams, table x table samples) decoded by a real Input in the three modes: same "
        "cuts, bytes naming = the bytes, names are that mode's names; (c) keymap[name] for EVERY valid configuration "
        "name (C-a..C-z, M-<each printable non-space ASCII character>, F1..F12, every key of SPECIALS), the unbound key "
        "'' and a catalogue of malformed names; (d) both key tables as a fresh interpreter builds them under 15 other values "
        "of TERM (rxvt, screen, tmux, linux, vt100, dumb, unset, ...): the same tables as the ones the theorems are about, and "
        "every curses-named sequence has a curtsies name. non-trivial = non-empty input; distinct = distinct input")
GENERATORS = ("gen/gen_pure.py",)
PURE_HELPERS = ('_key_name',)
TRUSTED = [
    "translator gen/gen_pure.py (dumps the Python AST of _key_name / get_key node by node into coq/Gen/Pure.v), the reference "
    "semantics of that Python subset coq/Spec/PyMini.v and the module context coq/Spec/PyEnv.v (oracle: bytes.decode = the codec "
    "model), run against CPython on enumerated arguments in every check",
    "Coq 8.16.1 kernel incl. vm_compute (no native_compute); Print Assumptions: closed under the global context",
    "translator gen/gen_tables.py (CURTSIES_NAMES, CURSES_NAMES, KEYMAP_PREFIXES, MAX_KEYPRESS_SIZE, SPECIALS of the live modules)",
    "reference notions coq/Spec/KeySpec.v (shape, name_ok, reachable, valid_config_names, config_ok)",
    "codec model coq/Model/Utf8.v (validated by C03's correspondence)",
    "harness canonicaliser and the parser of coqc's answer",
    "modelled, not verified: str slicing key[:2]/key[2:], str.isdigit()/int() for ASCII digits, '%d' formatting",
]
ASSUMPTIONS = [
    "valid configuration names as read from the property: C-<lowercase letter>, M-<printable non-space ASCII character>, "
    "F1..F12, the keys of SPECIALS; uppercase C-A and M-<space> are outside the quantifier",
    "malformed names use ASCII digits only after 'F' (str.isdigit() also accepts other Unicode digits, on some of which "
    "int() raises ValueError; not modelled)",
    "encodings utf-8, ascii, latin-1",
]

ENCS = c03.ENCS
COQ_ENC = c03.COQ_ENC
MODES = c03.MODES

VALID = (["C-%s" % chr(c) for c in range(ord("a"), ord("z") + 1)]
         + ["M-%s" % chr(c) for c in range(0x21, 0x7F)]
         + ["F%d" % n for n in range(1, 13)]
         + sorted(SPECIALS))
CATALOGUE = ["x", "C", "M", "F", "C-", "M-", "-", "--", "C-A", "C-Z", "C-1", "C-ab", "C- ", "M- ", "M-ab", "M-é",
             "C-é", "X-a", "c-a", "m-a", "f1", "F0", "F00", "F01", "F012", "F13", "F99", "F123456789012345678901",
             "Fx", "F1a", "F-1", "F+1", "F 1", " F1", "F1 ", "F1_0", "FF1", "F.5", "C-[", "C-^", "C-_", "C-i", "C-?",
             "C-\\", "C-]", "C-@", "M-\x7f", "M-\x1b", "\x1b", "<F1>", "<Ctrl-a>", "KEY_F(1)", "C-M-a", "M-C-a", "S-a",
             "C‐a", "é", "F\n1", "C-\n"]


def _get3(enc, full, s):
    bs = [bytes([b]) for b in s]
    return [c03._outcome(lambda m=m: events.get_key(bs, enc, keynames=m, full=full)) for m in MODES]


def run(inp):
    kind = inp[0]
    if kind == "modes":
        return _get3(inp[1], inp[2], inp[3])
    if kind == "stream":
        return [c03.decode_stream(inp[1], m, list(inp[2])) for m in MODES]
    if kind == "keymap":
        try:
            v = keymap[inp[1]]
        except Exception as e:  # noqa
            return ["raise", exn_name(e)]
        if not isinstance(v, tuple) or not all(isinstance(x, str) for x in v):
            return ["raise", "OtherError"]
        return ["ok", list(v)]
    if kind == "tables":
        return _tables_under(inp[1])
    raise ValueError(kind)


TERMS = ["rxvt", "rxvt-unicode-256color", "screen", "screen-256color", "tmux-256color", "linux", "vt100", "xterm",
         "xterm-kitty", "alacritty", "Eterm", "cygwin", "ansi", "dumb", ""]
_DUMP = ("import json, curtsies.events as e\n"
         "t = lambda d: sorted([list(k), v] for k, v in d.items())\n"
         "print(json.dumps([t(e.CURTSIES_NAMES), t(e.CURSES_NAMES)]))\n")


def _tables_under(term):
    """both key tables as a fresh interpreter started with TERM=term (unset for "") builds them"""
    import subprocess
    env = dict(os.environ, PYTHONPATH=os.environ.get("CURTSIES_REPO", "/repo"))
    env.pop("TERM", None)
    if term:
        env["TERM"] = term
    r = subprocess.run([sys.executable, "-c", _DUMP], env=env, capture_output=True, text=True, timeout=120)
    if r.returncode != 0:
        return ["raise", "OtherError"]
    return ["ok"] + json.loads(r.stdout.strip().splitlines()[-1])


def _coq_table(rows):
    return coq_list(["(%s, %s)" % (coq_bytes(k), coq_str(v)) for k, v in rows])


def to_coq(inp, out):
    kind = inp[0]
    if kind == "tables":
        if out[0] != "ok":           # the library does not even import under this TERM
            return "C20.CTables %s [] []" % coq_str(inp[1])
        return "C20.CTables %s %s %s" % (coq_str(inp[1]), _coq_table(out[1]), _coq_table(out[2]))
    if kind == "modes":
        return "C20.CModes %s %s %s (%s) (%s) (%s)" % (
            COQ_ENC[inp[1]], "true" if inp[2] else "false", coq_bytes(inp[3]),
            c03.coq_outcome(out[0]), c03.coq_outcome(out[1]), c03.coq_outcome(out[2]))
    if kind == "stream":
        return "C20.CStreamModes %s %s (%s, %s, %s)" % (
            COQ_ENC[inp[1]], coq_bytes(inp[2]),
            c03.coq_keys_res(out[0]), c03.coq_keys_res(out[1]), c03.coq_keys_res(out[2]))
    if kind == "keymap":
        r = "(Ok %s)" % coq_list([coq_str(x) for x in out[1]]) if out[0] == "ok" else "(Raise %s)" % out[1]
        return "C20.CKeymap %s %s" % (coq_str(inp[1]), r)
    raise ValueError(kind)


def to_json_input(inp):
    if inp[0] == "modes":
        return {"kind": "modes", "enc": inp[1], "full": inp[2], "bytes": list(inp[3])}
    if inp[0] == "stream":
        return {"kind": "stream", "enc": inp[1], "bytes": list(inp[2])}
    if inp[0] == "tables":
        return {"kind": "tables", "TERM": inp[1]}
    return {"kind": "keymap", "name": inp[1]}


def to_json_output(out):
    return out


def from_json(obj):
    if obj["kind"] == "modes":
        return ("modes", obj["enc"], bool(obj["full"]), tuple(obj["bytes"]))
    if obj["kind"] == "stream":
        return ("stream", obj["enc"], tuple(obj["bytes"]))
    if obj["kind"] == "tables":
        return ("tables", obj["TERM"])
    return ("keymap", obj["name"])


def key(inp):
    return repr(inp)


def nontrivial(inp, out):
    return inp[0] == "tables" or len(inp[-1]) > 0


def generate(rng, tier):
    thorough = tier == "thorough"
    # (d) the tables themselves, as built under other terminal types
    for t in TERMS:
        yield ("tables", t)
    # (c) config names: always all of them
    yield ("keymap", "")
    for n in VALID:
        yield ("keymap", n)
    for n in CATALOGUE:
        yield ("keymap", n)
    for _ in range(2000 if thorough else 300):
        n = rng.choice([1, 2, 3, 3, 4, 5])
        alphabet = "CMF-" + "abcxyzAZ019 [^_i!~" + "é"
        yield ("keymap", "".join(rng.choice(alphabet) for _ in range(n)))
    # (a) the three modes side by side
    nodes = [(), ] + [tuple(p) for p in c03.PREFIXES]
    tree = [("modes", enc, full, p + (b,)) for p in nodes for b in range(256) for enc in ENCS for full in (False, True)]
    if thorough:
        yield from tree
    else:
        off = rng.randrange(8)
        yield from tree[off::8]
    for k in c03.TABLE_KEYS:
        for enc in ENCS:
            for full in (False, True):
                yield ("modes", enc, full, tuple(k))
    for _ in range(20000 if thorough else 1500):
        n = rng.choice([1, 2, 2, 3, 3, 4, 5, 6, 7, 8])
        r = rng.random()
        if r < 0.4:
            s = tuple(rng.randrange(256) for _ in range(n))
        elif r < 0.7:
            s = (27,) + tuple(rng.choice([27, 79, 91, 49, 50, 53, 59, 65, 126, rng.randrange(256)]) for _ in range(n - 1))
        else:
            s = c03._char_bytes(rng, "utf-8") + tuple(rng.randrange(256) for _ in range(rng.choice([0, 0, 1])))
        yield ("modes", rng.choice(ENCS), rng.random() < 0.5, s)
    # (b) whole buffers
    for _ in range(20000 if thorough else 1200):
        enc = rng.choice(ENCS)
        r = rng.random()
        if r < 0.35:
            buf = tuple(rng.randrange(256) for _ in range(rng.choice([1, 2, 3, 5, 8, 12])))
        elif r < 0.7:
            st = c03._rand_stream(rng, enc)
            buf = tuple(b for t in st[2] for b in t)
        else:
            buf = tuple(rng.choice(c03.TABLE_KEYS)) + tuple(rng.choice(c03.TABLE_KEYS))
        yield ("stream", enc, buf)


def stats(inp, out):
    yield "kind=%s" % inp[0]
    if inp[0] == "tables":
        yield "tables:TERM=%s" % (inp[1] or "(unset)")
        return
    if inp[0] == "keymap":
        yield "keymap:%s" % ("valid" if inp[1] in VALID else "unbound" if inp[1] == "" else "malformed")
        yield "keymap:->%s" % (("tuple%d" % len(out[1])) if out[0] == "ok" else out[1])
    elif inp[0] == "modes":
        yield "enc=%s" % inp[1]
        yield "modes:%s" % "/".join(o[0] if o[0] != "raise" else o[1] for o in out)
    else:
        yield "enc=%s" % inp[1]
        yield "stream:%s" % (out[2][0] if out[2][0] == "ok" else out[2][1])


def shrink(inp):
    if inp[0] == "keymap":
        n = inp[1]
        for i in range(len(n)):
            yield ("keymap", n[:i] + n[i + 1:])
    elif inp[0] == "tables":
        return
    elif inp[0] == "modes":
        s = inp[3]
        if len(s) > 1:
            yield ("modes", inp[1], inp[2], s[:-1])
            yield ("modes", inp[1], inp[2], s[1:])
    else:
        s = inp[2]
        for i in range(len(s)):
            yield ("stream", inp[1], s[:i] + s[i + 1:])


LEVEL_TEXT = ("Machine-checked theorems (Coq): for ALL byte strings, encodings and both `full` values get_key has the same "
              "shape (key / more / which exception) in the three naming modes -- using the generated-table facts that every "
              "table sequence containing a byte >= 0x80 is a single byte (so _key_name's NotImplementedError is unreachable) "
              "and that every curses-named sequence has a curtsies name -- hence identical cuts (or the same exception) for "
              "ALL buffers by induction; bytes naming returns exactly the consumed bytes; every key is that mode's name of "
              "the consumed bytes; forallb over the regenerated tables: curses keys are curtsies keys, all 136 valid config "
              "names map through the KeyMap model to names carried by table sequences, which the decoder is proved to "
              "report; keymap '' = (). Model tied to the code by in-Coq differential correspondence (three modes side by "
              "side on the one-step tree, all table entries, random strings and buffers; keymap on all valid names and a catalogue)")
LEVEL_NOTE = ("Trusted: Coq kernel+vm_compute, gen_tables.py, Spec/KeySpec.v, codec model Utf8.v, the canonicaliser. "
              "Uppercase C-A and M-<space> are outside the quantifier as read (DESIGN 5/C20); non-ASCII digits after 'F' not modelled")
TECHNIQUE = ("Coq proof: case analysis of the decision cascade + induction over buffers; kernel evaluation (vm_compute) over "
             "generated tables; in-Coq differential correspondence")
