"""C18 -- cursor position query parses the report exactly; movement is conserved."""
import ast
import inspect
import io
import re
import textwrap

import blessed

from curtsies.window import CursorAwareWindow
from curtsies import fmtstr

ID = "C18"
LEVEL = "proof"
PROPS_FILE = "Props/C18.v"
CORR_VO = "Corr/C18.vo"
REQUIRE = "From Curtsies Require Import Model.Base Model.CursorQuery Corr.C18.\nImport C18."
CASE_TYPE = "C18.case"
MODEL_OK = "C18.model_ok"
SPEC_OK = "C18.spec_ok"
EXHAUSTIVE = {"quick": False, "thorough": False}
SHARD = 150

OSERR, EOF, NEST = 2000001, 2000002, 2000003
ESC, LB, CSI8, SEMI, RR = 27, 91, 155, 59, 82

RULE = ("a real CursorAwareWindow (never entered) on a StringIO out_stream and a scripted in_stream whose read(1) "
        "delivers a character, raises OSError, returns '' or first fires a re-entrant get_cursor_vertical_diff; "
        "(a) structured parse cases: extra (fragments a 1 2 ; R ESC [ chr(155) newline e-acute 'ESC[1;' 'ESC[12R' '9;9R' "
        "'ESC[1;2' 'ESC[12' with no complete report) ++ report (7/8-bit CSI, 1-5 digit or 30-digit numbers, leading "
        "zeros) ++ trail, 0-3 OSErrors woven in, callback present/absent; (b) arbitrary fragment streams incl. several "
        "reports, Eof, truncated reports; every stream of length <= 3 (thorough: <= 4) over {a 1 ; R ESC [ 155 OSError} and "
        "(thorough) of length 5-6 over {1 ; R ESC [}, each alone and followed by a 7-bit and an 8-bit report; (c) histories of set/render/diff/direct-query operations on one window "
        "with a shared stream, nested calls fired from inside read(), starting top_usable_row in -3..12 and "
        "_last_cursor_row None or 0..12, terminal heights 1..8, 0..12 array rows; observations after every operation: "
        "return value or exception class, top_usable_row/_last_cursor_row/in_get_cursor_diff/another_sigwinch, "
        "callback arguments, unread items, rows reported; every nested call must return 0 and change nothing but "
        "another_sigwinch; the ESC[6n written per query is counted. non-trivial = a query that returned a position; "
        "distinct = distinct input")
TRUSTED = [
    "Coq 8.16.1 kernel incl. vm_compute (no native_compute); Print Assumptions: closed under the global context",
    "reference notions coq/Spec/CursorSpec.v (report as a list equation, brute-force first_report, diff_relation)",
    "harness driver harness/props/c18.py (scripted stream, recording wrappers on the instance, Coq literal printer)",
    "modelled, not verified: the `re` engine on the one pattern used (hand-translated to Model.CursorQuery.search; the "
    "pattern text and flag are read from the current source and compared in Coq), int(), str +=, blessed's move()",
]
ASSUMPTIONS = [
    "\\d is modelled as ASCII 0-9 only: Python's \\d and int() also accept other Unicode decimal digits; the generator keeps "
    "them out of the streams",
    "int() of more than sys.get_int_max_str_digits() (4300) digits raises ValueError in CPython >= 3.11; the model's int is total",
    "in_stream.encoding can encode every character read (utf-8 here, no lone surrogates); callback arguments compared as text",
    "in_stream.read(1) returns at most one character, raises nothing but OSError; the callback itself does not raise",
    "a nested get_cursor_vertical_diff arriving during a DIRECT get_cursor_position (in_get_cursor_diff False, e.g. in "
    "__enter__) recursively runs a full query on the same stream; this is outside the model (the driver removes nested-call "
    "points before a direct query)",
    "render_to_terminal is modelled only in what it does to top_usable_row/_last_cursor_row (its output is C07)",
]


# ---------------------------------------------------------------------------------
def pattern_source():
    """the pattern and flags that get_cursor_position hands to the re module, OBSERVED while it runs (the re module
    seen by curtsies.window is replaced by a recorder for one scripted query) -- however the source spells or
    builds them; comments, formatting and rewrites around the call do not matter.  A pattern compiled at module
    level would not go through the recorder: such objects are listed too."""
    import curtsies.window as cw

    class Recorder:
        def __init__(self, real):
            self._real = real
            self.calls = []

        def __getattr__(self, name):
            v = getattr(self._real, name)
            if name not in ("search", "match", "fullmatch", "finditer", "findall", "compile"):
                return v

            def f(pattern, *a, **k):
                flags = k.get("flags", 0)
                pos = 0 if name == "compile" else 1
                if len(a) > pos:
                    flags = a[pos]
                pat = pattern if isinstance(pattern, str) else pattern.pattern
                fl = "re.DOTALL" if flags == re.DOTALL else "flags=%d" % int(flags)
                self.calls.append("%s %s" % (pat, fl) if name == "search" else "%s.%s %s" % (name, pat, fl))
                return v(pattern, *a, **k)
            return f

    rec = Recorder(cw.re)
    real = cw.re
    cw.re = rec
    try:
        drive([["pos", True, [ord(c) for c in "\x1b[2;3R"]]])
    finally:
        cw.re = real
    seen = []
    for c in rec.calls:                  # the same call for every character read
        if c not in seen:
            seen.append(c)
    for name, v in sorted(vars(cw).items()):
        if isinstance(v, re.Pattern):
            seen.append("compiled:%s %s flags=%d" % (name, v.pattern, v.flags))
    return "|".join(seen)


class FakeTerm(blessed.Terminal):
    _h = 5
    height = property(lambda self: self._h)
    width = property(lambda self: 10)


class NestedMisbehaved(Exception):
    pass


class Script:
    """scripted in_stream: only read(1) and .encoding"""
    encoding = "utf-8"

    def __init__(self):
        self.items = []
        self.i = 0
        self.w = None
        self.bad_nested = None

    def pending(self):
        return self.items[self.i:]

    def feed(self, items, strip_nest=False):
        p = self.pending() + list(items)
        if strip_nest:
            p = [x for x in p if x != NEST]
        self.items = p
        self.i = 0

    def read(self, n=-1):
        if n != 1:
            raise AssertionError("read(%r)" % (n,))
        while True:
            if self.i >= len(self.items):
                return ""
            it = self.items[self.i]
            self.i += 1
            if it == NEST:
                w = self.w
                before = (w.top_usable_row, w._last_cursor_row, w.in_get_cursor_diff, self.i, len(w._out.getvalue()))
                r = w.get_cursor_vertical_diff()
                after = (w.top_usable_row, w._last_cursor_row, w.in_get_cursor_diff, self.i, len(w._out.getvalue()))
                if r != 0 or before != after or w.another_sigwinch is not True:
                    self.bad_nested = (r, before, after)
                continue
            if it == OSERR:
                raise OSError("scripted")
            if it == EOF:
                return ""
            return chr(it)


def exc_name(e):
    return type(e).__name__


def state(w):
    return [w.top_usable_row, w._last_cursor_row, bool(w.in_get_cursor_diff), bool(w.another_sigwinch)]


def drive(ops):
    out = io.StringIO()
    s = Script()
    # an 8-bit terminal: when every character of the script is below U+0100, every second script runs on a latin-1 stream
    codes = []

    def collect(x):
        if isinstance(x, list):
            for y in x:
                collect(y)
        elif isinstance(x, int) and not isinstance(x, bool) and x >= 0:
            codes.append(x)
    collect([o[2:] for o in ops if o and o[0] in ("pos", "diff")])
    if codes and max(codes) < 256 and sum(codes) % 2 == 1:
        s.encoding = "latin-1"
    cbs = []
    w = CursorAwareWindow(out_stream=out, in_stream=s, extra_bytes_callback=None)
    w._out = out
    w.t.__class__ = FakeTerm
    s.w = w
    w.top_usable_row = 0
    rows = []
    orig = w.get_cursor_position

    def recording():
        r = orig()
        rows.append(r[0])
        return r
    w.get_cursor_position = recording

    def cb(b):
        cbs.append([ord(c) for c in b.decode(s.encoding)])
    obs = []
    for o in ops:
        del cbs[:]
        del rows[:]
        out.seek(0)
        out.truncate()
        s.bad_nested = None
        kind = o[0]
        queries_expected = None
        try:
            if kind == "set":
                w.top_usable_row = o[1]
                w._last_cursor_row = o[2]
                ret = []
            elif kind == "render":
                w.t._h = o[3]
                r = w.render_to_terminal([fmtstr("x")] * o[1], (o[2], 0))
                ms = re.findall(r"\x1b\[(\d+);(\d+)H", out.getvalue())
                rows.append(int(ms[-1][0]) - 1)
                ret = [r]
            elif kind == "diff":
                w.extra_bytes_callback = cb if o[1] else None
                s.feed(o[2])
                ret = [w.get_cursor_vertical_diff()]
            elif kind == "pos":
                w.extra_bytes_callback = cb if o[1] else None
                s.feed(o[2], strip_nest=True)
                ret = list(w.get_cursor_position())
            else:
                raise AssertionError(kind)
        except Exception as e:  # noqa
            ret = ["raise", exc_name(e)]
        if kind in ("diff", "pos"):
            # exactly one ESC[6n per query made, nothing else written
            written = out.getvalue()
            nq = len(rows) + (1 if ret[:1] == ["raise"] else 0)
            if kind == "diff" and ret == [0] and not rows:
                nq = 0
            if written != "\x1b[6n" * nq:
                ret = ["raise", "UnexpectedOutput"]
        if s.bad_nested is not None:
            ret = ["raise", "NestedMisbehaved"]
        obs.append([ret, state(w), len(s.pending()), [list(c) for c in cbs], list(rows)])
    return obs


def run(inp):
    kind = inp[0]
    if kind == "regex":
        return pattern_source()
    if kind == "hist":
        return drive(inp[1])
    if kind == "parse":
        _, cb, extra, csi, rs, cs, pre, trail = inp
        return drive([["pos", cb, pre + trail]])[0]
    raise AssertionError(kind)


# ---- Coq literals -------------------------------------------------------------------
def cz(n):
    return "(%d)%%Z" % n


def clist(xs):
    return "[" + ";".join(xs) + "]"


def cn(xs):
    return "[" + ";".join(str(x) for x in xs) + "]"


def cbool(b):
    return "true" if b else "false"


def copt(v):
    return "None" if v is None else "(Some %s)" % cz(v)


def cobs(ob):
    ret, st, unread, cbs, rows = ob
    if ret[:1] == ["raise"]:
        r = "(Raise %s)" % ("ValueError" if ret[1] == "ValueError" else "OtherError")
    else:
        r = "(Ok %s)" % clist(cz(x) for x in ret)
    w = "(W %s %s %s %s)" % (cz(st[0]), copt(st[1]), cbool(st[2]), cbool(st[3]))
    return "(Ob %s %s %d %s %s)" % (r, w, unread, clist(cn(c) for c in cbs), clist(cz(x) for x in rows))


def cop(o):
    if o[0] == "set":
        return "(OpSet %s %s)" % (cz(o[1]), copt(o[2]))
    if o[0] == "render":
        return "(Render %d %s %s)" % (o[1], cz(o[2]), cz(o[3]))
    if o[0] == "diff":
        return "(Diff %s %s)" % (cbool(o[1]), cn(o[2]))
    return "(Pos %s %s)" % (cbool(o[1]), cn(o[2]))


def to_coq(inp, out):
    if inp[0] == "regex":
        return "(CRegex %s)" % cn(ord(c) for c in out)
    if inp[0] == "hist":
        return "(CHist %s %s)" % (clist(cop(o) for o in inp[1]), clist(cobs(ob) for ob in out))
    _, cb, extra, csi, rs, cs, pre, trail = inp
    return "(CParse %s %s %s %s %s %s %s %s)" % (cbool(cb), cn(extra), cn(csi), cn(rs), cn(cs), cn(pre), cn(trail), cobs(out))


def to_json_input(inp):
    return list(inp)


def to_json_output(out):
    return out


def from_json(obj):
    return tuple(obj)


def key(inp):
    return repr(inp)


def positions(inp, out):
    obs = [out] if inp[0] == "parse" else out if inp[0] == "hist" else []
    return obs


def nontrivial(inp, out):
    return any(ob[4] for ob in positions(inp, out))


# ---- generators ------------------------------------------------------------------------
S = lambda t: [ord(c) for c in t]  # noqa
FRAGS = [S("a"), S("1"), S("2"), S(";"), S("R"), [ESC], [LB], [CSI8], S("\n"), S("\xe9"),
         S("\x1b[1;"), S("\x1b[12R"), S("9;9R"), S("\x1b[1;2"), S("\x1b[12"), [CSI8] + S("3;"), [ESC, ESC, LB],
         S("\x1b[A"), S("\x1bOP"), S("12"), S(";7"), [CSI8] + S("4")]
REPORT_RE = re.compile("(\x1b\\[|\x9b)[0-9]+;[0-9]+R")


def as_text(xs):
    return "".join(chr(x) for x in xs if x < 0x110000)


def rand_number(rng, big=True):
    k = rng.random()
    if not big and k >= 0.8:
        k = 0.0
    if k < 0.55:
        n = rng.choice([1, 1, 2, 3, 9, 10, 11, 24, 25, 80, 99, 100, 999, 1000, 65535, 99999, rng.randrange(1, 100000)])
        s = str(n)
    elif k < 0.7:
        s = "0" * rng.randrange(1, 3) + str(rng.randrange(0, 1000))
    elif k < 0.8:
        s = "0"
    elif k < 0.9:
        s = str(rng.randrange(10 ** 29, 10 ** 30))
    else:
        s = str(rng.randrange(1, 100000))
    return S(s)


def rand_report(rng, row=None, big=True):
    csi = [ESC, LB] if rng.random() < 0.6 else [CSI8]
    rs = S(str(row)) if row is not None else rand_number(rng, big)
    cs = rand_number(rng)
    return csi, rs, cs


def rand_frag_seq(rng, maxn):
    out = []
    for _ in range(rng.randrange(0, maxn + 1)):
        out += rng.choice(FRAGS)
    return out


def rand_extra(rng):
    """fragment string without a complete report"""
    for _ in range(20):
        e = rand_frag_seq(rng, rng.choice([0, 1, 2, 3, 5, 8]))
        if not REPORT_RE.search(as_text(e)):
            return e
    return []


def weave(rng, chars, nerr, extra_items=()):
    """insert nerr OSErrors (and the given extra items) at random places, never after the last character"""
    out = list(chars)
    for it in [OSERR] * nerr + list(extra_items):
        out.insert(rng.randrange(0, len(out)), it)
    return out


def rand_trail(rng, with_special=True, big=True):
    t = rand_frag_seq(rng, rng.choice([0, 0, 1, 2, 4]))
    if with_special and rng.random() < 0.4:
        for _ in range(rng.randrange(1, 3)):
            t.insert(rng.randrange(0, len(t) + 1), rng.choice([OSERR, EOF]))
    if rng.random() < 0.25:
        csi, rs, cs = rand_report(rng, None, big)
        t += csi + rs + [SEMI] + cs + [RR]
    return t


def gen_parse(rng):
    extra = rand_extra(rng)
    if rng.random() < 0.15:
        extra = []
    csi, rs, cs = rand_report(rng)
    chars = extra + csi + rs + [SEMI] + cs + [RR]
    pre = weave(rng, chars, rng.choice([0, 0, 1, 2, 3]))
    return ("parse", rng.random() < 0.7, extra, csi, rs, cs, pre, rand_trail(rng))


def gen_stream(rng, big=True):
    """arbitrary stream: fragments, reports, truncated reports, specials
    (big=False: rows of at most 5 digits -- the diff loops run |dy| times)"""
    out = []
    for _ in range(rng.randrange(0, 7)):
        k = rng.random()
        if k < 0.5:
            out += rng.choice(FRAGS)
        elif k < 0.75:
            csi, rs, cs = rand_report(rng, None, big)
            rep = csi + rs + [SEMI] + cs + [RR]
            if rng.random() < 0.3:
                rep = rep[:rng.randrange(1, len(rep))]
            out += rep
        elif k < 0.9:
            out.append(OSERR)
        else:
            out.append(rng.choice([EOF, OSERR]))
    return out


def gen_query_stream(rng, row, nests):
    """extra ++ report(row) with OSErrors and `nests` nested-call points woven in"""
    extra = rand_extra(rng) if rng.random() < 0.4 else []
    csi, rs, cs = rand_report(rng, row)
    chars = extra + csi + rs + [SEMI] + cs + [RR]
    return weave(rng, chars, rng.choice([0, 0, 1, 2]), [NEST] * nests), bool(extra)


def gen_hist(rng):
    ops = [["set", rng.randrange(-3, 13), rng.choice([None] + list(range(0, 13)))]]
    cur = ops[0][2] if ops[0][2] is not None else rng.randrange(0, 10)
    for _ in range(rng.randrange(1, 7)):
        k = rng.random()
        if k < 0.2:
            ops.append(["render", rng.randrange(0, 13), rng.randrange(0, 8), rng.randrange(1, 9)])
        elif k < 0.3:
            ops.append(["set", rng.randrange(-3, 13), rng.choice([None] + list(range(0, 13)))])
        elif k < 0.85:
            # a diff call: 1..3 query rounds; all but the last round contain a nested call
            rounds = rng.choice([1, 1, 1, 2, 2, 3])
            items = []
            cb = rng.random() < 0.93
            for r in range(rounds):
                mv = rng.choice([0, 0, 0, 1, -1, 2, -2, 3, -5, 7, rng.randrange(-12, 13)])
                cur = max(0, cur + mv)
                nests = 0 if r == rounds - 1 else rng.choice([1, 1, 2])
                if rng.random() < 0.05:
                    nests = 1 - min(nests, 1)
                q, _ = gen_query_stream(rng, cur + 1, nests)
                items += q
            if rng.random() < 0.15:
                items += rand_trail(rng, True, False) + ([NEST] if rng.random() < 0.3 else [])
            if rng.random() < 0.06:
                items = gen_stream(rng, False)
            ops.append(["diff", cb, items])
        else:
            q, _ = gen_query_stream(rng, rng.randrange(1, 14), 0)
            ops.append(["pos", rng.random() < 0.8, q if rng.random() < 0.7 else gen_stream(rng, False)])
    return ("hist", ops)


SMALL = [ord("a"), ord("1"), SEMI, RR, ESC, LB, CSI8, OSERR]


SMALLER = [ord("1"), SEMI, RR, ESC, LB]


def gen_exhaustive(maxlen, alphabet=SMALL, minlen=0):
    import itertools
    tails = [[], [ESC, LB, 50, SEMI, 51, RR], [CSI8, 52, SEMI, 53, RR]]
    for n in range(minlen, maxlen + 1):
        for t in itertools.product(alphabet, repeat=n):
            for tail in tails:
                yield ("hist", [["set", 0, None], ["pos", True, list(t) + tail]])


def generate(rng, tier):
    yield ("regex",)
    # fixed witnesses of the look-alike situations named in the design
    rep = [ESC, LB, 50, SEMI, 51, RR]
    for extra in ([ESC, LB, 49, SEMI], [ESC, LB, 49, 50], [49, 50], [ESC], [CSI8], [ESC, LB], [ESC, LB, 49, SEMI, 50],
                  S("9;9R"), S("\x1b[12R"), [CSI8, 49, SEMI], [ESC, ESC], [ESC, LB, 49, SEMI, 50, ESC]):
        for csi in ([ESC, LB], [CSI8]):
            chars = extra + csi + [50, SEMI, 51, RR]
            yield ("parse", True, extra, csi, [50], [51], chars, S("xR"))
            yield ("parse", False, extra, csi, [50], [51], [OSERR] + chars[:-1] + [OSERR, chars[-1]], [OSERR] + rep)
    # very many failed reads: 1500 in a single query, and a long session of queries with a few each (a retry
    # budget that is not per query shows only there)
    many = [OSERR] * 1500
    yield ("parse", True, S("ab"), [ESC, LB], [50], [51], many + S("ab") + [ESC, LB, 50] + [OSERR] * 40 + [SEMI, 51, RR], S("z"))
    yield ("hist", [["set", 0, None]] + [["pos", True, [OSERR] * 9 + [ESC, LB, 49 + (i % 5), SEMI, 50, RR]] for i in range(130)])
    # a long paste typed ahead of the report (hundreds of characters, lengths around 256 and 512), either CSI form
    for ln in ([255, 256, 257, 300] if tier != "thorough" else list(range(248, 262)) + list(range(506, 520))):
        for csi in ([ESC, LB], [CSI8]):
            for filler in ((S("a"), S("\x1b[A") + S("b")) if tier == "thorough" or csi == [CSI8] else (S("a7"),)):
                extra = (filler * ln)[:ln]
                if extra and extra[-1] in (ESC, LB):
                    extra[-1] = ord("z")
                yield ("parse", True, extra, csi, [50], [51], extra + csi + [50, SEMI, 51, RR], S("xR"))
    n = 8000 if tier == "thorough" else 700
    for _ in range(n):
        yield gen_parse(rng)
    for _ in range(n):
        yield gen_hist(rng)
    for _ in range(n // 2):
        yield ("hist", [["set", 0, None], ["pos", rng.random() < 0.7, gen_stream(rng)]])
    yield from gen_exhaustive(4 if tier == "thorough" else 3)
    if tier == "thorough":
        yield from gen_exhaustive(6, SMALLER, 5)


def stats(inp, out):
    yield "kind=" + inp[0]
    if inp[0] == "regex":
        return
    if inp[0] == "parse":
        _, cb, extra, csi, rs, cs, pre, trail = inp
        yield "parse:extra=%s" % ("0" if not extra else "1-3" if len(extra) <= 3 else "4+")
        yield "parse:csi=%s" % ("7bit" if csi[0] == ESC else "8bit")
        yield "parse:oserrors=%d" % pre.count(OSERR)
        yield "parse:digits=%s" % ("1-5" if max(len(rs), len(cs)) <= 5 else "6+")
        yield "parse:callback=%s" % cb
        if trail:
            yield "parse:has_trail"
        if extra and (48 <= extra[-1] <= 57):
            yield "parse:extra_ends_in_digit"
        if extra and extra[-1] in (ESC, CSI8, LB, SEMI):
            yield "parse:extra_ends_in_ESC/CSI/[/;"
        yield "parse:result=%s" % ("raise" if out[0][:1] == ["raise"] else "position")
        return
    for o, ob in zip(inp[1], out):
        yield "op=" + o[0]
        if o[0] == "diff":
            yield "diff:queries=%d" % min(len(ob[4]), 4)
            yield "diff:nested_points=%d" % min(o[2].count(NEST), 3)
            if ob[0][:1] == ["raise"]:
                yield "diff:raised"
            elif ob[0][0] != 0:
                yield "diff:nonzero_return"
        if o[0] == "pos":
            yield "pos:result=%s" % ("raise" if ob[0][:1] == ["raise"] else "position")
    if any(ob[1][2] for ob in out):
        yield "hist:in_get_cursor_diff_left_True"


def shrink(inp):
    if inp[0] == "parse":
        _, cb, extra, csi, rs, cs, pre, trail = inp
        for i in range(len(trail)):
            yield ("parse", cb, extra, csi, rs, cs, pre, trail[:i] + trail[i + 1:])
        if OSERR in pre:
            yield ("parse", cb, extra, csi, rs, cs, [x for x in pre if x != OSERR], trail)
        for i in range(len(extra)):
            e2 = extra[:i] + extra[i + 1:]
            if not REPORT_RE.search(as_text(e2)):
                yield ("parse", cb, e2, csi, rs, cs, e2 + csi + rs + [SEMI] + cs + [RR], trail)
        return
    if inp[0] != "hist":
        return
    ops = inp[1]
    for i in range(1, len(ops)):
        yield ("hist", ops[:i] + ops[i + 1:])
    for i, o in enumerate(ops):
        if o[0] in ("diff", "pos"):
            for j in range(len(o[2])):
                yield ("hist", ops[:i] + [[o[0], o[1], o[2][:j] + o[2][j + 1:]]] + ops[i + 1:])


LEVEL_TEXT = ("Machine-checked theorems (Coq) about an executable model of get_cursor_position / get_cursor_vertical_diff / "
              "_get_cursor_vertical_diff_once: for ALL extra without a complete report, all digit strings, all trails and any "
              "interleaving of OSErrors the query returns (row-1, col-1), hands exactly extra to the callback (ValueError "
              "without one) and leaves exactly the trail unread; the first successful search ends at the last character read; "
              "for ALL window states and histories top_usable_row change + return value = reported row - row at last "
              "query/render, nested calls return 0 and the outer total still balances; the model is tied to the code by an "
              "in-Coq differential check against the real window driven through a scripted stream")
LEVEL_NOTE = ("Trusted: Coq kernel+vm_compute, Spec/CursorSpec.v, the driver. Modelled not verified: the re engine on the one "
              "pattern (text compared with the source on every run), int(), ASCII-only \\d, encode(); real tty/SIGWINCH timing "
              "is replaced by nested calls fired from inside read()")
TECHNIQUE = "Coq proof by induction over the read stream / fuel-indexed loops with closed forms; in-Coq differential correspondence"
