"""C19 -- equality, hashing and repr of FmtStr are coherent with what it displays."""
import canon
from canon import coq_fs, coq_str, coq_list, coq_bool, Unrepresentable

from curtsies.formatstring import FmtStr
from curtsies import fmtfuncs

ID = "C19"
LEVEL = "proof"
PROPS_FILE = "Props/C19.v"
CORR_VO = "Corr/C19.vo"
REQUIRE = "From Curtsies Require Import Model.Base Model.Atts Corr.C19."
CASE_TYPE = "C19.case"
MODEL_OK = "C19.model_ok"
SPEC_OK = "C19.spec_ok"
EXHAUSTIVE = {"quick": False, "thorough": False}
SHARD = 250
RULE = ("pools built around a random multi-run FmtStr: an identical copy, the same text with one attribute changed / "
        "added / removed, the same display with other run boundaries (a run split in two, equal neighbours merged), "
        "False spelt instead of absent, an empty run inserted (with and without attributes), its plain text and its "
        "str() as plain strs; ALL ordered pairs of every pool: ==, !=, both operand orders, hash equality, set and dict "
        "membership, with the implementation's own str() of both; and for every pool member repr(f), Python's repr of "
        "each run's text, and the REAL eval(repr(f), vars(curtsies.fmtfuncs)) compared per cell with f and with the "
        "model's expression tree printed to a string; a share of the pools consists of values DERIVED through the API "
        "(new_with_atts_removed, copy_with_new_atts, fmtstr re-wrap, helpers, slices, *, +) from a base value whose "
        "str/len/s/width/hash/repr were observed first, so that memoised values exist, next to freshly built copies "
        "of the same runs; every fact is judged against the object's actual runs. non-trivial = some character and some attribute involved; "
        "distinct = distinct input")
TRUSTED = [
    "Coq 8.16.1 kernel incl. vm_compute (no native_compute); Print Assumptions: closed under the global context",
    "reference SGR interpreter coq/Spec/Sgr.v (what a terminal string displays) and theorem render_displays (C01)",
    "reference names and override function of coq/Spec/AttSpec.v (through the C14 model of the fmtfuncs helpers)",
    "translator gen/gen_tables.py (FG/BG_NUMBER_TO_COLOR, fmtfuncs table, the strings wrapped by color_str)",
    "harness canonicalisers harness/canon.py, harness/props/c19.py",
    "modelled, not verified: Python's == / != / reflected-operand dispatch (str.__eq__ returns NotImplemented for a "
    "FmtStr), hash() of a str (an arbitrary function in the theorems), set/dict lookup = hash + ==, repr()/eval() of "
    "a string literal (a Lit node; exercised for real on every case), left-associative +",
]
ASSUMPTIONS = [
    "display statements need text free of ESC (27) and 8-bit CSI (155) (the quantifier of C01)",
    "repr/eval: at least one run, and no run's text contains ESC '[' (fmtstr() inside the helpers would parse it)",
    "== with bytes (str(bytes) is \"b'...'\") is outside the property, which speaks of FmtStr and plain str",
    "hash collisions between unequal values are neither required nor forbidden",
]

QUOTES = "'\"\\{}%$+"       # quotes, backslash, and what str.format / % / Template treat specially


def is_expr(op):
    return bool(op) and op[0] == "expr"


def build(op):
    """an operand is a run list (built afresh: no memoised values) or ["expr", tree]: a FmtStr derived through
    the public API with observations (str/len/hash/...) made on intermediates, so that memoised values exist"""
    return canon.eval_expr(op[1]) if is_expr(op) else canon.build_fs(op)


def obs(tree, what=("str", "hash", "len", "s", "width", "repr")):
    return ["obs", tree, list(what)]


def derived_pool(rng):
    """values derived from ONE observed base value, plus freshly built copies of what they should be"""
    base = canon.rand_expr(rng, depth=rng.choice([0, 1, 2]))
    ob = obs(base)
    keys = ["fg", "bg"] + canon.STYLES
    pool = [("base", ["expr", base]), ("base-observed", ["expr", ob])]
    pool.append(("removed", ["expr", ["nwar", ob, rng.sample(keys, rng.randint(1, 3))]]))
    pool.append(("removed-all", ["expr", ["nwar", ob, keys]]))
    _, kwargs = canon._rand_spec(rng)
    kw = {k: (v if not isinstance(v, str) else 30 + canon.COLORS.index(v) + (10 if k == "bg" else 0))
          for k, v in kwargs.items()}
    pool.append(("copy-atts", ["expr", ["cwna", ob, kw]]))
    args, kwargs = canon._rand_spec(rng)
    pool.append(("rewrapped", ["expr", ["rewrap", ob, args, kwargs]]))
    pool.append(("helper", ["expr", ["func", rng.choice(canon.COLORS + ["on_" + c for c in canon.COLORS] + canon.STYLES), ob]]))
    pool.append(("sliced", ["expr", ["slice", ob, 0, rng.choice([1, 2, 99])]]))
    pool.append(("times", ["expr", ["mul", ob, rng.choice([1, 2])]]))
    pool.append(("plus-str", ["expr", ["addstr", ob, rng.choice(["", "x"])]]))
    # the same display built two ways: + a FmtStr, and + its rendering as a plain str (which + does not parse: the
    # escape sequences become TEXT of a run) -- equal terminal strings, different .s
    tail = rng.choice([["leaf", "b", ["red"], {}], ["leaf", "Tb", [], {"bold": True}], ["leaf", "k\n", ["on_blue"], {}]])
    pool.append(("plus-fmt", ["expr", ["add", base, tail]]))
    pool.append(("plus-rendered", ["expr", ["addstr", base, str(canon.eval_expr(tail))]]))
    pool.append(("plus-rendered-observed", ["expr", ["obs", ["addstr", ob, str(canon.eval_expr(tail))], ["len", "s"]]]))
    # the same values built afresh from their runs
    fresh = []
    for lab, op in rng.sample(pool, 3):
        try:
            fresh.append((lab + "-fresh", canon.canon_fs(build(op))))
        except Exception:  # noqa
            pass
    return pool + fresh


def rand_text(rng):
    if rng.random() < 0.25:
        return canon.rand_text(rng, 4, canon.ALPHA_PLAIN + QUOTES + "\n\t")
    return canon.rand_text(rng, 5)


def variants(rng, runs):
    """FmtStrs related to `runs` (each a run list)"""
    out = [("copy", [[s, list(a)] for s, a in runs])]
    if runs:
        i = rng.randrange(len(runs))
        s, a = runs[i]
        # one attribute changed / added / removed
        b = list(a)
        j = rng.randrange(8)
        if j < 2:
            b[j] = rng.choice([v for v in range(9) if v != a[j]])
        else:
            b[j] = 1 if a[j] != 1 else 0
        out.append(("other-format", runs[:i] + [[s, b]] + runs[i + 1:]))
        # False instead of absent (same display, same terminal string)
        b = [v if k < 2 or v else rng.choice([0, 2]) for k, v in enumerate(a)]
        out.append(("false-for-absent", runs[:i] + [[s, b]] + runs[i + 1:]))
        # split one run in two
        if len(s) >= 2:
            k = rng.randint(1, len(s) - 1)
            out.append(("split-run", runs[:i] + [[s[:k], list(a)], [s[k:], list(a)]] + runs[i + 1:]))
        # an empty run without / with attributes
        k = rng.randint(0, len(runs))
        out.append(("empty-plain-run", runs[:k] + [["", [0, 0] + [rng.choice([0, 2]) for _ in range(6)]]] + runs[k:]))
        out.append(("empty-formatted-run", runs[:k] + [["", list(canon.rand_atts(rng, allow_false=False))]] + runs[k:]))
        # other text, same formatting
        t = rand_text(rng)
        if t != s:
            out.append(("other-text", runs[:i] + [[t, list(a)]] + runs[i + 1:]))
    # merge equal neighbours
    merged = []
    for s, a in runs:
        if merged and merged[-1][1] == list(a):
            merged[-1][0] += s
        else:
            merged.append([s, list(a)])
    if merged != runs:
        out.append(("merged-runs", merged))
    return out


def generate(rng, tier):
    npools = 800 if tier == "thorough" else 45
    for _ in range(npools):
        runs = [[rand_text(rng), list(canon.rand_atts(rng))] for _ in range(rng.choice([0, 1, 1, 2, 2, 3]))]
        if rng.random() < 0.4 and runs:
            # neighbours with equal attributes, so that merging changes the boundaries only
            runs.append([rand_text(rng), list(runs[-1][1])])
        pool = variants(rng, runs)
        if rng.random() < 0.5:
            pool.append(("unrelated", canon.rand_runs(rng)))
        for la, a in pool:
            for lb, b in pool:
                yield ["pair", a, b, la + "/" + lb]
        strs = set()
        for la, a in pool[:4]:
            text = "".join(s for s, _ in a)
            strs.add(text)
            strs.add(str(canon.build_fs(a)))
        strs.add(rand_text(rng))
        for la, a in pool[:4]:
            for s in sorted(strs):
                yield ["withstr", a, s, la]
        for la, a in pool:
            yield ["repr", a, la]
    # values derived through the API from operands whose memoised str/len/s/width are already filled
    for _ in range(200 if tier == "thorough" else 30):
        pool = derived_pool(rng)
        for la, a in pool:
            for lb, b in pool:
                yield ["pair", a, b, la + "/" + lb]
        for la, a in pool:
            try:
                fa = build(a)
            except Exception:  # noqa
                continue
            for t in sorted({fa.s, str(fa), rand_text(rng)}):
                yield ["withstr", a, t, la]
            yield ["repr", a, la]
    # beyond the small scope: long runs (blank ones of every kind of whitespace included) and many runs
    for L in (17, 20, 40, 100, 300):
        for t in (" " * L, "\t" * L, "\n" * L, "\u00a0" * L, "\u3000" * L, "\t\t" + " " * (L - 2), " " * (L - 1) + "\u2009",
                  "a" * L, ("ab '\"\\" * L)[:L], "\x0b\x0c\x1c\x1d\x1e\x1f\x85\u2028\u2029"[:9] * (L // 9 + 1)):
            for a in ([0] * 8, [2, 0, 1, 0, 0, 0, 0, 0]):
                yield ["repr", [[t, list(a)]], "long-run"]
                yield ["repr", [["x", [0, 5, 0, 0, 0, 1, 0, 0]], [t, list(a)], ["", list(a)]], "long-run"]
        yield ["pair", [[" " * L, [0] * 8]], [["\t" * L, [0] * 8]], "long/long"]
        yield ["pair", [["a" * L, [3, 0, 0, 0, 0, 0, 0, 0]]], [["a" * (L - 1), [3, 0, 0, 0, 0, 0, 0, 0]], ["a", [3, 0, 0, 0, 0, 0, 0, 0]]], "long/split"]
    many = [[c, [1 + i % 8, 0, i % 2, 0, 0, 0, 0, 0]] for i, c in enumerate("abcdefghijklmnopqrstuvwxyz0123456789")]
    yield ["repr", many, "many-runs"]
    yield ["pair", many, many[:20] + many[20:], "many/many"]
    yield ["pair", many, many[:-1], "many/fewer"]
    for t in ("+", "'+'", "a'+'b", "s = 'a'+'b'", "++", "'", "+'"):
        yield ["repr", [[t, [0] * 8]], "plus"]
        yield ["repr", [["a", [2, 0, 0, 0, 0, 0, 0, 0]], [t, [0] * 8], ["b", [5, 0, 0, 0, 0, 0, 0, 0]]], "plus"]
        yield ["repr", [[t, [0] * 8], ["b", [0, 3, 1, 0, 0, 0, 0, 0]]], "plus"]
        yield ["repr", [[t, [3, 0, 0, 0, 0, 0, 0, 0]]], "plus"]
    # the documented examples and a few fixed corner cases
    yield ["repr", [["hello", [2, 5, 0, 0, 0, 0, 0, 0]], [" ", [0] * 8], ["there", [5, 2, 0, 0, 0, 0, 0, 0]],
                    ["!", [3, 0, 0, 0, 0, 0, 0, 0]]], "docstring"]
    yield ["repr", [], "no-runs"]
    yield ["repr", [["a", [0] * 8], ["b", [0] * 8]], "all-plain"]
    yield ["repr", [["it's \"q\" \\ \n", [1, 8, 1, 1, 1, 1, 1, 1]]], "everything"]
    yield ["pair", [], [], "no-runs/no-runs"]
    yield ["pair", [], [["", [0] * 8]], "no-runs/empty-run"]
    yield ["withstr", [], "", "no-runs"]


def run(inp):
    kind = inp[0]
    if kind == "pair":
        f, g = build(inp[1]), build(inp[2])
        if (len(inp[1]) + len(inp[2])) % 2:
            # hashing and membership FIRST, on operands nothing has rendered yet (== and str() memoise)
            hash_eq = hash(f) == hash(g)
            in_set, in_dict = f in {g}, f in {g: 0}
            eq, ne, eq_rev = f == g, f != g, g == f
        else:
            eq, ne, eq_rev = f == g, f != g, g == f
            hash_eq = hash(f) == hash(g)
            in_set, in_dict = f in {g}, f in {g: 0}
        return {"eq": eq, "ne": ne, "eq_rev": eq_rev, "hash_eq": hash_eq, "in_set": in_set, "in_dict": in_dict,
                "sf": str(f), "sg": str(g), "runs_f": canon.canon_fs(f), "runs_g": canon.canon_fs(g)}
    if kind == "withstr":
        f, s = build(inp[1]), inp[2]
        if (len(inp[1]) + len(s)) % 2:
            hash_eq = hash(f) == hash(s)                 # before anything renders f
            f_in_s, s_in_f = f in {s}, s in {f}
            eq, eq_rev, ne, ne_rev = f == s, s == f, f != s, s != f
        else:
            eq, eq_rev, ne, ne_rev = f == s, s == f, f != s, s != f
            hash_eq = hash(f) == hash(s)
            f_in_s, s_in_f = f in {s}, s in {f}
        return {"eq": eq, "eq_rev": eq_rev, "ne": ne, "ne_rev": ne_rev, "hash_eq": hash_eq, "f_in_s": f_in_s,
                "s_in_f": s_in_f, "sf": str(f), "runs_f": canon.canon_fs(f)}
    if kind == "repr":
        f = build(inp[1])
        runs_f = canon.canon_fs(f)
        try:
            r = repr(f)
        except Exception as e:  # noqa   repr() must not raise: reported as a repr that evaluates to nothing
            r = "<repr raised %s>" % type(e).__name__
        lits = [repr(c.s) for c in f.chunks]
        try:
            v = eval(r, dict(vars(fmtfuncs)))
            if isinstance(v, str):
                ev = ["s", v]
            elif isinstance(v, FmtStr):
                ev = ["f", canon.canon_fs(v)]
            else:
                ev = None
        except Unrepresentable:
            ev = None
        except Exception:  # noqa  (eval('') is a SyntaxError)
            ev = None
        return {"repr": r, "lits": lits, "eval": ev, "runs_f": runs_f}
    raise ValueError(kind)


def to_coq(inp, out):
    kind = inp[0]
    b = coq_bool
    if kind == "pair":
        return "C19.Pair %s %s %s %s %s %s %s %s %s %s" % (
            coq_fs(out["runs_f"]), coq_fs(out["runs_g"]), coq_str(out["sf"]), coq_str(out["sg"]), b(out["eq"]), b(out["ne"]),
            b(out["eq_rev"]), b(out["hash_eq"]), b(out["in_set"]), b(out["in_dict"]))
    if kind == "withstr":
        return "C19.WithStr %s %s %s %s %s %s %s %s %s %s" % (
            coq_fs(out["runs_f"]), coq_str(inp[2]), coq_str(out["sf"]), b(out["eq"]), b(out["eq_rev"]), b(out["ne"]),
            b(out["ne_rev"]), b(out["hash_eq"]), b(out["f_in_s"]), b(out["s_in_f"]))
    ev = out["eval"]
    evs = "None" if ev is None else "(Some (PStr %s))" % coq_str(ev[1]) if ev[0] == "s" else "(Some (PFmt %s))" % coq_fs(ev[1])
    return "C19.Repr %s %s %s %s" % (coq_fs(out["runs_f"]), coq_list([coq_str(x) for x in out["lits"]]),
                                     coq_str(out["repr"]), evs)


def to_json_input(inp):
    return {"case": inp}


def to_json_output(out):
    return out


def from_json(obj):
    return obj["case"]


def key(inp):
    return repr(inp[:3] if inp[0] != "repr" else inp[:2])


def nontrivial(inp, out):
    runs = out["runs_f"]
    return any(s and any(a) for s, a in runs)


def stats(inp, out):
    kind = inp[0]
    yield "kind=%s" % kind
    runs = out["runs_f"]
    yield "operand=%s" % ("derived-with-observations" if is_expr(inp[1]) else "fresh-runs")
    yield "runs=%d" % min(len(runs), 5)
    if any(not s for s, _ in runs):
        yield "has_empty_run"
    if kind == "pair":
        yield "eq=%s" % out["eq"]
        same_cells = canon.cells_of(out["runs_f"]) == canon.cells_of(out["runs_g"])
        yield "same_cells=%s,eq=%s" % (same_cells, out["eq"])
        if out["runs_f"] != out["runs_g"] and out["eq"]:
            yield "equal_but_different_runs"
        a, bb = inp[3].split("/")
        if a == "copy" or bb == "copy":
            yield "rel=%s" % (bb if a == "copy" else a)
    elif kind == "withstr":
        yield "eq=%s" % out["eq"]
        if "\x1b" in inp[2]:
            yield "str_with_escapes"
    else:
        ev = out["eval"]
        yield "eval=%s" % ("none" if ev is None else "str" if ev[0] == "s" else "FmtStr")
        if any(c in out["repr"] for c in "\\\"") or "\\" in out["repr"]:
            yield "repr_needs_escaping"


def shrink(inp):
    kind = inp[0]

    def shrunk(runs):
        if is_expr(runs):
            for c in canon.shrink_expr(runs[1]):
                yield ["expr", c]
            return
        for i in range(len(runs)):
            yield runs[:i] + runs[i + 1:]
        for i, (s, a) in enumerate(runs):
            if len(s) > 1:
                yield runs[:i] + [[s[:1], a]] + runs[i + 1:]
            for j in range(8):
                if a[j]:
                    b = list(a)
                    b[j] = 0
                    yield runs[:i] + [[s, b]] + runs[i + 1:]

    if kind == "pair":
        for r in shrunk(inp[1]):
            yield ["pair", r, inp[2], inp[3]]
        for r in shrunk(inp[2]):
            yield ["pair", inp[1], r, inp[3]]
    elif kind == "withstr":
        for r in shrunk(inp[1]):
            yield ["withstr", r, inp[2], inp[3]]
        if len(inp[2]) > 1:
            yield ["withstr", inp[1], inp[2][:1], inp[3]]
    else:
        for r in shrunk(inp[1]):
            yield ["repr", r, inp[2]]


LEVEL_TEXT = ("Machine-checked theorems (Coq) for ALL FmtStrs: == is equality of the rendered terminal strings (an "
              "equivalence, symmetric in the operands, also against a plain str), equal values with escape-free text show "
              "the same cells (through the C01 theorem on the reference SGR interpreter), equal values hash equal for ANY "
              "str hash and a FmtStr hashes like its terminal string, and eval(repr f) in the fmtfuncs namespace shows "
              "exactly the cells of f for every f with at least one run; the number->name and helper tables are "
              "regenerated from the code on every run; ==, !=, hash, set/dict membership, repr and the REAL eval are "
              "compared with the model inside Coq on all pairs of generated pools")
LEVEL_NOTE = ("Trusted: Coq kernel+vm_compute, Spec/Sgr.v, Spec/AttSpec.v, gen_tables.py, canonicalisers. Modelled not "
              "verified: Python's operator dispatch for ==/!= with reflected operands, str hashing (arbitrary function), "
              "set/dict lookup, repr/eval of string literals (exercised for real in the correspondence). Narrowings: "
              "display statements need ESC/CSI-free text; repr/eval needs runs without ESC '['; bytes operands outside")
TECHNIQUE = ("Coq proof: equality reduced to the C01 display theorem; repr/eval by composing eight helper calls per run "
             "through the C14 theorems and kernel computation on the generated tables; in-Coq differential correspondence")
