"""Canonicalisation glue shared by the property modules: Python objects of the
implementation <-> JSON-able canonical forms <-> Coq literals (Model/Base.v)."""
import random

from curtsies.formatstring import FmtStr, Chunk, fmtstr
from curtsies import fmtfuncs

COLORS = ["black", "red", "green", "yellow", "blue", "magenta", "cyan", "gray"]
STYLES = ["bold", "dark", "italic", "underline", "blink", "invert"]


class Unrepresentable(Exception):
    """the implementation produced a value outside the modelled domain"""


# ---- attribute dictionaries -------------------------------------------------
def canon_atts(atts):
    """dict -> 8-tuple (fg,bg,bold,dark,italic,underline,blink,invert) of small ints:
    0 absent; colours 1..8 for values 30..37 / 40..47; styles 1 True 2 False"""
    d = dict(atts)
    out = []
    for key, base in (("fg", 30), ("bg", 40)):
        if key in d:
            v = d.pop(key)
            if type(v) is not int or not (base <= v <= base + 7):
                raise Unrepresentable("%s=%r" % (key, v))
            out.append(v - base + 1)
        else:
            out.append(0)
    for s in STYLES:
        if s in d:
            v = d.pop(s)
            if v is True:
                out.append(1)
            elif v is False:
                out.append(2)
            else:
                raise Unrepresentable("%s=%r" % (s, v))
        else:
            out.append(0)
    if d:
        raise Unrepresentable("extra attribute keys %r" % (sorted(d),))
    return tuple(out)


def atts_dict(t):
    """inverse of canon_atts"""
    d = {}
    if t[0]:
        d["fg"] = 29 + t[0]
    if t[1]:
        d["bg"] = 39 + t[1]
    for s, v in zip(STYLES, t[2:]):
        if v == 1:
            d[s] = True
        elif v == 2:
            d[s] = False
    return d


def coq_atts(t):
    return "(A %d %d %d %d %d %d %d %d)" % tuple(t)


def eff_atts(t):
    """effective graphic state: False == absent"""
    return (t[0], t[1]) + tuple(1 if v == 1 else 0 for v in t[2:])


# ---- strings -----------------------------------------------------------------
def coq_str(s):
    return "[" + ";".join(str(ord(c)) for c in s) + "]"


def coq_bytes(b):
    return "[" + ";".join(str(x) for x in b) + "]"


def coq_list(xs):
    return "[" + "; ".join(xs) + "]"


def coq_opt(x, f=str):
    return "None" if x is None else "(Some %s)" % f(x)


def coq_z(n):
    return "(%d)%%Z" % n


def coq_bool(b):
    return "true" if b else "false"


# ---- FmtStr -------------------------------------------------------------------
def canon_fs(f):
    """FmtStr -> list of [text, atts-tuple] (its runs, as they are)"""
    if not isinstance(f, FmtStr):
        raise Unrepresentable("not a FmtStr: %r" % (type(f),))
    return [[c.s, list(canon_atts(c.atts))] for c in f.chunks]


def build_fs(runs, share=None):
    """list of [text, atts-tuple] -> FmtStr with exactly these runs.
    share: equal runs (same text, same attributes) are ONE Chunk object occurring several times -- what f * n and
    x + x produce -- instead of equal but distinct objects.  None: decided by a fixed parity rule on the runs, so
    that both kinds of aliasing occur throughout every generated population (and a replay rebuilds the same)."""
    if share is None:
        share = (len(runs) + sum(len(s) for s, _ in runs)) % 2 == 0
    if not share:
        return FmtStr(*[Chunk(s, atts_dict(tuple(a))) for s, a in runs])
    pool = {}
    chunks = []
    for s, a in runs:
        k = (s, tuple(a))
        if k not in pool:
            pool[k] = Chunk(s, atts_dict(tuple(a)))
        chunks.append(pool[k])
    return FmtStr(*chunks)


def coq_fs(runs):
    return coq_list(["C %s %s" % (coq_str(s), coq_atts(a)) for s, a in runs])


def cells_of(runs):
    return [(ch, eff_atts(tuple(a))) for s, a in runs for ch in s]


def coq_cells(cs):
    """list of (char, eff-tuple) -> Coq list cell literal"""
    return coq_list(["(%d, Sg %d %d %d %d %d %d %d %d)" % ((ord(ch),) + tuple(st)) for ch, st in cs])


EXN = {IndexError: "IndexError", ValueError: "ValueError", TypeError: "TypeError", KeyError: "KeyError",
       AssertionError: "AssertionError", NotImplementedError: "NotImplementedError",
       UnicodeDecodeError: "UnicodeDecodeError"}


def exn_name(e):
    for k, v in EXN.items():
        if type(e) is k:
            return v
    for k, v in EXN.items():
        if isinstance(e, k):
            return v
    return "OtherError"


def outcome(thunk, conv=lambda x: x):
    """run thunk; ('ok', conv(value)) or ('raise', exception-name)"""
    try:
        v = thunk()
    except Exception as e:  # noqa
        return ["raise", exn_name(e)]
    return ["ok", conv(v)]


def coq_res(o, f):
    return "(Ok %s)" % f(o[1]) if o[0] == "ok" else "(Raise %s)" % o[1]


# ---- random FmtStrs --------------------------------------------------------------
ALPHA_PLAIN = "abcxyz XY09.,-_[];m{}%"      # incl. characters that mean something to str.format / %-formatting
ALPHA_CTRL = "\n\t\r\x00\x07"
ALPHA_WIDE = "Ｅ中한"
ALPHA_COMB = "̀́\ufe0f\u200d\ufe0e\u0902\u0e34"      # combining marks, variation selectors, zero-width joiner, zero-width marks of combining class 0 (Devanagari anusvara, Thai sara i)
ALPHA_OTHER = "é☃\U0001f600﻿\udc80\ud800"      # incl. lone surrogates (what surrogateescape-decoded file names contain)


def rand_text(rng, maxlen=6, alphabet=None):
    n = rng.choice([0, 0, 1, 1, 2, 2, 3, 4, maxlen])
    if alphabet is None:
        alphabet = rng.choice([ALPHA_PLAIN, ALPHA_PLAIN, ALPHA_PLAIN + ALPHA_CTRL,
                               ALPHA_PLAIN + ALPHA_WIDE + ALPHA_COMB + ALPHA_OTHER])
    return "".join(rng.choice(alphabet) for _ in range(n))


def rand_atts(rng, allow_false=True):
    mode = rng.random()
    if mode < 0.25:
        return (0,) * 8
    fg = rng.choice([0, 0, 0] + list(range(1, 9)))
    bg = rng.choice([0, 0, 0] + list(range(1, 9)))
    p = rng.choice([0.1, 0.3, 0.6])
    st = []
    for _ in STYLES:
        r = rng.random()
        if r < p:
            st.append(1)
        elif allow_false and r < p + 0.1:
            st.append(2)
        else:
            st.append(0)
    return (fg, bg) + tuple(st)


BIG_RATE = 0.04


def rand_big_runs(rng, alphabet=None, allow_false=True):
    """beyond the small scope: MANY runs (17-48 short ones) or LONG text (a run of 65-700 characters, total lengths
    around powers of two included) -- fast paths and chunked processing only start above some size"""
    if alphabet is None:
        alphabet = ALPHA_PLAIN
    if rng.random() < 0.5:
        n = rng.choice([17, 18, 24, 32, 33, 48, 65, 66, 70, 129, 130])
        return [["".join(rng.choice(alphabet) for _ in range(rng.choice([0, 1, 1, 2, 3]))),
                 list(rand_atts(rng, allow_false))] for _ in range(n)]
    long_len = rng.choice([65, 100, 127, 128, 129, 255, 256, 257, 300, 511, 512, 513, 700])
    runs = [[rand_text(rng, 6, alphabet), list(rand_atts(rng, allow_false))] for _ in range(rng.choice([1, 2, 3]))]
    k = rng.randrange(len(runs) + 1)
    runs.insert(k, ["".join(rng.choice(alphabet) for _ in range(long_len)), list(rand_atts(rng, allow_false))])
    return runs


def rand_runs(rng, maxruns=4, maxlen=6, alphabet=None, allow_false=True, big=True):
    if big and rng.random() < BIG_RATE:
        return rand_big_runs(rng, alphabet, allow_false)
    n = rng.choice([0, 1, 1, 2, 2, 3, maxruns])
    return [[rand_text(rng, maxlen, alphabet), list(rand_atts(rng, allow_false))] for _ in range(n)]


def rand_fs_via_api(rng, depth=3, alphabet=None):
    """a FmtStr built through the public API only (fmtstr, fmtfuncs, +, slicing, *)"""
    def leaf():
        t = rand_text(rng, 5, alphabet)
        a = rand_atts(rng)
        args = []
        kwargs = {}
        if a[0]:
            if rng.random() < 0.5:
                args.append(COLORS[a[0] - 1])
            elif rng.random() < 0.5:
                kwargs["fg"] = COLORS[a[0] - 1]
            else:
                kwargs["fg"] = 29 + a[0]
        if a[1]:
            if rng.random() < 0.5:
                args.append("on_" + COLORS[a[1] - 1])
            elif rng.random() < 0.5:
                kwargs["bg"] = COLORS[a[1] - 1]
            else:
                kwargs["bg"] = 39 + a[1]
        for s, v in zip(STYLES, a[2:]):
            if v == 1:
                if rng.random() < 0.5:
                    args.append(s)
                else:
                    kwargs[s] = True
            elif v == 2:
                kwargs[s] = False
        rng.shuffle(args)
        return fmtstr(t, *args, **kwargs)

    def go(d):
        r = rng.random()
        if d == 0 or r < 0.3:
            return leaf()
        if r < 0.55:
            return go(d - 1) + go(d - 1)
        if r < 0.65:
            return go(d - 1) + rand_text(rng, 3, alphabet)
        if r < 0.7:
            return rand_text(rng, 3, alphabet) + go(d - 1)
        if r < 0.8:
            name = rng.choice(COLORS + ["on_" + c for c in COLORS] + STYLES)
            return getattr(fmtfuncs, name)(go(d - 1))
        if r < 0.9:
            f = go(d - 1)
            n = len(f)
            a = rng.randint(0, n)
            b = rng.randint(a, n)
            return f[a:b]
        return go(d - 1) * rng.choice([0, 1, 2])

    return go(depth)


# ---- API programs as expression trees (JSON-able, replayable) ------------------------
# Nodes: ["leaf", text, args, kwargs] | ["add", a, b] | ["addstr", a, text] | ["raddstr", text, a]
#        | ["func", name, a] | ["slice", a, i, j] | ["mul", a, n] | ["cwna", a, kwargs] | ["nwar", a, keys]
#        | ["rewrap", a, args, kwargs] | ["obs", a, [what...]]  (observe str/len/s/width/hash/repr/eq, return the same object)
def _rand_spec(rng):
    a = rand_atts(rng)
    args, kwargs = [], {}
    if a[0]:
        r = rng.random()
        if r < 0.4:
            args.append(COLORS[a[0] - 1])
        elif r < 0.7:
            kwargs["fg"] = COLORS[a[0] - 1]
        else:
            kwargs["fg"] = 29 + a[0]
    if a[1]:
        r = rng.random()
        if r < 0.4:
            args.append("on_" + COLORS[a[1] - 1])
        elif r < 0.7:
            kwargs["bg"] = COLORS[a[1] - 1]
        else:
            kwargs["bg"] = 39 + a[1]
    for s, v in zip(STYLES, a[2:]):
        if v == 1:
            if rng.random() < 0.5:
                args.append(s)
            else:
                kwargs[s] = True
        elif v == 2:
            kwargs[s] = False
    rng.shuffle(args)
    return args, kwargs


OBS = ["str", "len", "s", "width", "hash", "repr", "eq"]


def rand_expr(rng, depth=3, alphabet=None, p_obs=0.35):
    def wrap(node):
        if rng.random() < p_obs:
            return ["obs", node, rng.sample(OBS, rng.randint(1, 3))]
        return node

    def go(d):
        r = rng.random()
        if d == 0 or r < 0.25:
            args, kwargs = _rand_spec(rng)
            return wrap(["leaf", rand_text(rng, 5, alphabet), args, kwargs])
        if r < 0.45:
            return wrap(["add", go(d - 1), go(d - 1)])
        if r < 0.5:
            return wrap(["addstr", go(d - 1), rand_text(rng, 3, alphabet)])
        if r < 0.55:
            return wrap(["raddstr", rand_text(rng, 3, alphabet), go(d - 1)])
        if r < 0.65:
            return wrap(["func", rng.choice(COLORS + ["on_" + c for c in COLORS] + STYLES + ["plain"]), go(d - 1)])
        if r < 0.75:
            a, b = sorted([rng.randint(0, 8), rng.randint(0, 8)])
            return wrap(["slice", go(d - 1), a, b])
        if r < 0.8:
            return wrap(["mul", go(d - 1), rng.choice([0, 1, 2])])
        if r < 0.88:
            _, kwargs = _rand_spec(rng)
            kw = {k: (v if not isinstance(v, str) else 30 + COLORS.index(v) + (10 if k == "bg" else 0)) for k, v in kwargs.items()}
            return wrap(["cwna", go(d - 1), kw])
        if r < 0.94:
            return wrap(["nwar", go(d - 1), rng.sample(["fg", "bg"] + STYLES, rng.randint(0, 3))])
        args, kwargs = _rand_spec(rng)
        return wrap(["rewrap", go(d - 1), args, kwargs])

    return go(depth)


def observe(f, what):
    for w in what:
        try:
            if w == "str":
                str(f)
            elif w == "len":
                len(f)
            elif w == "s":
                f.s
            elif w == "width":
                f.width
            elif w == "hash":
                hash(f)
            elif w == "repr":
                repr(f)
            elif w == "eq":
                f == f.s
        except Exception:
            pass


def eval_expr(t):
    k = t[0]
    if k == "leaf":
        return fmtstr(t[1], *t[2], **t[3])
    if k == "add":
        return eval_expr(t[1]) + eval_expr(t[2])
    if k == "addstr":
        return eval_expr(t[1]) + t[2]
    if k == "raddstr":
        return t[1] + eval_expr(t[2])
    if k == "func":
        return getattr(fmtfuncs, t[1])(eval_expr(t[2]))
    if k == "slice":
        return eval_expr(t[1])[t[2]:t[3]]
    if k == "mul":
        return eval_expr(t[1]) * t[2]
    if k == "cwna":
        return eval_expr(t[1]).copy_with_new_atts(**t[2])
    if k == "nwar":
        return eval_expr(t[1]).new_with_atts_removed(*t[2])
    if k == "rewrap":
        return fmtstr(eval_expr(t[1]), *t[2], **t[3])
    if k == "obs":
        f = eval_expr(t[1])
        observe(f, t[2])
        return f
    raise ValueError("bad expression node %r" % (k,))


def expr_size(t):
    return 1 + sum(expr_size(x) for x in t[1:] if isinstance(x, list) and x and isinstance(x[0], str)
                   and x[0] in ("leaf", "add", "addstr", "raddstr", "func", "slice", "mul", "cwna", "nwar", "rewrap", "obs"))


def shrink_expr(t):
    """smaller candidate trees"""
    k = t[0]
    kids = [i for i, x in enumerate(t) if i > 0 and isinstance(x, list) and x and isinstance(x[0], str)
            and x[0] in ("leaf", "add", "addstr", "raddstr", "func", "slice", "mul", "cwna", "nwar", "rewrap", "obs")]
    for i in kids:
        yield t[i]
    for i in kids:
        for c in shrink_expr(t[i]):
            yield t[:i] + [c] + t[i + 1:]
    if k == "leaf" and len(t[1]) > 1:
        yield ["leaf", t[1][:1], t[2], t[3]]
