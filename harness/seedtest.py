#!/venv/bin/python
"""Confirm a seeded change and run the registered checks against it.

    seedtest.py confirm <srcdir> <name>      srcdir holds patch.diff, demo.py, meta.json (from a seeding agent);
                                             confirms in a scratch worktree that the test suite passes with the patch,
                                             the demo fails with it and passes without it; then stores it as
                                             /verif/seeded/<name>/
    seedtest.py run <name> [<PROP> ...]      applies /verif/seeded/<name>/patch.diff to /repo, runs the quick check of
                                             the given properties (default: the one in meta.json), undoes the patch,
                                             and records the verdicts in /verif/seeded/<name>/meta.json
"""
import json
import os
import shutil
import subprocess
import sys
import time

ROOT = os.path.dirname(os.path.dirname(os.path.abspath(__file__)))
SEEDED = os.path.join(ROOT, "seeded")
PY = "/venv/bin/python"


def sh(cmd, cwd=None, env=None, timeout=1800):
    r = subprocess.run(cmd, shell=True, cwd=cwd, env=env, capture_output=True, text=True, timeout=timeout)
    return r.returncode, r.stdout + r.stderr


def confirm(src, name):
    wt = "/tmp/seedconfirm_%s" % name
    sh("git -C /repo worktree remove --force %s" % wt)
    rc, out = sh("git -C /repo worktree add -q --detach %s HEAD" % wt)
    assert rc == 0, out
    try:
        env = dict(os.environ, PYTHONPATH=wt, TERM="xterm-256color", PYTHONDONTWRITEBYTECODE="1")
        demo = os.path.join(src, "demo.py")
        rc0, out0 = sh("%s %s" % (PY, demo), cwd=wt, env=env, timeout=600)
        rc, out = sh("git apply %s" % os.path.join(src, "patch.diff"), cwd=wt)
        assert rc == 0, "patch does not apply: " + out
        rct, outt = sh("%s -m pytest -q -p no:cacheprovider 2>&1 | tail -1" % PY, cwd=wt, env=env, timeout=900)
        rc1, out1 = sh("%s %s" % (PY, demo), cwd=wt, env=env, timeout=600)
        ok = (rc0 == 0) and (rc1 != 0) and (" passed" in outt and "failed" not in outt)
        print("demo clean rc=%d | tests with patch: %s | demo with patch rc=%d => %s" % (
            rc0, outt.strip().splitlines()[-1] if outt.strip() else "?", rc1, "CONFIRMED" if ok else "REJECTED"))
        if not ok:
            print(out0[-500:], out1[-500:])
            return 1
        dst = os.path.join(SEEDED, name)
        os.makedirs(dst, exist_ok=True)
        for f in ("patch.diff", "demo.py"):
            shutil.copy(os.path.join(src, f), os.path.join(dst, f))
        meta = json.load(open(os.path.join(src, "meta.json")))
        meta["confirmed"] = {
            "tests_with_patch": outt.strip().splitlines()[-1],
            "demo_without_patch_rc": rc0, "demo_with_patch_rc": rc1,
            "how": "scratch git worktree of /repo HEAD; PYTHONPATH=<worktree> /venv/bin/python demo.py; "
                   "/venv/bin/python -m pytest -q -p no:cacheprovider",
        }
        json.dump(meta, open(os.path.join(dst, "meta.json"), "w"), indent=1)
        return 0
    finally:
        sh("git -C /repo worktree remove --force %s" % wt)


def run(name, props, scratch=False, iso=False):
    """iso: run in a private copy of /verif (built files included) against a scratch copy of /repo, so that
    changes which alter the generated tables can be tried while other work goes on in /verif and /repo"""
    dst = os.path.join(SEEDED, name)
    meta = json.load(open(os.path.join(dst, "meta.json")))
    if not props:
        props = [meta["property"]]
    env = dict(os.environ)
    if scratch:
        # while other work uses /repo: run against a scratch copy (only for changes that leave the generated tables alone)
        wt = "/tmp/seedrun_%s" % name
        sh("rm -rf %s" % wt)
        sh("cp -r /repo %s && rm -rf %s/.git" % (wt, wt))
        rc, out = sh("patch -p1 -d %s < %s" % (wt, os.path.join(dst, "patch.diff")))
        assert rc == 0, out
        rc, out = sh("CURTSIES_REPO=%s GEN_TABLES_STDOUT=1 %s gen/gen_tables.py | cmp - coq/Gen/Tables.v" % (wt, PY), cwd=ROOT)
        if rc != 0 and iso:
            rc = 0
        if rc != 0:
            print("%s changes the generated tables: needs an exclusive run against /repo (skipped)" % name)
            sh("rm -rf %s" % wt)
            return 2
        env["CURTSIES_REPO"] = wt
    else:
        rc, out = sh("git -C /repo status --porcelain")
        assert out.strip() == "", "/repo not clean: " + out
        rc, out = sh("git -C /repo apply %s" % os.path.join(dst, "patch.diff"))
        assert rc == 0, out
    results = meta.setdefault("checks", {})
    run_root = ROOT
    if iso:
        run_root = "/tmp/verif_iso_%s" % name
        sh("rm -rf %s" % run_root)
        rc, out = sh("rsync -a --exclude .git --exclude replays --exclude 'coq/Cases/*' %s/ %s/" % (ROOT, run_root))
        assert rc == 0, out
    try:
        for p in props:
            t0 = time.time()
            rc, out = sh("%s harness/check.py %s --tier quick" % (PY, p), cwd=run_root, env=env, timeout=3600)
            if iso:
                out = out.replace(run_root + "/", ROOT + "/")
                sh("mkdir -p %s/replays && cp -n %s/replays/* %s/replays/ 2>/dev/null" % (ROOT, run_root, ROOT))
            vio = [l for l in out.splitlines() if l.startswith("VIOLATION")]
            results[p] = {"exit": rc, "violation_line": vio[0] if vio else None, "wall_s": round(time.time() - t0, 1),
                          "caught": bool(rc != 0 and vio)}
            print("%s on %s: exit=%d %s" % (p, name, rc, vio[0] if vio else "(no VIOLATION line)"))
            if vio and "replay=" in vio[0]:
                rp = vio[0].split("replay=")[1].split()[0]
                if os.path.exists(rp):
                    body = json.load(open(rp))
                    results[p]["replay_kind"] = body.get("kind")
                    results[p]["replay_input"] = body.get("input")
            results[p]["ran_against"] = ("private copy of /verif + scratch copy of /repo" if iso else "scratch copy of /repo (CURTSIES_REPO)") if scratch else "/repo with the patch applied, undone afterwards"
    finally:
        if iso:
            sh("rm -rf %s" % run_root)
        if scratch:
            sh("rm -rf %s" % wt)
        else:
            sh("git -C /repo checkout -- .")
            rc, out = sh("git -C /repo status --porcelain")
            assert out.strip() == "", "/repo not clean after undo: " + out
    json.dump(meta, open(os.path.join(dst, "meta.json"), "w"), indent=1)
    # evidence files were rewritten by runs against the patched tree: caller re-runs checks on the clean tree
    return 0


if __name__ == "__main__":
    if sys.argv[1] == "confirm":
        sys.exit(confirm(sys.argv[2], sys.argv[3]))
    elif sys.argv[1] == "run":
        sys.exit(run(sys.argv[2], sys.argv[3:]))
    elif sys.argv[1] == "run-scratch":
        sys.exit(run(sys.argv[2], sys.argv[3:], scratch=True))
    elif sys.argv[1] == "run-iso":
        sys.exit(run(sys.argv[2], sys.argv[3:], scratch=True, iso=True))
