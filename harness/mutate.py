#!/venv/bin/python
"""Systematic mutation run: small syntactic mutants of the functions the properties are anchored in, filtered by
the repository's own test suite (a mutant the 77 tests kill is not interesting), then judged by the quick checks of
the properties anchored in the mutated function.  Complements the hand-made seeded changes: it finds the places
where NO check looks.  Everything runs on scratch copies; /repo and /verif are never touched.

    mutate.py list  <file.py>                  enumerate the mutation points of a module of /repo/curtsies
    mutate.py run   <file.py> [--workers N] [--limit K] [--only FUNC]   run them, results -> /verif/mutants/<file>.jsonl
    mutate.py report                           survivors per function

The map function -> properties comes from the anchors of properties.jsonl (line ranges in the PINNED tree, resolved to
function names there, so later fix commits do not shift it).
"""
import ast
import copy
import json
import os
import re
import shutil
import subprocess
import sys
import time
from concurrent.futures import ThreadPoolExecutor

ROOT = os.path.dirname(os.path.dirname(os.path.abspath(__file__)))
REPO = "/repo"
PY = "/venv/bin/python"
OUT = os.path.join(ROOT, "mutants")
PINNED = open("/root/.vp/repo_root_sha").read().strip()


def sh(cmd, cwd=None, env=None, timeout=3600):
    r = subprocess.run(cmd, shell=True, cwd=cwd, env=env, capture_output=True, text=True, timeout=timeout)
    return r.returncode, r.stdout + r.stderr


# ---- function -> properties --------------------------------------------------------------------
def func_spans(src):
    """[(qualified name, first line, last line)] of every function / method"""
    out = []

    def walk(node, prefix):
        for n in ast.iter_child_nodes(node):
            if isinstance(n, (ast.FunctionDef, ast.AsyncFunctionDef)):
                out.append((prefix + n.name, n.lineno, n.end_lineno))
                walk(n, prefix + n.name + ".")
            elif isinstance(n, ast.ClassDef):
                walk(n, prefix + n.name + ".")
            else:
                walk(n, prefix)
    walk(ast.parse(src), "")
    return out


def anchor_map():
    """{file: {function qualified name: set(property ids)}} from the anchors' line ranges in the pinned tree"""
    props = [json.loads(l) for l in open(os.path.join(ROOT, "properties.jsonl"))]
    m = {}
    cache = {}
    for p in props:
        wheres = []
        for sect in ("mechanism", "state"):
            for a in p["anchors"].get(sect, []):
                if a.get("where"):
                    wheres.append(a["where"])
        for w in wheres:
            for part in re.findall(r"(curtsies/\w+\.py)(?::([\d,\-]+))?", w):
                f, ranges = part
                if f not in cache:
                    rc, src = sh("git -C %s show %s:%s" % (REPO, PINNED, f))
                    cache[f] = func_spans(src) if rc == 0 else []
                spans = cache[f]
                fm = m.setdefault(f, {})
                if not ranges:
                    for name, _, _ in spans:
                        fm.setdefault(name, set()).add(p["id"])
                    fm.setdefault("<module>", set()).add(p["id"])
                    continue
                for r in ranges.split(","):
                    a, _, b = r.partition("-")
                    if not a:
                        continue
                    a = int(a)
                    b = int(b) if b else a
                    hit = False
                    for name, lo, hi in spans:
                        if lo <= b and a <= hi:
                            fm.setdefault(name, set()).add(p["id"])
                            hit = True
                    if not hit:
                        fm.setdefault("<module>", set()).add(p["id"])
    # helpers: a function of the same module that an anchored function calls (by simple name) inherits its properties
    for f, fm in m.items():
        try:
            src = open(os.path.join(REPO, f)).read()
        except OSError:
            continue
        tree = ast.parse(src)
        bodies = {}

        def walk(node, prefix):
            for n in ast.iter_child_nodes(node):
                if isinstance(n, (ast.FunctionDef, ast.AsyncFunctionDef)):
                    bodies[prefix + n.name] = n
                    walk(n, prefix + n.name + ".")
                elif isinstance(n, ast.ClassDef):
                    walk(n, prefix + n.name + ".")
                else:
                    walk(n, prefix)
        walk(tree, "")
        simple = {}
        for q in bodies:
            simple.setdefault(q.rsplit(".", 1)[-1], []).append(q)
        for _ in range(3):
            for q, node in bodies.items():
                ps = fm.get(q, set())
                if not ps:
                    continue
                for c in ast.walk(node):
                    name = None
                    if isinstance(c, ast.Call):
                        if isinstance(c.func, ast.Name):
                            name = c.func.id
                        elif isinstance(c.func, ast.Attribute):
                            name = c.func.attr
                    elif isinstance(c, ast.Attribute):
                        name = c.attr                 # properties (chunk.width, self.divides)
                    if name in simple and not name.startswith("__"):
                        for callee in simple[name]:
                            fm.setdefault(callee, set()).update(ps)
    return m


# ---- mutation operators ------------------------------------------------------------------------------
CMP = {ast.Lt: ast.LtE, ast.LtE: ast.Lt, ast.Gt: ast.GtE, ast.GtE: ast.Gt, ast.Eq: ast.NotEq, ast.NotEq: ast.Eq,
       ast.Is: ast.IsNot, ast.IsNot: ast.Is, ast.In: ast.NotIn, ast.NotIn: ast.In}
BIN = {ast.Add: ast.Sub, ast.Sub: ast.Add, ast.Mult: ast.FloorDiv, ast.BitAnd: ast.BitOr, ast.BitOr: ast.BitAnd}


def is_log_or_doc(stmt):
    if isinstance(stmt, ast.Expr):
        v = stmt.value
        if isinstance(v, ast.Constant) and isinstance(v.value, str):
            return True
        if isinstance(v, ast.Call) and isinstance(v.func, ast.Attribute) and isinstance(v.func.value, ast.Name) \
                and v.func.value.id in ("logger", "logging", "warnings"):
            return True
    return False


class Points(ast.NodeVisitor):
    """enumerates (function, description, path) mutation points; path = how to find the node again in a copy"""

    def __init__(self):
        self.points = []
        self.fn = []
        self.counter = 0
        self.skip_depth = 0

    def add(self, node, kind, desc):
        self.points.append({"fn": ".".join(self.fn) or "<module>", "kind": kind, "desc": desc, "node_id": node._mid,
                            "line": getattr(node, "lineno", 0)})

    def generic_visit(self, node):
        node._mid = self.counter
        self.counter += 1
        if isinstance(node, (ast.FunctionDef, ast.AsyncFunctionDef, ast.ClassDef)):
            self.fn.append(node.name)
            # annotations / decorators / defaults are not mutated
            for st in node.body:
                self.visit(st)
            self.fn.pop()
            return
        if isinstance(node, ast.stmt) and is_log_or_doc(node):
            return
        if isinstance(node, (ast.AnnAssign,)) and node.value is not None:
            self.visit(node.value)
            return
        if isinstance(node, ast.Raise):
            return                                   # messages and exception classes: out of scope here
        if self.fn:
            if isinstance(node, ast.Compare) and len(node.ops) == 1 and type(node.ops[0]) in CMP:
                self.add(node, "cmp", "%s -> %s" % (type(node.ops[0]).__name__, CMP[type(node.ops[0])].__name__))
            if isinstance(node, ast.BinOp) and type(node.op) in BIN and not (
                    isinstance(node.op, ast.Mod) or isinstance(node.left, ast.Constant) and isinstance(node.left.value, str)):
                self.add(node, "bin", "%s -> %s" % (type(node.op).__name__, BIN[type(node.op)].__name__))
            if isinstance(node, ast.BoolOp):
                self.add(node, "bool", "and <-> or")
            if isinstance(node, ast.UnaryOp) and isinstance(node.op, ast.Not):
                self.add(node, "not", "drop not")
            if isinstance(node, ast.Constant) and type(node.value) is int and abs(node.value) <= 16:
                self.add(node, "int+1", "%d -> %d" % (node.value, node.value + 1))
                if node.value != 0:
                    self.add(node, "int-1", "%d -> %d" % (node.value, node.value - 1))
            if isinstance(node, ast.Constant) and type(node.value) is bool:
                self.add(node, "boolc", "%s -> %s" % (node.value, not node.value))
            if isinstance(node, (ast.If, ast.While)) and not isinstance(node.test, ast.Constant):
                self.add(node, "negtest", "negate the test")
            if isinstance(node, ast.IfExp):
                self.add(node, "negtest", "negate the test of the conditional expression")
            if isinstance(node, (ast.Break, ast.Continue)):
                self.add(node, "delstmt", "delete %s" % type(node).__name__.lower())
            if isinstance(node, ast.AugAssign):
                self.add(node, "delstmt", "delete augmented assignment")
            if isinstance(node, ast.Expr) and isinstance(node.value, ast.Call):
                self.add(node, "delstmt", "delete call statement %s" % ast.unparse(node.value.func)[:40])
            if isinstance(node, ast.Return) and node.value is not None and not isinstance(node.value, ast.Constant):
                self.add(node, "retnone", "return None instead")
        super().generic_visit(node)


def number(tree):
    p = Points()
    p.visit(tree)
    return p.points


class Apply(ast.NodeTransformer):
    def __init__(self, point):
        self.point = point
        self.counter = 0
        self.done = False

    def generic_visit(self, node):
        mid = self.counter
        self.counter += 1
        target = (mid == self.point["node_id"])
        kind = self.point["kind"]
        # keep numbering identical to Points.generic_visit
        if isinstance(node, (ast.FunctionDef, ast.AsyncFunctionDef, ast.ClassDef)):
            node.body = [self.visit(st) for st in node.body]
            node.body = [st for st in node.body if st is not None] or [ast.Pass()]
            return node
        if isinstance(node, ast.stmt) and is_log_or_doc(node):
            return node
        if isinstance(node, ast.AnnAssign) and node.value is not None:
            node.value = self.visit(node.value)
            return node
        if isinstance(node, ast.Raise):
            return node
        if target:
            self.done = True
            if kind == "cmp":
                node.ops = [CMP[type(node.ops[0])]()]
            elif kind == "bin":
                node.op = BIN[type(node.op)]()
            elif kind == "bool":
                node.op = ast.Or() if isinstance(node.op, ast.And) else ast.And()
            elif kind == "not":
                return node.operand
            elif kind == "int+1":
                return ast.copy_location(ast.Constant(node.value + 1), node)
            elif kind == "int-1":
                return ast.copy_location(ast.Constant(node.value - 1), node)
            elif kind == "boolc":
                return ast.copy_location(ast.Constant(not node.value), node)
            elif kind == "negtest":
                node.test = ast.UnaryOp(ast.Not(), node.test)
            elif kind == "delstmt":
                return ast.copy_location(ast.Pass(), node)
            elif kind == "retnone":
                node.value = ast.Constant(None)
            return node
        return super().generic_visit(node)


def mutants_of(path):
    src = open(path).read()
    tree = ast.parse(src)
    return src, number(tree)


def apply_point(src, point):
    tree = ast.parse(src)
    a = Apply(point)
    new = a.visit(tree)
    assert a.done, point
    ast.fix_missing_locations(new)
    return ast.unparse(new) + "\n"


# ---- running ---------------------------------------------------------------------------------------------
def worker_dirs(k):
    return "/tmp/mut_repo_%d" % k, "/tmp/mut_verif_%d" % k


def setup_worker(k):
    r, v = worker_dirs(k)
    sh("rm -rf %s %s" % (r, v))
    sh("cp -r %s %s && rm -rf %s/.git" % (REPO, r, r))
    rc, out = sh("rsync -a --exclude .git --exclude replays --exclude mutants --exclude seeded --exclude 'coq/Cases/*' %s/ %s/" % (ROOT, v))
    assert rc == 0, out


def judge(k, relfile, src, point, props):
    r, v = worker_dirs(k)
    target = os.path.join(r, relfile)
    orig = open(os.path.join(REPO, relfile)).read()
    try:
        mutated = apply_point(src, point)
    except Exception as e:  # noqa
        return {"status": "unparsable", "error": str(e)[:200]}
    if mutated == ast.unparse(ast.parse(orig)) + "\n":
        return {"status": "no-change"}
    open(target, "w").write(mutated)
    try:
        env = dict(os.environ, PYTHONPATH=r, TERM="xterm-256color", PYTHONDONTWRITEBYTECODE="1")
        rc, out = sh("%s -c 'import curtsies, curtsies.window, curtsies.input'" % PY, cwd=r, env=env, timeout=120)
        if rc != 0:
            return {"status": "import-error"}
        try:
            rc, out = sh("%s -m pytest -x -q -p no:cacheprovider 2>&1 | tail -1" % PY, cwd=r, env=env, timeout=300)
        except subprocess.TimeoutExpired:
            return {"status": "killed-by-tests", "detail": "timeout"}
        if " passed" not in out or "failed" in out or "error" in out.lower():
            return {"status": "killed-by-tests"}
        verdicts = {}
        env2 = dict(os.environ, CURTSIES_REPO=r)
        for p in props:
            t0 = time.time()
            try:
                rc, out = sh("%s harness/check.py %s --tier quick" % (PY, p), cwd=v, env=env2, timeout=1500)
            except subprocess.TimeoutExpired:
                rc, out = 124, "timeout"
            vio = [l for l in out.splitlines() if l.startswith("VIOLATION")]
            verdicts[p] = {"rc": rc, "violation": vio[0].replace(v, ROOT) if vio else None, "wall": round(time.time() - t0, 1)}
            if rc != 0 and vio:
                break                                  # one check that reports it is enough
        caught = [p for p, d in verdicts.items() if d["rc"] != 0 and d["violation"]]
        if not caught and any(d["rc"] == 124 for d in verdicts.values()):
            return {"status": "TIMEOUT", "by": [], "verdicts": verdicts}      # the check did not end: no verdict
        return {"status": "caught" if caught else "SURVIVED", "by": caught, "verdicts": verdicts}
    finally:
        open(target, "w").write(orig)


def run(relname, workers, limit, only):
    relfile = "curtsies/" + relname
    src, points = mutants_of(os.path.join(REPO, relfile))
    amap = anchor_map().get(relfile, {})
    os.makedirs(OUT, exist_ok=True)
    outpath = os.path.join(OUT, relname.replace(".py", "") + ".jsonl")
    done = set()
    if os.path.exists(outpath):
        for l in open(outpath):
            d = json.loads(l)
            done.add((d["fn"], d["kind"], d["node_id"]))
    todo = []
    for pt in points:
        names = [pt["fn"]] + [pt["fn"].rsplit(".", i)[0] for i in range(1, pt["fn"].count(".") + 1)]
        props = set()
        for n in names:
            props |= amap.get(n, set())
        # an unanchored method (dunder methods, small accessors): the properties anchored in its class, at most 4
        if not props and "." in pt["fn"]:
            cls = pt["fn"].split(".")[0]
            cnt = {}
            for n, ps in amap.items():
                if n.startswith(cls + "."):
                    for q in ps:
                        cnt[q] = cnt.get(q, 0) + 1
            props = set(sorted(cnt, key=lambda q: -cnt[q])[:4])
        if not props:
            continue
        if only and only not in pt["fn"]:
            continue
        if (pt["fn"], pt["kind"], pt["node_id"]) in done:
            continue
        pt["props"] = sorted(props)
        todo.append(pt)
    if limit:
        todo = todo[:limit]
    print("%s: %d mutation points in anchored functions, %d to run" % (relfile, len(points), len(todo)), flush=True)
    for k in range(workers):
        setup_worker(k)
    import queue
    q = queue.Queue()
    for pt in todo:
        q.put(pt)
    lock = __import__("threading").Lock()

    def work(k):
        while True:
            try:
                pt = q.get_nowait()
            except queue.Empty:
                return
            res = judge(k, relfile, src, pt, pt["props"])
            rec = dict(pt, **res)
            with lock:
                with open(outpath, "a") as f:
                    f.write(json.dumps(rec) + "\n")
                print("%-45s %-8s line %-4d %-28s -> %s %s" % (pt["fn"][:45], pt["kind"], pt["line"], pt["desc"][:28],
                                                            res["status"], ",".join(res.get("by", []))), flush=True)
    with ThreadPoolExecutor(workers) as ex:
        list(ex.map(work, range(workers)))
    for k in range(workers):
        r, v = worker_dirs(k)
        sh("rm -rf %s %s" % (r, v))


def rerun(workers):
    """judge the survivors (and the runs that did not end) again with the checks as they are now"""
    import glob
    import queue
    for k in range(workers):
        setup_worker(k)
    jobs = []
    files = {}
    for p in sorted(glob.glob(os.path.join(OUT, "*.jsonl"))):
        rows = [json.loads(l) for l in open(p)]
        files[p] = rows
        relfile = "curtsies/" + os.path.basename(p).replace(".jsonl", ".py")
        src = open(os.path.join(REPO, relfile)).read()
        for i, r in enumerate(rows):
            if r["status"] in ("SURVIVED", "TIMEOUT") and not r.get("triage"):
                jobs.append((p, i, relfile, src))
    q = queue.Queue()
    for j in jobs:
        q.put(j)
    lock = __import__("threading").Lock()
    print("%d mutants to judge again" % len(jobs), flush=True)

    def work(k):
        while True:
            try:
                p, i, relfile, src = q.get_nowait()
            except queue.Empty:
                return
            r = files[p][i]
            pt = {kk: r[kk] for kk in ("fn", "kind", "desc", "node_id", "line")}
            res = judge(k, relfile, src, pt, r["props"])
            with lock:
                files[p][i] = dict(r, **res)
                with open(p, "w") as f:
                    for rr in files[p]:
                        f.write(json.dumps(rr) + "\n")
                print("%-45s %-8s line %-4d %-28s -> %s %s" % (r["fn"][:45], r["kind"], r["line"], r["desc"][:28],
                                                            res["status"], ",".join(res.get("by", []))), flush=True)
    with ThreadPoolExecutor(workers) as ex:
        list(ex.map(work, range(workers)))
    for p, rows in files.items():
        with open(p, "w") as f:
            for r in rows:
                f.write(json.dumps(r) + "\n")
    for k in range(workers):
        r_, v_ = worker_dirs(k)
        sh("rm -rf %s %s" % (r_, v_))


def report():
    import glob
    for p in sorted(glob.glob(os.path.join(OUT, "*.jsonl"))):
        rows = [json.loads(l) for l in open(p)]
        c = {}
        for r in rows:
            c[r["status"]] = c.get(r["status"], 0) + 1
        print(os.path.basename(p), c)
        for r in rows:
            if r["status"] == "SURVIVED":
                print("   SURVIVED %-40s line %-4d %-8s %-30s props=%s" % (r["fn"], r["line"], r["kind"], r["desc"], ",".join(r["props"])))


if __name__ == "__main__":
    cmd = sys.argv[1]
    if cmd == "list":
        src, pts = mutants_of(os.path.join(REPO, "curtsies", sys.argv[2]))
        amap = anchor_map().get("curtsies/" + sys.argv[2], {})
        for pt in pts:
            print(pt["fn"], pt["line"], pt["kind"], pt["desc"], sorted(amap.get(pt["fn"], [])))
        print(len(pts))
    elif cmd == "run":
        args = sys.argv[3:]
        workers = int(args[args.index("--workers") + 1]) if "--workers" in args else 4
        limit = int(args[args.index("--limit") + 1]) if "--limit" in args else 0
        only = args[args.index("--only") + 1] if "--only" in args else None
        run(sys.argv[2], workers, limit, only)
    elif cmd == "rerun":
        rerun(int(sys.argv[2]) if len(sys.argv) > 2 else 4)
    elif cmd == "report":
        report()
