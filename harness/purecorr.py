"""Validation of the PyMini reference interpreter (coq/Spec/PyMini.v) against CPython: the real pure helpers
of /repo are run on enumerated arguments, and Coq runs the interpreter on the syntax trees regenerated from
their source (coq/Gen/Pure.v) on the same arguments.  Used as an extra correspondence pass by the checks whose
models are tied to the source through Proofs/PureTie.v (C03, C06, C10)."""
import itertools

import canon

REQUIRE = "From Curtsies Require Import Model.Base Spec.PyMini Gen.Pure Corr.PureCorr."
CASE_TYPE = "PureCorr.case"
MODEL_OK = "PureCorr.model_ok"
SPEC_OK = "PureCorr.spec_ok"
CORR_VO = "Corr/PureCorr.vo"
SHARD = 400


def coq_val(v):
    if v is None:
        return "VNone"
    if v is True or v is False:
        return "(VBool %s)" % ("true" if v else "false")
    if type(v) is int:
        return "(VInt (%d)%%Z)" % v
    if isinstance(v, slice):
        return "(VSlice %s %s %s)" % (coq_val(v.start), coq_val(v.stop), coq_val(v.step))
    if isinstance(v, bytes):
        return "(VBytes [%s]%%N)" % ";".join(str(b) for b in v)
    raise ValueError("value outside PyMini: %r" % (v,))


def _normalize_slice_args(tier):
    lim = 7 if tier == "thorough" else 4
    bounds = [None] + list(range(-lim - 2, lim + 3))
    for length in range(0, lim + 1):
        for i in range(-lim - 2, lim + 3):
            yield (length, i)
        for a in bounds:
            for b in bounds:
                yield (length, slice(a, b, None))
        for a, b in [(None, None), (0, 2), (-1, None), (None, -9)]:
            for st in (1, 2, -1):
                yield (length, slice(a, b, st))


def _interval_args(tier):
    r = range(-2, 6 if tier == "thorough" else 4)
    for a, b, x, y in itertools.product(r, repeat=4):
        yield (a, b, x, y)


def _utf8_args(tier):
    yield (b"",)
    tails = [b"", b"\x80", b"\xbf\x80", b"a\x80\x80", b"\x80\x80\x80\x80", b"\x80\x80\x80\x80\x80", b"\x80" * 6]
    for o in range(256):
        for t in tails:
            yield (bytes([o]) + t,)


FUNCS = {
    "normalize_slice": ("curtsies.formatstring", "py_normalize_slice", _normalize_slice_args),
    "interval_overlap": ("curtsies.formatstring", "py_interval_overlap", _interval_args),
    "could_be_unfinished_utf8": ("curtsies.events", "py_could_be_unfinished_utf8", _utf8_args),
}


class Pass:
    """one function's pass, with the interface lib.evaluate needs"""
    REQUIRE, CASE_TYPE, MODEL_OK, SPEC_OK, SHARD = REQUIRE, CASE_TYPE, MODEL_OK, SPEC_OK, SHARD

    def __init__(self, fname):
        import importlib
        self.fname = fname
        modname, self.coqname, self.args = FUNCS[fname]
        self.fn = getattr(importlib.import_module(modname), fname)

    def inputs(self, tier):
        return list(self.args(tier))

    def run(self, args):
        return canon.outcome(lambda: self.fn(*args))

    def to_coq(self, args, out):
        exp = "(Ok %s)" % coq_val(out[1]) if out[0] == "ok" else "(Raise %s)" % out[1]
        return "PureCorr.mkCase %s [%s] %s" % (self.coqname, "; ".join(coq_val(a) for a in args), exp)
