"""Validation of the PyMini reference interpreter (coq/Spec/PyMini.v) against CPython: the real pure helpers
of /repo are run on enumerated arguments, and Coq runs the interpreter on the syntax trees regenerated from
their source (coq/Gen/Pure.v) on the same arguments, in the context coq/Spec/PyEnv.v (module globals from the
generated tables, callees = the other generated trees, oracles for bytes.decode / codecs.getdecoder -- so the
oracles are validated against CPython here too).  Used as an extra correspondence pass by the checks whose
models are tied to the source through Proofs/PureTie.v / Proofs/PureTieKeys.v (C03, C06, C10, C20).

The slicing algorithms of FmtStr (coq/Gen/PureFmt.v: FmtStr.__getitem__, FmtStr.divides, width_aware_slice,
FmtStr.width_aware_slice) are run the same way in the contexts of coq/Spec/PyEnvFmt.v: the real methods on
enumerated FmtStrs (layouts of up to 3 runs over a small alphabet with wide, combining and control characters,
every int index and slice bound within 2 of the ends); what comes back is compared as an object -- the runs, text
AND attributes -- or by exception class.  This validates the interpreter's loops / objects / local lists and the
named oracles of that context (Chunk, FmtStr, fmtstr, len(fs), fs.s, fs.width, chunk.width, wcwidth, wcswidth)."""
import enum
import inspect
import itertools

import canon

REQUIRE = ("From Coq Require Import String.\nFrom Curtsies Require Import Model.Base Spec.PyMini Gen.Pure Gen.PureFmt "
           "Spec.PyEnv Spec.PyEnvFmt Corr.PureCorr.\nLocal Open Scope string_scope.")
CASE_TYPE = "PureCorr.case"
MODEL_OK = "PureCorr.model_ok"
SPEC_OK = "PureCorr.spec_ok"
CORR_VO = "Corr/PureCorr.vo"
SHARD = 400


class FS:
    """a FmtStr argument / result, given by its runs [[text, atts-tuple], ...] (canon.canon_fs)"""
    def __init__(self, runs):
        self.runs = [[t, list(a)] for t, a in runs]

    def __repr__(self):
        return "FS(%r)" % (self.runs,)


def coq_val(v):
    if isinstance(v, FS):
        return "(PureCorr.fs %s)" % canon.coq_fs(v.runs)
    if v is None:
        return "VNone"
    if v is True or v is False:
        return "(VBool %s)" % ("true" if v else "false")
    if type(v) is int:
        return "(VInt (%d)%%Z)" % v
    if isinstance(v, slice):
        return "(VSlice %s %s %s)" % (coq_val(v.start), coq_val(v.stop), coq_val(v.step))
    if isinstance(v, bytes):
        return "(VBytes [%s]%%N)" % ";".join(str(b) for b in v)
    if isinstance(v, str):
        return "(VStr [%s]%%N)" % ";".join(str(ord(c)) for c in v)
    if isinstance(v, enum.Enum):
        return '(PureCorr.kn "%s")' % v.name
    if isinstance(v, list):
        if all(isinstance(x, bytes) and len(x) == 1 for x in v):
            return "(PureCorr.bl [%s]%%N)" % ";".join(str(x[0]) for x in v)      # = VList [VBytes [b]; ...]
        if v and all(type(x) is int for x in v):
            return "(PureCorr.zl [%s]%%Z)" % ";".join(str(x) for x in v)
        return "(VList [%s])" % "; ".join(coq_val(x) for x in v)
    raise ValueError("value outside PyMini: %r" % (v,))


def _normalize_slice_args(tier):
    lim = 7 if tier == "thorough" else 4
    bounds = [None] + list(range(-lim - 2, lim + 3))
    for length in range(0, lim + 1):
        for i in range(-lim - 2, lim + 3):
            yield (length, i)
        for a in bounds:
            for b in bounds:
                yield (length, slice(a, b, None))
        for a, b in [(None, None), (0, 2), (-1, None), (None, -9)]:
            for st in (1, 2, -1):
                yield (length, slice(a, b, st))


def _interval_args(tier):
    r = range(-2, 6 if tier == "thorough" else 4)
    for a, b, x, y in itertools.product(r, repeat=4):
        yield (a, b, x, y)


def _utf8_args(tier):
    yield (b"",)
    tails = [b"", b"\x80", b"\xbf\x80", b"a\x80\x80", b"\x80\x80\x80\x80", b"\x80\x80\x80\x80\x80", b"\x80" * 6]
    for o in range(256):
        for t in tails:
            yield (bytes([o]) + t,)


# ---- the key-decoding cascade (curtsies.events) -----------------------------------------------------------------
ENCS = ["utf-8", "ascii", "latin-1"]
ALIASES = ["utf8", "UTF-8", "us-ascii", "latin1", "iso-8859-1"]
SAMPLE_NEXT = [0x41, 0x7E, 0x1B, 0x5B, 0x80, 0xC3, 0xFF]
CHARS = ["\x00", "a", "\x7f", "\x80", "\xe9", "\u07ff", "\u0800", "\u20ac", "\ud7ff", "\ue000", "\uffff",
         "\U00010000", "\U0001f600", "\U0010ffff"]
BAD_MULTI = [b"\xc3\x28", b"\xc0\x80", b"\xe0\x80\x80", b"\xed\xa0\x80", b"\xf4\x90\x80\x80", b"\xf8\x88\x80\x80\x80",
             b"\xfc\x84\x80\x80\x80\x80", b"\xff\xff", b"\x80\x80", b"\xe2\x82\x41", b"a\xff", b"\xc3\xa9\xc3"]


def _events():
    from curtsies import events
    return events


def _key_strings():
    """all table sequences and all their non-empty prefixes"""
    ev = _events()
    out = set()
    for k in list(ev.CURTSIES_NAMES) + list(ev.CURSES_NAMES):
        for i in range(1, len(k) + 1):
            out.add(k[:i])
    return sorted(out)


def _char_strings():
    out = set()
    for c in CHARS:
        b = c.encode("utf-8", "surrogatepass")
        for i in range(1, len(b) + 1):
            out.add(b[:i])
    return sorted(out) + BAD_MULTI


def _situations():
    ev = _events()
    return [(m, f) for m in (ev.Keynames.CURTSIES, ev.Keynames.CURSES, ev.Keynames.BYTES) for f in (False, True)]


def _chunks(b):
    return [bytes([x]) for x in b]


def _get_key_args(tier):
    ev = _events()
    sits = _situations()
    keys = _key_strings()
    n = 0
    # every table sequence and prefix, every single byte, characters and their prefixes, ill-formed ones:
    # all 3 encodings x 3 naming modes x 2
    base = keys + [bytes([b]) for b in range(256)] + _char_strings()
    longs = [bytes(range(65, 65 + ev.MAX_KEYPRESS_SIZE + 1)), b"\x1b" * (ev.MAX_KEYPRESS_SIZE + 1),
             bytes(range(65, 65 + ev.MAX_KEYPRESS_SIZE)), b"\xe2\x82\xac" * 3, b""]
    for s in base + longs:
        for enc in ENCS:
            for m, f in sits:
                yield (_chunks(s), enc, m, f)
    # ... each followed by a sample of bytes (quick: the situations rotate over the cases)
    for s in keys:
        for nb in SAMPLE_NEXT:
            t = s + bytes([nb])
            for enc in ENCS:
                if tier == "thorough":
                    for m, f in sits:
                        yield (_chunks(t), enc, m, f)
                else:
                    n += 1
                    m, f = sits[n % len(sits)]
                    yield (_chunks(t), enc, m, f)
    # default values of the parameters; aliases of the encoding names; chunks longer than one byte; not bytes
    for s in [b"a", b"\x1b", b"\x1b[A", b"\xc3", b"\xc3\xa9", b"\xff", b"\x1b\xc3"]:
        for enc in ENCS + ALIASES:
            yield (_chunks(s), enc)
            yield (_chunks(s), enc, ev.Keynames.CURSES)
            yield (_chunks(s), enc, ev.Keynames.BYTES, True)
    for enc in ENCS:
        yield ([b"\x1b[", b"A"], enc, ev.Keynames.CURTSIES, False)
        yield ([b"", b"\xe2\x82", b"", b"\xac"], enc, ev.Keynames.CURSES, True)
        yield ([], enc, ev.Keynames.CURTSIES, True)
        yield ([27], enc, ev.Keynames.CURTSIES, True)
        yield ([b"a", "b"], enc, ev.Keynames.CURTSIES, False)
        yield ([b"a", None], enc, ev.Keynames.BYTES, False)
        yield (b"ab", enc, ev.Keynames.CURTSIES, False)          # iterating bytes yields ints


def _unfinished_char_args(tier):
    tails = [b"", b"\x80", b"\xbf\x80", b"a\x80\x80", b"\x80\x80\x80\x80", b"\x80\x80\x80\x80\x80", b"\x80" * 6]
    for enc in ENCS + (ALIASES if tier == "thorough" else ALIASES[:2]):
        yield (b"", enc)
        for o in range(256):
            for i, t in enumerate(tails):
                if tier == "thorough" or enc in ENCS or (o + i) % 5 == 0:
                    yield (bytes([o]) + t, enc)
        for s in _char_strings():
            yield (s, enc)


def _decodable_args(tier):
    for enc in ENCS + ALIASES:
        yield (b"", enc)
        for o in range(256):
            yield (bytes([o]), enc)
        for s in _char_strings():
            yield (s, enc)
    step = 7 if tier == "thorough" else 61
    for enc in ENCS:
        for k in range(0, 65536, step):
            yield (bytes([k >> 8, k & 255]), enc)
        for s in _key_strings()[::3]:
            yield (s, enc)


def _key_name_args(tier):
    ev = _events()
    modes = (ev.Keynames.CURTSIES, ev.Keynames.CURSES, ev.Keynames.BYTES)
    base = _key_strings() + [bytes([b]) for b in range(256)] + _char_strings() + [b""]
    for s in base:
        for enc in ENCS:
            for m in modes:
                yield (s, enc, m)
    for s in [b"a", b"\xff", b"\x1b[A", b"\xc3\xa9"]:
        for enc in ALIASES:
            for m in modes:
                yield (s, enc, m)


# ---- the slicing algorithms of FmtStr (curtsies.formatstring) ------------------------------------------------------
RED = (2, 0, 0, 0, 0, 0, 0, 0)
PLAIN = (0,) * 8
BOLD_ON_BLUE = (0, 5, 1, 0, 0, 2, 0, 0)
WIDE, COMB, CTRL = "\u4e2d", "\u0300", "\x01"          # 2 columns, 0 columns (combining), wcwidth = -1


def _widths(chars):
    """association list (Coq) of the characters whose cwcwidth.wcwidth is not 1"""
    import cwcwidth
    return "[%s]" % "; ".join("(%d%%N, (%d)%%Z)" % (ord(c), cwcwidth.wcwidth(c)) for c in sorted(set(chars))
                              if cwcwidth.wcwidth(c) != 1)


def _layouts(texts, attss, maxruns):
    runs = [[t, list(a)] for t in texts for a in attss]
    for n in range(maxruns + 1):
        for combo in itertools.product(runs, repeat=n):
            yield [list(r) for r in combo]


def _bounds(n):
    return [None] + list(range(-n - 2, n + 3))


def _getitem_args(tier):
    texts = ["", "a", "bc", WIDE + COMB] if tier == "thorough" else ["", "a", "bc"]
    k = 0
    for runs in _layouts(texts, [PLAIN, RED], 3):
        n = sum(len(t) for t, _ in runs)
        for i in range(-n - 2, n + 3):
            yield (FS(runs), i)
        for a in _bounds(n):
            for b in _bounds(n):
                k += 1
                # quick: every slice for up to two runs, one in five for three runs
                if tier == "thorough" or len(runs) < 3 or k % 5 == 0:
                    yield (FS(runs), slice(a, b, None))
        yield (FS(runs), slice(0, 1, 1))
        yield (FS(runs), slice(None, None, -1))
    yield (FS([["a" + WIDE + COMB, list(BOLD_ON_BLUE)], ["", list(PLAIN)], [COMB + "xy", list(RED)]]), slice(1, 4, None))


def _divides_args(tier):
    for runs in _layouts(["", "a", "bc", WIDE + COMB + "d"], [PLAIN, RED], 3):
        yield (FS(runs),)


WAS_ALPHABET = ["a", WIDE, COMB, CTRL]


def _was_args(tier):
    import cwcwidth
    maxlen = 4 if tier == "thorough" else 3
    for n in range(maxlen + 1):
        for cs in itertools.product(WAS_ALPHABET, repeat=n):
            s = "".join(cs)
            w = sum(max(cwcwidth.wcwidth(c), 0) for c in s)
            for start in range(-2, w + 3):
                for end in range(-2, w + 3):
                    yield (s, start, end)
    for s in ["a" + WIDE + "b", WIDE + COMB + WIDE, COMB + "a"]:
        for start in range(-1, 5):
            for end in range(-1, 6):
                yield (s, start, end, "#")
                yield (s, start, end, "")
                yield (s, start, end, "<>")
                yield (s, start, end, WIDE)


def _fs_was_args(tier):
    import cwcwidth
    texts = ["", "a", WIDE, "a" + COMB, COMB] + (["b" + WIDE] if tier == "thorough" else [])
    k = j = 0
    for runs in _layouts(texts, [PLAIN, RED], 3):
        w = sum(max(cwcwidth.wcwidth(c), 0) for t, _ in runs for c in t)
        k += 1
        # quick: every layout of up to two runs, one in ten of three runs; a sample of the slices
        if tier != "thorough" and len(runs) == 3 and k % 10:
            continue
        for i in range(-w - 2, w + 3):
            yield (FS(runs), i)
        for a in _bounds(w):
            for b in _bounds(w):
                j += 1
                # thorough: every slice for up to two runs, every second one for three runs
                if len(runs) < 2 or (tier == "thorough" and (len(runs) == 2 or j % 2 == 0)) \
                        or (tier != "thorough" and j % (2 if len(runs) == 2 else 3) == 0):
                    yield (FS(runs), slice(a, b, None))
    # a character without a width: ValueError whatever the index; a step: NotImplementedError
    for runs in ([[CTRL, list(PLAIN)]], [["a", list(RED)], ["b" + CTRL, list(PLAIN)]], [["", list(PLAIN)], [CTRL + WIDE, list(RED)]]):
        for ix in (0, 1, -1, 5, slice(None, None, None), slice(0, 1, None), slice(1, None, 2)):
            yield (FS(runs), ix)
    yield (FS([["ab", list(PLAIN)]]), slice(0, 1, 1))


def _splice_args(tier):
    """FmtStr.splice(new, start[, end]): every layout of up to 3 runs over ("", "a", "bc") x 2 attribute sets, 7 operands
    (str incl. "", FmtStr without runs / with an empty run / several runs), every start and end within -1 .. len+2,
    end None and end omitted (the default); quick: all for up to one run, a sample beyond"""
    news = ["", "X", "YZ", FS([]), FS([["", list(RED)]]), FS([["P", list(BOLD_ON_BLUE)]]),
            FS([["Q", list(PLAIN)], ["", list(RED)], ["RS", list(RED)]])]
    k = 0
    for runs in _layouts(["", "a", "bc"], [PLAIN, RED], 3):
        n = sum(len(t) for t, _ in runs)
        every = 1 if (tier == "thorough" and len(runs) < 3) or len(runs) < 2 else \
            (3 if tier == "thorough" else (17 if len(runs) == 2 else 151))
        for new in news:
            for start in range(-1, n + 3):
                for end in ["omitted", None] + list(range(-1, n + 3)):
                    k += 1
                    if k % every:
                        continue
                    if end == "omitted":
                        yield (FS(runs), new, start)
                    else:
                        yield (FS(runs), new, start, end)
    wide = [["a" + WIDE + COMB, list(BOLD_ON_BLUE)], ["", list(PLAIN)], [COMB + "xy", list(RED)]]
    for start in range(0, 7):
        for end in (None, start, start + 1, 6):
            yield (FS(wide), WIDE + CTRL, start, end)
            yield (FS(wide), FS(wide), start, end)


OPERANDS = ["", "X", "YZ", FS([]), FS([["", list(RED)]]), FS([["P", list(BOLD_ON_BLUE)]]),
            FS([["Q", list(PLAIN)], ["", list(RED)], ["RS", list(RED)]])]


def _add_args(tier):
    """FmtStr.__add__(other) / __radd__(other): every layout of up to 2 (thorough: 3) runs x str operands (any str: this
    path does not parse -- an escape sequence stays text) and FmtStr operands"""
    for runs in _layouts(["", "a", "bc"], [PLAIN, RED], 3 if tier == "thorough" else 2):
        for other in OPERANDS + ["\x1b[31mz", WIDE + COMB]:
            yield (FS(runs), other)


def _append_args(tier):
    for runs in _layouts(["", "a", "bc"], [PLAIN, RED], 3 if tier == "thorough" else 2):
        for new in OPERANDS:
            yield (FS(runs), new)


def _setslice_args(tier):
    """FmtStr.setslice_with_length(start, end, fs, length): layouts of up to 2 runs, every start / end within -1 .. len+2
    (padding on the left, on the right, the assert), length limits around the result's length; quick: a sample"""
    k = 0
    for runs in _layouts(["", "a", "bc"], [PLAIN, RED], 2):
        n = sum(len(t) for t, _ in runs)
        every = 1 if tier == "thorough" else (7 if len(runs) < 2 else 37)
        for fs in OPERANDS:
            for a in range(-1, n + 3):
                for b in range(-1, n + 3):
                    for length in (n, n + 1, 0, n + 5):
                        k += 1
                        if k % every == 0:
                            yield (FS(runs), a, b, fs, length)


def _setitem_args(tier):
    k = 0
    for runs in _layouts(["", "a", "bc"], [PLAIN, RED], 3 if tier == "thorough" else 2):
        n = sum(len(t) for t, _ in runs)
        for fs in OPERANDS:
            for i in range(-2, n + 3):
                k += 1
                if tier == "thorough" or len(runs) < 2 or k % 3 == 0:
                    yield (FS(runs), i, fs)


def _join_args(tier):
    """FmtStr.join(iterable): separators of up to 2 runs (no runs, an empty run included) x every list of 0..2 items and a
    sample of the lists of 3 (thorough: all of them) drawn from 7 operands (str incl. "", FmtStr without runs / with an
    empty run / several runs); str items with wide / combining / control characters; an item that is neither (int, None,
    a list) at every position -- TypeError, whatever was joined before it; iterables that are a str (its characters)
    or not iterable at all.  (Not here: a str item with ESC[ -- fmtstr() parses it, the oracle refuses it -- and bytes
    items, which the real fmtstr() rejects with a TypeError of its own.)"""
    seps = list(_layouts(["", "a", "bc"], [PLAIN, RED], 2 if tier == "thorough" else 1)) + \
        [[["-", list(BOLD_ON_BLUE)], ["", list(PLAIN)]], [["a" + WIDE + COMB, list(RED)], [CTRL, list(PLAIN)]]]
    k = 0
    for runs in seps:
        for n in range(4):
            for items in itertools.product(OPERANDS, repeat=n):
                k += 1
                if n < 3 or tier == "thorough" or k % 7 == 0:
                    yield (FS(runs), list(items))
        yield (FS(runs), [WIDE + COMB, CTRL, FS([[COMB + "x", list(RED)]])])
        for bad in (5, None, [], True):
            yield (FS(runs), [bad])
            yield (FS(runs), ["X", bad])
            yield (FS(runs), [FS([["P", list(BOLD_ON_BLUE)]]), "", bad, "YZ"])
            yield (FS(runs), [FS([]), FS([["", list(RED)]]), bad])
        yield (FS(runs), "")
        yield (FS(runs), "ab" + WIDE)
        yield (FS(runs), 5)
        yield (FS(runs), None)


def _mul_args(tier):
    """FmtStr.__mul__(n): every layout of up to 2 (thorough: 3) runs x every int in -2 .. 4, 11, and the bools (bool is a
    subclass of int: range(True)) -- this is what validates range(n) and sum(iterable, start) of the interpreter.  (Not here:
    an operand that is not an int -- the text answers NotImplemented, which is not a value of the interpreter.)"""
    for runs in _layouts(["", "a", "bc"], [PLAIN, RED], 3 if tier == "thorough" else 2):
        for n in list(range(-2, 5)) + [11, True, False]:
            yield (FS(runs), n)
    yield (FS([["a" + WIDE + COMB, list(BOLD_ON_BLUE)], ["", list(PLAIN)], [CTRL, list(RED)]]), 3)


FMT_CHARS = "abcdxy" + WIDE + COMB + CTRL

EMPTY = "empty_ctx"
FUNCS = {
    # methods / properties of FmtStr (the key is used in file names: no dot; the qualified name is the fifth entry)
    "FmtStr_getitem": ("curtsies.formatstring", "py_FmtStr_getitem", _getitem_args, "ctxF0", "FmtStr.__getitem__"),
    "FmtStr_divides": ("curtsies.formatstring", "py_FmtStr_divides", _divides_args, "ctxF0", "FmtStr.divides"),
    "FmtStr_splice": ("curtsies.formatstring", "py_FmtStr_splice", _splice_args, "ctxF3", "FmtStr.splice"),
    "FmtStr_add": ("curtsies.formatstring", "py_FmtStr_add", _add_args, "ctxF3", "FmtStr.__add__"),
    "FmtStr_radd": ("curtsies.formatstring", "py_FmtStr_radd", _add_args, "ctxF3", "FmtStr.__radd__"),
    "FmtStr_join": ("curtsies.formatstring", "py_FmtStr_join", _join_args, "ctxF3", "FmtStr.join"),
    "FmtStr_mul": ("curtsies.formatstring", "py_FmtStr_mul", _mul_args, "ctxF4", "FmtStr.__mul__"),
    "FmtStr_append": ("curtsies.formatstring", "py_FmtStr_append", _append_args, "ctxF4", "FmtStr.append"),
    "FmtStr_setslice_with_length": ("curtsies.formatstring", "py_FmtStr_setslice_with_length", _setslice_args, "ctxF4",
                                    "FmtStr.setslice_with_length"),
    "FmtStr_setitem": ("curtsies.formatstring", "py_FmtStr_setitem", _setitem_args, "ctxF5", "FmtStr.setitem"),
    "width_aware_slice": ("curtsies.formatstring", "py_width_aware_slice", _was_args, "(PureCorr.cF1 fmt_widths)"),
    "FmtStr_width_aware_slice": ("curtsies.formatstring", "py_FmtStr_width_aware_slice", _fs_was_args,
                                 "(PureCorr.cF2 fmt_widths)", "FmtStr.width_aware_slice"),
    "normalize_slice": ("curtsies.formatstring", "py_normalize_slice", _normalize_slice_args, EMPTY),
    "interval_overlap": ("curtsies.formatstring", "py_interval_overlap", _interval_args, EMPTY),
    "could_be_unfinished_utf8": ("curtsies.events", "py_could_be_unfinished_utf8", _utf8_args, EMPTY),
    # in the context of the events module: Spec/PyEnv.v, the stratum the function lives in
    "decodable": ("curtsies.events", "py_decodable", _decodable_args, "ctx0"),
    "_key_name": ("curtsies.events", "py_key_name", _key_name_args, "ctx0"),
    "could_be_unfinished_char": ("curtsies.events", "py_could_be_unfinished_char", _unfinished_char_args, "ctx1"),
    "get_key": ("curtsies.events", "py_get_key", _get_key_args, "ctx2"),
}


class Pass:
    """one function's pass, with the interface lib.evaluate needs"""
    REQUIRE, CASE_TYPE, MODEL_OK, SPEC_OK, SHARD = REQUIRE, CASE_TYPE, MODEL_OK, SPEC_OK, SHARD

    def __init__(self, fname):
        import importlib
        self.fname = fname
        modname, self.coqname, self.args, self.ctx = FUNCS[fname][:4]
        qualname = FUNCS[fname][4] if len(FUNCS[fname]) > 4 else fname
        mod = importlib.import_module(modname)
        if "." in qualname:
            clsname, member = qualname.split(".")
            raw = getattr(mod, clsname).__dict__[member]
            if inspect.isfunction(raw):
                self.fn = raw                                               # a method: fn(self, ...)
            else:
                self.fn = lambda obj, _m=member: getattr(obj, _m)          # a property
        else:
            self.fn = getattr(mod, qualname)
        if "fmt_widths" in self.ctx:
            self.REQUIRE = REQUIRE + "\nLocal Open Scope Z_scope.\nDefinition fmt_widths : list (char * Z) := %s." % _widths(FMT_CHARS)

    def inputs(self, tier):
        return list(self.args(tier))

    def run(self, args):
        # a FmtStr argument is built afresh for every call (half of them with shared Chunk objects: canon.build_fs);
        # a FmtStr result is read back as its runs, text and attributes
        def conv(v):
            from curtsies.formatstring import FmtStr
            return FS(canon.canon_fs(v)) if isinstance(v, FmtStr) else v
        def build(a):
            if isinstance(a, FS):
                return canon.build_fs(a.runs)
            if isinstance(a, list):                                     # the items of join
                return [build(x) for x in a]
            return a
        return canon.outcome(lambda: self.fn(*[build(a) for a in args]), conv)

    def to_coq(self, args, out):
        exp = "(Ok %s)" % coq_val(out[1]) if out[0] == "ok" else "(Raise %s)" % out[1]
        return "PureCorr.mkCase %s %s [%s] %s" % (self.ctx, self.coqname, "; ".join(coq_val(a) for a in args), exp)
