#!/bin/sh
# (re)generate coq/_CoqProject and coq/Makefile from the files present
cd "$(dirname "$0")/../coq" || exit 2
{
  echo "-Q . Curtsies"
  echo "-arg -w -arg -notation-overridden,-deprecated-hint-without-locality,-deprecated-instance-without-locality"
  ls Gen/*.v Model/*.v Spec/*.v Proofs/*.v Props/*.v Corr/*.v 2>/dev/null
} > _CoqProject.new
if ! cmp -s _CoqProject.new _CoqProject; then mv _CoqProject.new _CoqProject; coq_makefile -f _CoqProject -o Makefile >/dev/null; else rm _CoqProject.new; fi
[ -f Makefile ] || coq_makefile -f _CoqProject -o Makefile >/dev/null
