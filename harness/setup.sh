#!/bin/sh
# offline setup: regenerate the tables from /repo and build the whole Coq development
set -e
cd "$(dirname "$0")/.."
mkdir -p coq/Gen coq/Cases evidence replays
for g in gen/gen_*.py; do PYTHONPATH=/repo PYTHONHASHSEED=0 TERM=xterm-256color /venv/bin/python "$g"; done
sh harness/mkproject.sh
cd coq
timeout 7200 make -k -j16 2>&1 | tail -40
