"""Tokeniser: the byte stream a curtsies window writes -> the abstract terminal
commands of coq/Spec/Term.v.  Only the concrete capability strings blessed emits
for TERM=xterm-256color are recognised; anything else raises (=> the check
reports it) instead of being skipped.  SGR sequences stay inside `Str` tokens:
the Coq side interprets them with the reference SGR interpreter."""
import re

from canon import coq_str

BIG = 4999  # cursor addresses are clamped (the terminal clamps to its size anyway)

_CSI = re.compile(r"\x1b\[([?]?)([0-9;]*)([@-~])")


class UnknownSequence(Exception):
    pass


def tokenize(s):
    """returns a list of tokens: ("Str", text) | ("Cup", r, c) | ("El0",) | ... """
    out = []
    text = []

    def flush():
        if text:
            out.append(("Str", "".join(text)))
            del text[:]

    i = 0
    n = len(s)
    while i < n:
        ch = s[i]
        if ch == "\x1b":
            if s.startswith("\x1b7", i):
                flush()
                out.append(("Sc",))
                i += 2
                continue
            if s.startswith("\x1b8", i):
                flush()
                out.append(("Rc",))
                i += 2
                continue
            m = _CSI.match(s, i)
            if not m:
                raise UnknownSequence(repr(s[i:i + 12]))
            priv, params, final = m.groups()
            i = m.end()
            if final == "m" and not priv:
                text.append(m.group(0))  # SGR: left to the Coq-side interpreter
                continue
            flush()
            nums = [int(p) if p else 0 for p in params.split(";")] if params else []
            if priv == "?":
                if final in "hl" and nums == [25]:
                    out.append(("Show",) if final == "h" else ("Hide",))
                elif final == "l" and nums == [12]:
                    pass  # stop cursor blinking: no effect on the modelled state
                elif final in "hl" and nums == [1049]:
                    out.append(("AltOn",) if final == "h" else ("AltOff",))
                else:
                    raise UnknownSequence(m.group(0))
            elif final == "H":
                r = (nums[0] if len(nums) > 0 and nums[0] else 1) - 1
                c = (nums[1] if len(nums) > 1 and nums[1] else 1) - 1
                out.append(("Cup", min(r, BIG), min(c, BIG)))
            elif final == "K" and nums in ([], [0]):
                out.append(("El0",))
            elif final == "K" and nums == [1]:
                out.append(("El1",))
            elif final == "J" and nums in ([], [0]):
                out.append(("Ed0",))
            elif final == "G":
                out.append(("Cha", min((nums[0] if nums and nums[0] else 1) - 1, BIG)))
            elif final == "n" and nums == [6]:
                out.append(("Dsr",))
            elif final == "t" and nums in ([22, 0, 0], [23, 0, 0]):
                pass  # window title stack: not modelled, no effect on the screen
            else:
                raise UnknownSequence(m.group(0))
        elif ch == "\n":
            flush()
            out.append(("Lf",))
            i += 1
        elif ch == "\x9b" or ord(ch) < 32 or ord(ch) == 127:
            raise UnknownSequence("control character %r" % ch)
        else:
            text.append(ch)
            i += 1
    flush()
    return out


def coq_cmd(tok):
    k = tok[0]
    if k == "Str":
        return "Str %s" % coq_str(tok[1])
    if k == "Cup":
        return "Cup %d %d" % (tok[1], tok[2])
    if k == "Cha":
        return "Cha %d" % tok[1]
    return k


def coq_cmds(toks):
    return "[" + "; ".join(coq_cmd(t) for t in toks) + "]"
