#!/usr/bin/env python3
"""Markdown table of the seeded changes and which check caught them (from seeded/*/meta.json)."""
import glob, json, os
ROOT = os.path.dirname(os.path.dirname(os.path.abspath(__file__)))
rows = []
for p in sorted(glob.glob(os.path.join(ROOT, "seeded", "*", "meta.json"))):
    m = json.load(open(p))
    name = os.path.basename(os.path.dirname(p))
    checks = m.get("checks", {})
    verdicts = []
    for pid, r in sorted(checks.items()):
        if r.get("caught"):
            kind = "concrete replay" if r.get("replay_input") is not None else "no-failing-input-found"
            verdicts.append("%s: caught (%s)" % (pid, kind))
        else:
            verdicts.append("%s: MISSED" % pid)
    rows.append("| %s | %s | %s | %s |" % (name, m.get("summary", "").replace("|", "/").replace("\n", " ")[:230],
                                          m.get("needs", "").replace("|", "/").replace("\n", " ")[:200], "; ".join(verdicts) or "not run yet"))
print("| seed | change | needs | verdict of the checks |\n|---|---|---|---|")
print("\n".join(rows))
