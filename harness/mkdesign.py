#!/usr/bin/env python3
"""Refresh the generated tables inside DESIGN.md (between BEGIN/END GENERATED markers): the theorems of every
Props file and the table of independently seeded changes with the verdict of the checks."""
import glob, json, os, re, subprocess, sys
ROOT = os.path.dirname(os.path.dirname(os.path.abspath(__file__)))


def theorems():
    out = ["| property | theorems in `coq/Props` (each closed by `exact <lemma>`, each followed by `Print Assumptions`) |", "|---|---|"]
    for p in sorted(glob.glob(os.path.join(ROOT, "coq", "Props", "C*.v"))):
        src = open(p).read()
        names = re.findall(r"^\s*(?:Theorem|Corollary|Lemma)\s+(\w+)", src, flags=re.M)
        ex = re.findall(r"^\s*Example\s+(\w+)", src, flags=re.M)
        out.append("| %s | %s%s |" % (os.path.basename(p)[:-2], ", ".join("`%s`" % n for n in names),
                                      ("; examples: " + ", ".join("`%s`" % n for n in ex)) if ex else ""))
    return "\n".join(out)


def seeds():
    return subprocess.run([sys.executable, os.path.join(ROOT, "harness", "mkseedtable.py")], capture_output=True, text=True).stdout.strip()


def main():
    p = os.path.join(ROOT, "DESIGN.md")
    s = open(p).read()
    for tag, fn in (("theorems", theorems), ("seeds", seeds)):
        a, b = "<!-- BEGIN GENERATED %s -->" % tag, "<!-- END GENERATED %s -->" % tag
        if a in s and b in s:
            s = s[:s.index(a) + len(a)] + "\n" + fn() + "\n" + s[s.index(b):]
    open(p, "w").write(s)


if __name__ == "__main__":
    main()
