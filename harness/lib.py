"""Generic machinery shared by all property checks (see check.py)."""
import concurrent.futures
import fcntl
import glob
import hashlib
import json
import os
import random
import re
import shutil
import subprocess
import sys
import time

HERE = os.path.dirname(os.path.abspath(__file__))
ROOT = os.path.dirname(HERE)
COQ = os.path.join(ROOT, "coq")
CASES = os.path.join(COQ, "Cases")
PY = "/venv/bin/python"
NPROC = int(os.environ.get("VERIF_JOBS", "16"))
SHARD = 300

FORBIDDEN = re.compile(
    r"\b(Admitted|admit|Axiom|Axioms|Parameter|Parameters|Conjecture|Conjectures|Abort All|"
    r"Unset Guard Checking|Unset Positivity Checking|Unset Universe Checking|bypass_check|"
    r"Admit Obligations|native_compute)\b")
# axioms of the standard library a proof may depend on (each named in DESIGN.md section 3)
ALLOWED_AXIOMS = set()


def log(*a):
    print(*a, flush=True)


# ----------------------------------------------------------------------------
# step 1: translators
def regenerate(extra_generators=()):
    """returns (ok, message)"""
    msgs = []
    ok = True
    for script in ("gen/gen_tables.py",) + tuple(extra_generators):
        r = subprocess.run([PY, os.path.join(ROOT, script)], capture_output=True, text=True,
                           env=dict(os.environ, PYTHONPATH=os.environ.get("CURTSIES_REPO", "/repo")), timeout=300)
        out = (r.stdout + r.stderr).strip()
        if r.returncode != 0:
            ok = False
            msgs.append("%s failed (exit %d): %s" % (script, r.returncode, out[-1500:]))
        else:
            msgs.append("%s: %s" % (script, out.splitlines()[-1] if out else "ok"))
    return ok, msgs


# ----------------------------------------------------------------------------
# step 2: build
class BuildLock:
    def __enter__(self):
        self.f = open(os.path.join(ROOT, ".build.lock"), "w")
        fcntl.flock(self.f, fcntl.LOCK_EX)
        return self

    def __exit__(self, *a):
        fcntl.flock(self.f, fcntl.LOCK_UN)
        self.f.close()


def make(targets, timeout=2400):
    """make the given .vo targets; returns (ok, tail of log)"""
    with BuildLock():
        subprocess.run([os.path.join(HERE, "mkproject.sh")], check=True)
        try:
            r = subprocess.run(["make", "-j%d" % NPROC, "-k"] + list(targets), cwd=COQ,
                               capture_output=True, text=True, timeout=timeout)
        except subprocess.TimeoutExpired:
            return False, "make timed out after %ds" % timeout
    out = r.stdout + r.stderr
    return r.returncode == 0, out[-6000:]


def source_hygiene():
    """no Admitted/Axiom/... anywhere in the development (generated files included)"""
    bad = []
    for d in ("Gen", "Model", "Spec", "Proofs", "Props", "Corr"):
        for p in sorted(glob.glob(os.path.join(COQ, d, "*.v"))):
            txt = open(p).read()
            txt = re.sub(r"\(\*.*?\*\)", "", txt, flags=re.S)
            for m in FORBIDDEN.finditer(txt):
                bad.append("%s: %s" % (os.path.relpath(p, COQ), m.group(0)))
    return bad


def obligations(props_file):
    """Compile Props/<id>.v on its own; returns list of dicts
    {name, discharged, assumptions} plus the raw compiler output."""
    path = os.path.join(COQ, props_file)
    src = open(path).read()
    names = re.findall(r"^\s*(?:Theorem|Corollary|Lemma)\s+(\w+)", src, flags=re.M)
    printed = re.findall(r"^\s*Print Assumptions\s+(\w+)\s*\.", src, flags=re.M)
    try:
        r = subprocess.run(["coqc", "-Q", ".", "Curtsies", props_file], cwd=COQ, capture_output=True,
                           text=True, timeout=1800)
        out = r.stdout + r.stderr
        compiled = r.returncode == 0
    except subprocess.TimeoutExpired:
        out, compiled = "timeout", False
    blocks = []
    if compiled:
        # one block per Print Assumptions, in order
        cur = None
        for line in r.stdout.splitlines():
            if line.startswith("Closed under the global context"):
                blocks.append([])
                cur = None
            elif line.startswith("Axioms:"):
                cur = []
                blocks.append(cur)
            elif cur is not None and line.strip():
                m = re.match(r"^(\S+)\s*:", line)
                if m and not line.startswith(" "):
                    cur.append(m.group(1))
    res = []
    for n in names:
        ob = {"name": n, "discharged": False, "assumptions": None}
        if compiled and n in printed and printed.index(n) < len(blocks):
            ax = blocks[printed.index(n)]
            ob["assumptions"] = ax
            ob["discharged"] = all(a in ALLOWED_AXIOMS for a in ax)
        res.append(ob)
    return res, compiled, out[-3000:]


# ----------------------------------------------------------------------------
# step 3: correspondence
def write_case_file(name, mod, coq_cases):
    os.makedirs(CASES, exist_ok=True)
    path = os.path.join(CASES, name + ".v")
    with open(path, "w") as f:
        f.write(mod.REQUIRE.rstrip() + "\n")
        f.write("Open Scope N_scope.\n")
        f.write("Definition cases : list %s :=\n  [ %s ].\n" % (mod.CASE_TYPE, "\n  ; ".join(coq_cases)))
        f.write("Eval vm_compute in (failing %s cases, failing %s cases).\n" % (mod.MODEL_OK, mod.SPEC_OK))
    return path


_RES = re.compile(r"=\s*\(\s*\[(.*?)\]\s*,\s*\[(.*?)\]\s*\)\s*:\s*list N \* list N", re.S)


CURRENT_TIER = ["quick"]


def eval_case_file(path):
    """returns (model_fail_indices, spec_fail_indices) or raises"""
    rel = os.path.relpath(path, COQ)
    r = subprocess.run("ulimit -s unlimited 2>/dev/null; exec coqc -Q . Curtsies %s" % rel, shell=True,
                       cwd=COQ, capture_output=True, text=True, timeout=CASE_TIMEOUT[CURRENT_TIER[0]])
    if r.returncode != 0:
        raise RuntimeError("coqc failed on %s: %s" % (rel, (r.stdout + r.stderr)[-2000:]))
    m = _RES.search(r.stdout)
    if not m:
        raise RuntimeError("cannot parse coqc output for %s: %s" % (rel, r.stdout[-2000:]))
    nums = lambda s: [int(x) for x in re.findall(r"\d+", s)]
    return nums(m.group(1)), nums(m.group(2))


def evaluate(pid, mod, items, tag):
    """items: list of (inp, out).  Returns (model_fail, spec_fail) as lists of indices into items."""
    if not items:
        return [], []
    shards = []
    shard = getattr(mod, "SHARD", SHARD)
    mf, sf = [], []
    # an output far larger than anything the unchanged tree produces (a value that grows from call to call, say) is
    # not given to Coq: it counts as a disagreement with the model straight away
    lits = []
    big = []
    for idx, (i, o) in enumerate(items):
        lit = mod.to_coq(i, o)
        if len(lit) > MAX_CASE_LITERAL:
            big.append(idx)
            lit = None
        lits.append(lit)
    # the unchanged tree produces a literal of that size once in a few thousand thorough-tier programs (long runs,
    # many derived values); those few are set aside and counted in the evidence.  Outputs that are oversize as a rule
    # (more than OVERSIZE_RATE of a pass of at least 50 inputs, or a single input that is replayed / shrunk) are a
    # disagreement
    if big and (len(items) < 50 or len(big) > OVERSIZE_RATE * len(items)):
        mf += big
        OVERSIZE.extend(big)
    else:
        OVERSIZE_SKIPPED.extend(big)
    for k in range(0, len(items), shard):
        chunk = [(k + j, l) for j, l in enumerate(lits[k:k + shard]) if l is not None]
        if not chunk:
            continue
        name = "%s_%s_%04d" % (pid.lower(), tag, k // shard)
        p = write_case_file(name, mod, [l for _, l in chunk])
        shards.append(([ix for ix, _ in chunk], p))
    with concurrent.futures.ThreadPoolExecutor(NPROC) as ex:
        futs = {ex.submit(eval_case_file, p): (ixs, p) for ixs, p in shards}
        for fut in concurrent.futures.as_completed(futs):
            ixs, p = futs[fut]
            try:
                a, b = fut.result()
            except Exception as e:  # a shard Coq could not evaluate (time, memory): reported, the others still count
                EVAL_ERRORS.append("%s: %s" % (os.path.basename(p), str(e)[-300:]))
                continue
            mf += [ixs[i] for i in a]
            sf += [ixs[i] for i in b]
    for _, p in shards:
        for ext in (".v", ".vo", ".vok", ".vos", ".glob"):
            q = p[:-2] + ext
            if os.path.exists(q):
                os.remove(q)
        aux = os.path.join(os.path.dirname(p), "." + os.path.basename(p)[:-2] + ".aux")
        if os.path.exists(aux):
            os.remove(aux)
    return sorted(mf), sorted(sf)


MAX_CASE_LITERAL = 1500000    # characters of one case's Coq literal (quick tier on the unchanged tree: up to ~60000;
                              # thorough-tier C13 programs over long runs: 3 of 6010 above 400000, the largest 443000)
OVERSIZE_RATE = 0.005
OVERSIZE = []
OVERSIZE_SKIPPED = []
EVAL_ERRORS = []
CASE_TIMEOUT = {"quick": 400, "thorough": 2400}


class ImplTooSlow(BaseException):
    """the implementation did not get through the inputs within the budget (a hang, or work that grows without bound)"""


# wall-clock budget for running the implementation on one pass of inputs; the unchanged tree needs a few seconds
# (the slowest, the pty-driven C08 / C12, 10-30 s quick and 2-4 min thorough)
IMPL_BUDGET = {"quick": 420, "thorough": 2400, "search": 150, "shrink": 45}
SHRINK_BUDGET = 150            # seconds for minimising one failing input
SEARCH_MAX_INPUTS = 20000
ONE_INPUT_BUDGET = 120
TOO_SLOW = []


def run_impl(mod, inputs, tier="quick"):
    """run the implementation on every input.  If one input takes longer than ONE_INPUT_BUDGET seconds or the pass
    longer than IMPL_BUDGET, stop: the items gathered so far are still judged, and the check reports that the rest
    could not be run (TOO_SLOW), never a silent pass"""
    import signal
    items = []
    t0 = time.time()

    def on_alarm(signum, frame):
        raise ImplTooSlow()
    use_alarm = hasattr(signal, "SIGALRM") and getattr(mod, "RUN_ALARM", True)
    old = signal.signal(signal.SIGALRM, on_alarm) if use_alarm else None
    try:
        for k, inp in enumerate(inputs):
            left = IMPL_BUDGET[tier] - (time.time() - t0)
            if left <= 0:
                TOO_SLOW.append("implementation needed more than %d s for %d inputs: stopped after %d" % (
                    IMPL_BUDGET[tier], len(inputs), k))
                break
            if use_alarm:
                signal.alarm(int(min(ONE_INPUT_BUDGET, left)) + 1)
            try:
                out = mod.run(inp)
            except ImplTooSlow:
                TOO_SLOW.append("input %d of %d did not finish within %d s: %s" % (
                    k, len(inputs), ONE_INPUT_BUDGET, json.dumps(mod.to_json_input(inp), default=str)[:300]))
                break
            finally:
                if use_alarm:
                    signal.alarm(0)
            items.append((inp, out))
    finally:
        if use_alarm:
            signal.signal(signal.SIGALRM, old)
    return items


def load_corpus(pid, mod):
    res = []
    for p in sorted(glob.glob(os.path.join(ROOT, "corpus", pid, "*.json"))):
        try:
            obj = json.load(open(p))
        except Exception as e:  # a broken corpus file must not hide behind silence
            raise RuntimeError("corpus file %s unreadable: %s" % (p, e))
        entries = obj if isinstance(obj, list) else [obj]
        for e in entries:
            res.append(mod.from_json(e["input"] if isinstance(e, dict) and "input" in e else e))
    return res


def known_findings(pid):
    p = os.path.join(ROOT, "known_findings.json")
    if not os.path.exists(p):
        return {}
    return {e["id"]: e for e in json.load(open(p)) if e["property"] == pid and e["status"] == "known"}


def shrink(pid, mod, inp, which):
    """greedy shrinking of a failing input; `which` = 0 (model) or 1 (spec)"""
    if not hasattr(mod, "shrink"):
        return inp
    cur = inp
    t_start = time.time()
    for _ in range(12):
        if time.time() - t_start > SHRINK_BUDGET:
            break
        cands = []
        for c in mod.shrink(cur):
            cands.append(c)
            if len(cands) >= 60:
                break
        if not cands:
            break
        try:
            items = run_impl(mod, cands, "shrink")
            fails = evaluate(pid, mod, items, "shrink")[which]
        except Exception:
            break
        fails = [i for i in fails if not mod.family(*items[i])] if hasattr(mod, "family") else fails
        if not fails:
            break
        cur = cands[fails[0]]
    return cur


def write_replay(pid, kind, mod, inp, out, seed, extra=None):
    d = os.path.join(ROOT, "replays")
    os.makedirs(d, exist_ok=True)
    body = {"property": pid, "kind": kind, "seed": seed}
    if inp is not None:
        body["input"] = mod.to_json_input(inp)
        body["impl_output"] = mod.to_json_output(out)
        body["coq_case"] = mod.to_coq(inp, out)
    if extra:
        body.update(extra)
    h = hashlib.sha1(json.dumps(body, sort_keys=True, default=str).encode()).hexdigest()[:10]
    path = os.path.join(d, "%s-%s.json" % (pid, h))
    with open(path, "w") as f:
        json.dump(body, f, indent=1, default=str)
    return path


def replay(pid, mod, path):
    body = json.load(open(path))
    if "input" not in body:
        log("replay file names a broken obligation / correspondence, not an input:")
        log(json.dumps(body, indent=1))
        return 0
    inp = mod.from_json(body["input"])
    out = mod.run(inp)
    log("input       :", json.dumps(mod.to_json_input(inp), default=str))
    log("impl output :", json.dumps(mod.to_json_output(out), default=str))
    log("recorded    :", json.dumps(body.get("impl_output"), default=str))
    regenerate(getattr(mod, "GENERATORS", ()))
    make([mod.CORR_VO])
    mf, sf = evaluate(pid, mod, [(inp, out)], "replay")
    log("model = implementation :", not mf)
    log("specification holds    :", not sf)
    if sf or mf:
        log("VIOLATION property=%s replay=%s" % (pid, path))
        return 1
    return 0


# ----------------------------------------------------------------------------
def run_check(pid, mod, tier, seed, t0):
    evidence_path = os.path.join(ROOT, "evidence", "%s.json" % pid)
    os.makedirs(os.path.dirname(evidence_path), exist_ok=True)
    violations = []  # (kind, replay path, suffix)
    notes = []
    CURRENT_TIER[0] = tier

    # 1. translators
    tie_ok, tie_msgs = regenerate(getattr(mod, "GENERATORS", ()))
    for m in tie_msgs:
        log("[gen]", m)

    # 2. build + obligations
    extra_props = list(getattr(mod, "EXTRA_PROPS", ()))
    targets = [mod.PROPS_FILE[:-2] + ".vo", mod.CORR_VO] + [f[:-2] + ".vo" for f in extra_props]
    if tier == "thorough":
        # rebuild the property's own files from scratch
        for t in targets:
            p = os.path.join(COQ, t)
            if os.path.exists(p):
                os.remove(p)
    build_ok, build_log = make(targets)
    corr_built = os.path.exists(os.path.join(COQ, mod.CORR_VO))
    if not build_ok:
        log("[build] FAILED\n" + build_log[-2500:])
        # the model / correspondence side may still have built
        ok2, _ = make([mod.CORR_VO])
        corr_built = ok2
    else:
        log("[build] ok")
    hygiene = source_hygiene()
    for h in hygiene:
        log("[hygiene] forbidden construct:", h)
    obs, compiled, ob_log = obligations(mod.PROPS_FILE) if tie_ok else ([], False, "translator failed")
    # further files of obligations, compiled separately: a tie theorem that breaks (an edited function in the
    # repository) must not un-discharge the theorems it has nothing to do with
    extra_results = {}
    if tie_ok and extra_props:
        with concurrent.futures.ThreadPoolExecutor(min(NPROC, len(extra_props))) as ex:     # one coqc per file, side by side
            for f, r in zip(extra_props, ex.map(obligations, extra_props)):
                extra_results[f] = r
    for f in (extra_props if tie_ok else []):
        o2, c2, l2 = extra_results[f]
        if not o2:
            o2 = [{"name": "(no theorem found in %s)" % f, "discharged": False, "assumptions": None}]
        obs += o2
        if not c2:
            ob_log += "\n--- %s ---\n%s" % (f, l2)
    if tie_ok and not obs:
        obs = [{"name": "(no theorem found in %s)" % mod.PROPS_FILE, "discharged": False, "assumptions": None}]
    if hygiene:
        for o in obs:
            o["discharged"] = False
    for o in obs:
        log("[obligation] %-55s %s%s" % (o["name"], "discharged" if o["discharged"] else "NOT DISCHARGED",
                                         "" if not o["assumptions"] else " assumptions=%s" % o["assumptions"]))
    broken = [o["name"] for o in obs if not o["discharged"]]
    if not tie_ok:
        broken = ["translator (tie to /repo): " + "; ".join(m for m in tie_msgs if "failed" in m)]
    coqchk_out = None
    if tier == "thorough" and not broken and not os.environ.get("VERIF_NO_COQCHK"):
        try:
            r = subprocess.run(["coqchk", "-silent", "-o", "-Q", ".", "Curtsies",
                                "Curtsies." + mod.PROPS_FILE[:-2].replace("/", ".")],
                               cwd=COQ, capture_output=True, text=True, timeout=3000)
            coqchk_out = (r.stdout + r.stderr)[-1500:]
            log("[coqchk] exit %d\n%s" % (r.returncode, coqchk_out))
            if r.returncode != 0:
                broken.append("coqchk rejected " + mod.PROPS_FILE)
        except subprocess.TimeoutExpired:
            notes.append("coqchk timed out")

    # 3. correspondence
    rng = random.Random(seed)
    evaluations = 0
    keys = set()
    nontrivial_keys = set()
    histogram = {}
    samples = []
    model_fail_items, spec_fail_items = [], []
    known = known_findings(pid)
    known_seen = {}
    corr_error = None
    exhaustive = False
    pure_evals = {}
    rerun_stats = {"rerun": 0, "answers_changed": 0}

    def account(items):
        nonlocal evaluations
        for inp, out in items:
            evaluations += 1
            k = mod.key(inp)
            keys.add(k)
            if mod.nontrivial(inp, out):
                nontrivial_keys.add(k)
            if hasattr(mod, "stats"):
                for lab in mod.stats(inp, out):
                    histogram[lab] = histogram.get(lab, 0) + 1

    def classify(items, mf, sf):
        for i in sf:
            fam = mod.family(*items[i]) if hasattr(mod, "family") else None
            if fam and fam in known:
                known_seen.setdefault(fam, items[i])
            else:
                spec_fail_items.append(items[i])
        for i in mf:
            if i in sf:
                continue
            fam = mod.family(*items[i]) if hasattr(mod, "family") else None
            if fam and fam in known:
                known_seen.setdefault(fam, items[i])
            else:
                model_fail_items.append(items[i])

    if corr_built:
        try:
            passes = [("corpus", load_corpus(pid, mod))]
            gen_inputs = list(mod.generate(rng, tier))
            passes.append(("gen", gen_inputs))
            exhaustive = bool(getattr(mod, "EXHAUSTIVE", {}).get(tier, False))
            for tag, inputs in passes:
                items = run_impl(mod, inputs, tier)
                account(items)
                mf, sf = evaluate(pid, mod, items, tag)
                classify(items, mf, sf)
                if getattr(mod, "RERUN", True) and not TOO_SLOW:
                    # every input once more, after all the others have run in this process: an answer that
                    # differs from the first one means the implementation keeps state across calls (a cache, a
                    # module-level table); the second answer is then judged like any other
                    again = []
                    second = run_impl(mod, [inp for inp, _ in items], tier)
                    for (inp, out), (_, out2) in zip(items, second):
                        if json.dumps(mod.to_json_output(out2), sort_keys=True, default=str) != \
                           json.dumps(mod.to_json_output(out), sort_keys=True, default=str):
                            again.append((inp, out2))
                    rerun_stats["rerun"] += len(items)
                    rerun_stats["answers_changed"] += len(again)
                    if again:
                        account(again)
                        mf2, sf2 = evaluate(pid, mod, again, tag + "_again")
                        classify(again, mf2, sf2)
                        # a changed answer that still satisfies model and spec is impossible unless the
                        # observation is not a function of the input: report it rather than hide it
                        quiet = [i for i in range(len(again)) if i not in mf2 and i not in sf2]
                        if quiet:
                            notes.append("%d inputs gave a different but acceptable answer when run a second time" % len(quiet))
                if tag == "gen":
                    step = max(1, len(items) // 4)
                    for inp, out in items[::step][:5]:
                        samples.append({"input": mod.to_json_input(inp), "impl_output": mod.to_json_output(out)})
            # extra passes: the PyMini reference interpreter against CPython on the pure helpers whose
            # generated syntax trees the models are tied to (harness/purecorr.py)
            for fname in getattr(mod, "PURE_HELPERS", ()):
                import purecorr
                ok2, _ = make([purecorr.CORR_VO])
                ps = purecorr.Pass(fname)
                pitems = [(a, ps.run(a)) for a in ps.inputs(tier)]
                pmf, _ = evaluate(pid, ps, pitems, "pure_" + fname) if ok2 else (list(range(len(pitems))), [])
                pure_evals[fname] = len(pitems)
                if pmf:
                    a, o = pitems[pmf[0]]
                    broken.append("reference interpreter Spec/PyMini.v on the generated tree of %s disagrees with CPython "
                                  "on %d of %d argument tuples, first: %r -> %r" % (fname, len(pmf), len(pitems), a, o))
            # failing-input search: something no longer checks but no concrete failure yet
            if (broken or model_fail_items) and not spec_fail_items and tier == "quick":
                log("[search] proof or correspondence broken; searching for a concrete failing input")
                rng2 = random.Random(seed + 1)
                inputs = list(mod.generate(rng2, "thorough"))[:SEARCH_MAX_INPUTS]
                items = run_impl(mod, inputs, "search")
                account(items)
                mf, sf = evaluate(pid, mod, items, "search")
                classify(items, mf, sf)
        except Exception as e:  # harness or model failure: not silently green
            import traceback
            corr_error = "%s: %s" % (type(e).__name__, e)
            log("[correspondence] ERROR", corr_error)
            log(traceback.format_exc()[-3000:])
    else:
        corr_error = "correspondence module %s did not build" % mod.CORR_VO
    if (TOO_SLOW or EVAL_ERRORS) and not corr_error:
        corr_error = "; ".join(TOO_SLOW + ["Coq could not evaluate %d case files (%s)" % (len(EVAL_ERRORS), EVAL_ERRORS[0])]
                               if EVAL_ERRORS else TOO_SLOW)
        log("[correspondence] " + corr_error)
    if OVERSIZE:
        notes.append("%d outputs were too large to be given to Coq and count as disagreements" % len(OVERSIZE))
    if OVERSIZE_SKIPPED:
        notes.append("%d outputs (under %.1f%% of their pass) had a Coq literal above %d characters and were set aside, "
                     "not judged" % (len(OVERSIZE_SKIPPED), 100 * OVERSIZE_RATE, MAX_CASE_LITERAL))

    # 4. verdict
    for fam, (inp, out) in sorted(known_seen.items()):
        log("KNOWN-FINDING: property=%s %s" % (pid, known[fam]["text"]))
    for fam in known:
        if fam not in known_seen:
            notes.append("listed finding %s not reproduced in this run" % fam)
            log("[note] listed finding %s was not reproduced by this run" % fam)
    if spec_fail_items:
        inp, out = spec_fail_items[0]
        small = shrink(pid, mod, inp, 1)
        path = write_replay(pid, "specification violated by the implementation", mod, small, mod.run(small), seed,
                            {"failing_cases_in_run": len(spec_fail_items), "broken_obligations": broken})
        violations.append(path)
        log("VIOLATION property=%s replay=%s" % (pid, path))
    elif model_fail_items or broken or corr_error:
        what = []
        if broken:
            what.append("proof obligations no longer check: " + ", ".join(broken))
        if model_fail_items:
            what.append("correspondence model=implementation fails on %d cases" % len(model_fail_items))
        if corr_error:
            what.append("correspondence could not be evaluated: " + corr_error)
        inp = out = None
        if model_fail_items:
            inp = shrink(pid, mod, model_fail_items[0][0], 0)
            out = mod.run(inp)
        path = write_replay(pid, "no longer shown to hold", mod, inp, out, seed,
                            {"no_longer_checks": what, "build_log_tail": build_log[-1500:] if not build_ok else "",
                             "obligation_log_tail": ob_log if broken else ""})
        violations.append(path)
        log("VIOLATION property=%s replay=%s no-failing-input-found" % (pid, path))

    # 5. evidence
    wall = time.time() - t0
    cov = {
        "obligations": len(obs),
        "discharged": sum(1 for o in obs if o["discharged"]),
        "obligation_names": [o["name"] for o in obs],
        "print_assumptions": {o["name"]: ("Closed under the global context" if o["assumptions"] == [] else
                                          ("not compiled" if o["assumptions"] is None else o["assumptions"])) for o in obs},
        "checker_cmd": "cd coq && make %s && coqc -Q . Curtsies %s   (Print Assumptions under every theorem%s)" % (
            " ".join(targets), " ".join([mod.PROPS_FILE] + extra_props), "; coqchk -o in this run" if coqchk_out else ""),
        "trusted_base": list(mod.TRUSTED),
        "evaluations": evaluations,
        "distinct_nontrivial": len(nontrivial_keys),
        "distinct": len(keys),
        "rule": mod.RULE,
        "samples": samples[:6],
        "traces_validated_against_impl": evaluations,
        "exhaustive": exhaustive,
        "input_distribution": dict(sorted(histogram.items())),
        "model_mismatches": len(model_fail_items),
        "spec_failures": len(spec_fail_items),
        "known_findings_reproduced": sorted(known_seen),
        "notes": notes,
    }
    cov["second_run_in_same_process"] = rerun_stats
    if pure_evals:
        cov["pure_helper_interpreter_evaluations"] = pure_evals
    if coqchk_out:
        cov["coqchk_tail"] = coqchk_out
    if cov["discharged"] == 0:
        # keep the file schema-valid on a run in which nothing was discharged
        cov["obligations_total"] = cov.pop("obligations")
        cov["obligations_discharged"] = cov.pop("discharged")
    ev = {
        "property_id": pid,
        "tier": tier,
        "seed": seed,
        "level": mod.LEVEL,
        "coverage": cov,
        "assumptions": list(getattr(mod, "ASSUMPTIONS", [])),
        "wall_s": round(wall, 2),
        "violations": len(violations),
    }
    with open(evidence_path, "w") as f:
        json.dump(ev, f, indent=1, default=str)
    log("[done] %s tier=%s evaluations=%d distinct_nontrivial=%d obligations=%d/%d wall=%.1fs" % (
        pid, tier, evaluations, len(nontrivial_keys), sum(1 for o in obs if o["discharged"]), len(obs), wall))
    return 1 if violations else 0
