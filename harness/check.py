#!/venv/bin/python
"""Entry point of every registered check:

    /venv/bin/python harness/check.py <ID> [--tier quick|thorough] [--replay FILE]

Flow (DESIGN.md section 2):
 1. regenerate coq/Gen/*.v from /repo's working tree (translator, fail closed);
 2. make the closure of Props/<ID>.v; every theorem in that file is a proof
    obligation, discharged iff the file compiled and Print Assumptions reports
    nothing outside the allow-list;
 3. correspondence: corpus + seeded generator -> run the implementation ->
    write Cases/*.v (inputs and implementation outputs) -> coqc evaluates, per
    case, model_ok (model = implementation) and spec_ok (the property's
    reference relation holds of the implementation's output);
 4. verdict, replay files, evidence.
"""
import os
import sys

if os.environ.get("PYTHONHASHSEED") != "0" or os.environ.get("CURTSIES_VERIF") != "1":
    env = dict(os.environ)
    env["PYTHONHASHSEED"] = "0"
    env["CURTSIES_VERIF"] = "1"
    env["TERM"] = "xterm-256color"
    env["PYTHONPATH"] = os.environ.get("CURTSIES_REPO", "/repo")
    env["PYTHONDONTWRITEBYTECODE"] = "1"
    env["LC_ALL"] = "C.UTF-8"
    os.execve(sys.executable, [sys.executable] + sys.argv, env)

import argparse
import importlib
import json
import time

HERE = os.path.dirname(os.path.abspath(__file__))
sys.path.insert(0, HERE)
sys.path.insert(0, os.environ.get("CURTSIES_REPO", "/repo"))

import lib  # noqa: E402


def main():
    ap = argparse.ArgumentParser()
    ap.add_argument("prop")
    ap.add_argument("--tier", default=os.environ.get("VERIF_TIER", "quick"), choices=["quick", "thorough"])
    ap.add_argument("--replay", default=None)
    ap.add_argument("--seed", type=int, default=None)
    args = ap.parse_args()
    seed = args.seed if args.seed is not None else int(os.environ.get("VERIF_SEED", "20260926"))
    pid = args.prop.upper()
    mod = importlib.import_module("props.%s" % pid.lower())
    t0 = time.time()
    if args.replay:
        sys.exit(lib.replay(pid, mod, args.replay))
    rc = lib.run_check(pid, mod, args.tier, seed, t0)
    sys.exit(rc)


if __name__ == "__main__":
    main()
