#!/venv/bin/python
"""Rebuild MANIFEST.json from the property modules present in harness/props."""
import importlib
import json
import os
import sys

HERE = os.path.dirname(os.path.abspath(__file__))
ROOT = os.path.dirname(HERE)
sys.path.insert(0, HERE)
sys.path.insert(0, "/repo")
os.environ.setdefault("TERM", "xterm-256color")

props = [json.loads(l) for l in open(os.path.join(ROOT, "properties.jsonl"))]
# properties whose check the coordinator has accepted (one id per line)
READY = set(open(os.path.join(HERE, "ready.txt")).read().split())
checks = []
na = []
for p in props:
    pid = p["id"]
    path = os.path.join(HERE, "props", pid.lower() + ".py")
    if not os.path.exists(path) or pid not in READY:
        na.append({"property_id": pid, "reason": "check not built yet (planned, see DESIGN.md section 5)"})
        continue
    m = importlib.import_module("props." + pid.lower())
    if getattr(m, "NOT_CLAIMED", None):
        na.append({"property_id": pid, "reason": m.NOT_CLAIMED})
        continue
    checks.append({
        "property_id": pid,
        "quick_cmd": "/venv/bin/python harness/check.py %s --tier quick" % pid,
        "thorough_cmd": "/venv/bin/python harness/check.py %s --tier thorough" % pid,
        "evidence_file": "/verif/evidence/%s.json" % pid,
        "replay_cmd_template": "/venv/bin/python harness/check.py %s --replay {path}" % pid,
        "engine": "coq-proof+correspondence",
        "level_claimed": {"category": m.LEVEL, "text": m.LEVEL_TEXT, "design_ref": "DESIGN.md section 5, " + pid},
        "level_note": m.LEVEL_NOTE,
        "technique": m.TECHNIQUE,
    })
hooks_commits = []
man = {
    "version": 1,
    "setup_cmd": "cd /verif && sh harness/setup.sh",
    "hooks": {
        "guard": "CURTSIES_VERIF",
        "enable": "no source hooks: the harness sets CURTSIES_VERIF=1 for itself and monkeypatches from outside "
                  "(blessed.Terminal.height/width, curtsies.input.time/select/getpreferredencoding); /repo is imported "
                  "from its working tree with PYTHONPATH=/repo",
        "baseline_off_cmd": "cd /repo && /venv/bin/python -m pytest -ra -q -p no:cacheprovider --timeout=900",
        "source_commits": hooks_commits,
        "add_only": True,
    },
    "engines": [{
        "name": "coq-proof+correspondence",
        "path": "harness/check.py",
        "serves_properties": [c["property_id"] for c in checks],
        "kind_free_text": "Coq 8.16 theorems over hand-written executable Gallina models (coq/Model, coq/Spec, coq/Proofs, "
                          "coq/Props) + tables regenerated from /repo on every run (gen/) + correspondence: implementation "
                          "outputs written into case files and compared with model and specification inside Coq (vm_compute)",
    }],
    "checks": checks,
    "not_applicable": na,
    "notes": "Known findings and fixed defects: known_findings.json. Trusted base: DESIGN.md section 3 and each evidence file.",
}
json.dump(man, open(os.path.join(ROOT, "MANIFEST.json"), "w"), indent=1)
print("MANIFEST.json: %d checks, %d not claimed" % (len(checks), len(na)))
