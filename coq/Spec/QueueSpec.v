(* Reference for C08: what a trace of requests must look like, judged against the
   history of injections alone.  A simple reference queue per source; no
   knowledge of how Input is written (no buffers, no select loop, no read
   sizes).  Only the TYPES of environment steps / history items are shared with
   Model/InputQ.v.  No proofs.

   Observation of one request: the returned value (key name or bytes, paste
   event, event id, SigIntEvent, None, an exception) with the clock before and
   after the request. *)
From Curtsies Require Import Model.Base Gen.Tables Model.InputQ.
Close Scope N_scope.
Local Open Scope Z_scope.

Inductive obs :=
| BKey (k : list N)
| BPaste (ks : list (list N))
| BEvent (id : N)
| BSigint
| BNone
| BRaise (e : exn)
| BBlocked.

Definition lN_eqb : list N -> list N -> bool := list_eqb N.eqb.

Definition obs_eqb (a b : obs) : bool :=
  match a, b with
  | BKey x, BKey y => lN_eqb x y
  | BPaste x, BPaste y => list_eqb lN_eqb x y
  | BEvent x, BEvent y => N.eqb x y
  | BSigint, BSigint | BNone, BNone | BBlocked, BBlocked => true
  | BRaise x, BRaise y => exn_eqb x y
  | _, _ => false
  end.

(* one request as observed: value, clock at the call, clock at the return *)
Definition entry := (obs * Z * Z)%type.

(* ---- the reference queues ------------------------------------------------- *)
Record rst := mkR {
  r_ev : list (N * N);          (* pending event_trigger events: (trigger, id), call order *)
  r_int : list (nat * N);       (* pending threadsafe events: (trigger, id), call order *)
  r_sched : list (Z * N);       (* pending scheduled events: (when, id), call order *)
  r_sig : nat;                  (* pending SIGINTs *)
  r_bytes : list N;             (* pending bytes, stream order *)
  r_nk : list nat               (* for each coming unget_bytes: how many bytes the kernel still held *)
}.

Definition r_init (nks : list nat) : rst := mkR [] [] [] O [] nks.

(* ungot bytes were read from the stream by somebody else: they precede what the
   kernel still holds ([nk] bytes) and follow everything else *)
Definition place_ungot (nk : nat) (bs pend : list N) : list N :=
  firstn (length pend - nk) pend ++ bs ++ skipn (length pend - nk) pend.

(* [bytes_mode = false]: key names do not determine the bytes they stand for, so
   the reference does not follow the byte stream at all (r_bytes stays empty) *)
Definition r_inject (bytes_mode : bool) (e : estep) (r : rst) : rst :=
  match e with
  | Arrive bs => if negb bytes_mode then r else mkR (r_ev r) (r_int r) (r_sched r) (r_sig r) (r_bytes r ++ bs) (r_nk r)
  | Unget bs =>
      if negb bytes_mode then r else
      match r_nk r with
      | nk :: rest => mkR (r_ev r) (r_int r) (r_sched r) (r_sig r) (place_ungot nk bs (r_bytes r)) rest
      | [] => mkR (r_ev r) (r_int r) (r_sched r) (r_sig r) (place_ungot O bs (r_bytes r)) []
      end
  | Trigger i id => mkR (r_ev r ++ [(i, id)]) (r_int r) (r_sched r) (r_sig r) (r_bytes r) (r_nk r)
  | Sched w id => mkR (r_ev r) (r_int r) (r_sched r ++ [(w, id)]) (r_sig r) (r_bytes r) (r_nk r)
  | TsTrigger i id | TsAppend i id =>
      mkR (r_ev r) (r_int r ++ [(i, id)]) (r_sched r) (r_sig r) (r_bytes r) (r_nk r)
  | Sigint _ => mkR (r_ev r) (r_int r) (r_sched r) (S (r_sig r)) (r_bytes r) (r_nk r)
  | TsWrite _ | Signal _ | Tick _ | Late _ => r
  end.

Definition r_injects (bytes_mode : bool) (es : list estep) (r : rst) : rst :=
  fold_left (fun r e => r_inject bytes_mode e r) es r.

(* take the event [id] out of a per-trigger FIFO: it must be the oldest pending
   event of its own trigger *)
Fixpoint take_fifo {K} (keqb : K -> K -> bool) (id : N) (seen : list K) (l : list (K * N))
  : option (list (K * N)) :=
  match l with
  | [] => None
  | (k, x) :: r =>
      if N.eqb x id
      then if existsb (keqb k) seen then None else Some r
      else match take_fifo keqb id (k :: seen) r with
           | Some r' => Some ((k, x) :: r')
           | None => None
           end
  end.

(* take the scheduled event [id] out: its time has come ([w <= clk]), no pending
   event has a smaller `when`, none with the same `when` was scheduled earlier *)
Fixpoint take_sched (clk : Z) (id : N) (before : list (Z * N)) (l : list (Z * N))
  : option (list (Z * N)) :=
  match l with
  | [] => None
  | (w, x) :: r =>
      if N.eqb x id
      then if (w <=? clk) && forallb (fun p => w <? fst p) before && forallb (fun p => w <=? fst p) r
           then Some (rev before ++ r) else None
      else take_sched clk id ((w, x) :: before) r
  end.

Fixpoint is_prefix (a b : list N) : option (list N) :=     (* Some (b without the prefix a) *)
  match a, b with
  | [], _ => Some b
  | x :: a', y :: b' => if N.eqb x y then is_prefix a' b' else None
  | _ :: _, [] => None
  end.

Definition sched_due (clk : Z) (r : rst) : bool := existsb (fun p => fst p <? clk) (r_sched r).

Definition deliverable (clk : Z) (r : rst) : bool :=
  negb (match r_ev r with [] => true | _ => false end)
  || negb (match r_int r with [] => true | _ => false end)
  || negb (Nat.eqb (r_sig r) 0)
  || negb (match r_bytes r with [] => true | _ => false end)
  || sched_due clk r.

Definition min_when (l : list (Z * N)) : option Z :=
  fold_right (fun p a => match a with None => Some (fst p) | Some m => Some (Z.min (fst p) m) end) None l.

(* Judge one request.  [bytes_mode]: keys are the bytes themselves, so the byte
   stream can be followed exactly; otherwise the byte clauses are left to the
   model correspondence (key names are not injective).
   [r0] = pending at the call, [r1] = pending at the call plus everything the
   request's script injects.  Returns the reference state after the request. *)
Definition judge (bytes_mode : bool) (th : option Z) (timeout : option Z)
           (r0 r1 : rst) (e : entry) : option rst :=
  let '(o, c0, c1) := e in
  let live := (* something deliverable at the call: returns it, and at once *)
    if deliverable c0 r0
    then negb (obs_eqb o BNone) && negb (obs_eqb o BBlocked) && (c1 =? c0)
    else true in
  if negb live then None else
  match o with
  | BEvent id =>
      match take_fifo N.eqb id [] (r_ev r1) with
      | Some l => Some (mkR l (r_int r1) (r_sched r1) (r_sig r1) (r_bytes r1) (r_nk r1))
      | None =>
      match take_fifo Nat.eqb id [] (r_int r1) with
      | Some l => Some (mkR (r_ev r1) l (r_sched r1) (r_sig r1) (r_bytes r1) (r_nk r1))
      | None =>
      match take_sched c1 id [] (r_sched r1) with
      | Some l => Some (mkR (r_ev r1) (r_int r1) l (r_sig r1) (r_bytes r1) (r_nk r1))
      | None => None
      end end end
  | BSigint =>
      match r_sig r1 with
      | S n => Some (mkR (r_ev r1) (r_int r1) (r_sched r1) n (r_bytes r1) (r_nk r1))
      | O => None
      end
  | BKey k =>
      if bytes_mode
      then match k, is_prefix k (r_bytes r1) with
           | _ :: _, Some rest => Some (mkR (r_ev r1) (r_int r1) (r_sched r1) (r_sig r1) rest (r_nk r1))
           | _, _ => None
           end
      else Some r1
  | BPaste ks =>
      match th with
      | None => None                                   (* no paste events without a threshold *)
      | Some t =>
          if bytes_mode
          then if forallb (fun k => negb (match k with [] => true | _ => false end)) ks
                  && (t <? Z.of_nat (length (concat ks)))
               then match is_prefix (concat ks) (r_bytes r1) with
                    | Some rest => Some (mkR (r_ev r1) (r_int r1) (r_sched r1) (r_sig r1) rest (r_nk r1))
                    | None => None
                    end
               else None
          else Some r1
      end
  | BNone =>
      (* nothing scheduled: not before the timeout; something scheduled: not before
         the earlier of the timeout and the first scheduled time *)
      match timeout, min_when (r_sched r1) with
      | None, None => None
      | Some t, None => if c0 + t <=? c1 then Some r1 else None
      | None, Some m => if m <=? c1 then Some r1 else None
      | Some t, Some m => if Z.min (c0 + t) m <=? c1 then Some r1 else None
      end
  | BRaise _ => None                                   (* something was dropped *)
  | BBlocked =>
      match timeout with
      | None => if deliverable c1 (mkR [] (r_int r1) (r_sched r1) (r_sig r1) (r_bytes r1) []) then None else Some r1
      | Some _ => None
      end
  end.

Definition is_req (i : item) : bool := match i with Req _ _ => true | _ => false end.

Definition events_deliverable (clk : Z) (r : rst) : bool :=
  deliverable clk (mkR (r_ev r) (r_int r) (r_sched r) (r_sig r) [] []).

Definition has_unget (es : list estep) : bool :=
  existsb (fun e => match e with Unget _ => true | _ => false end) es.

(* The paste clause.  [fresh] = every pending byte is still in the kernel (the
   last byte-consuming request returned None or a paste event and nothing was
   ungot since).  Then a request with no event to deliver finds
   m = min(READ_SIZE, pending) bytes in one read: above the threshold it must
   return ONE paste event holding all pending bytes; otherwise a keypress. *)
Definition paste_clause (bytes_mode fresh : bool) (th : option Z) (r0 : rst) (e : entry) : bool :=
  let '(o, c0, _) := e in
  if fresh && negb (events_deliverable c0 r0) && negb (match r_bytes r0 with [] => true | _ => false end)
  then
    if match th with
       | Some t => t <? Z.of_nat (Nat.min (N.to_nat read_size) (length (r_bytes r0)))
       | None => false
       end
    then match o with
         | BPaste ks => if bytes_mode then lN_eqb (concat ks) (r_bytes r0) else true
         | BRaise _ => true        (* judged (and rejected) by [judge] *)
         | _ => false
         end
    else match o with BKey _ | BRaise _ => true | _ => false end
  else true.

(* walk the history with the trace; result: None = every request is fine,
   Some i = the i-th request (from 0) is not (or the trace has the wrong length) *)
Fixpoint ref_walk (bytes_mode : bool) (th : option Z) (fresh : bool) (r : rst) (i : nat)
         (h : list item) (tr : list entry) : option nat :=
  match h with
  | [] => match tr with [] => None | _ => Some i end
  | Env e :: h' =>
      ref_walk bytes_mode th (fresh && negb (has_unget [e])) (r_inject bytes_mode e r) i h' tr
  | Req t sc :: h' =>
      match tr with
      | [] => Some i
      | e :: tr' =>
          if negb (paste_clause bytes_mode fresh th r e) then Some i else
          match judge bytes_mode th t r (r_injects bytes_mode sc r) e with
          | None => Some i
          | Some r' =>
              match fst (fst e) with
              | BBlocked => match tr' with [] => None | _ => Some (S i) end
              | o => let fresh' := match o with
                                   | BNone | BPaste _ => true
                                   | BKey _ => false
                                   | _ => fresh
                                   end in
                     ref_walk bytes_mode th (fresh' && negb (has_unget sc)) r' (S i) h' tr'
              end
          end
      end
  end.

Definition ref_check (bytes_mode : bool) (th : option Z) (nks : list nat) (h : list item) (tr : list entry) : bool :=
  match ref_walk bytes_mode th true (r_init nks) O h tr with None => true | Some _ => false end.

(* ========================================================================= *)
(* The invariant of the model (statements only; proofs in Proofs/InputQ.v).   *)
(* What a list of outcomes delivered, per source.  The ghost components of the
   model's outcomes say which bytes a keypress stands for, which queue an event
   came from and which bytes an exception threw away. *)
Definition d_bytes (o : outcome) : list N :=
  match o with
  | OKey _ used => used
  | OPaste ks => concat (map snd ks)
  | _ => []
  end.
Definition d_dropped (o : outcome) : list N := match o with ORaise _ d => d | _ => [] end.
(* bytes that left the buffers with this outcome, delivered or dropped *)
Definition d_consumed (o : outcome) : list N := d_bytes o ++ d_dropped o.
Definition d_ev (o : outcome) : list N := match o with OEvent SrcEv id => [id] | _ => [] end.
Definition d_int (o : outcome) : list N := match o with OEvent SrcInt id => [id] | _ => [] end.
Definition d_sched (o : outcome) : list (Z * N) := match o with OSched w id => [(w, id)] | _ => [] end.
Definition d_sig (o : outcome) : list N := match o with OSigint k => [k] | _ => [] end.

Definition has_when (w : Z) (p : Z * N) : bool := fst p =? w.

(* delivered ++ pending = injected, per source *)
Definition inv_bytes (s : st) (D : list outcome) : Prop :=
  flat_map d_consumed D ++ unproc s ++ kq s = g_bytes s.
Definition inv_ev (s : st) (D : list outcome) : Prop :=
  flat_map d_ev D ++ qev s = map snd (g_ev s).
Definition inv_int (s : st) (D : list outcome) : Prop :=
  flat_map d_int D ++ qint s = map snd (g_int s).
(* per scheduled time: delivered ++ pending = injected, in call order (so: exactly
   once, and events scheduled for the same time keep their call order) *)
Definition inv_sched (s : st) (D : list outcome) : Prop :=
  forall w, filter (has_when w) (flat_map d_sched D) ++ filter (has_when w) (qsched s)
            = filter (has_when w) (g_sched s).

Definition no_raise (D : list outcome) : Prop := forall o, In o D -> d_dropped o = [].
