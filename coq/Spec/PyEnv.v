(* The context in which the generated functions of curtsies/events.py are run by the
   reference interpreter Spec/PyMini.v: what the module-level names they read are, which
   module functions they can call, and the ORACLES that stand for library behaviour.

   GLOBALS (values built from the tables regenerated from the live module, Gen/Tables.v,
   and the Enum members dumped by gen_pure.py, Gen/Pure.v):
     CURTSIES_NAMES, CURSES_NAMES : dict bytes -> str     KEYMAP_PREFIXES : set of bytes
     MAX_KEYPRESS_SIZE : int      Keynames : Enum class      codecs : the stdlib module

   CALLEES: every module function a generated function calls is itself a generated
   function, run by the same interpreter in the context of the stratum below (the call
   graph is acyclic: utf8, decodable, _key_name < could_be_unfinished_char < get_key).
   A call of anything else is an error outcome (fail closed).

   ORACLES (the only behaviour that is assumed, not generated; both are models of the
   Python standard library, validated against CPython by the correspondence checks):
     bytes_decode       seq.decode(name)  = the text [Utf8.decode enc seq], or UnicodeDecodeError,
                        where [codec_of_name name = Some enc]; any other name is an error
                        outcome (OtherError), not a guess.
     codecs_getdecoder  codecs.getdecoder(name) = an object whose IDENTITY is determined by
                        the codec the name denotes: aliases of one codec give the identical
                        object, different codecs different objects.
   Executable definitions only, no proofs. *)
From Coq Require Import String.
From Curtsies Require Import Model.Base Gen.Tables Gen.Pure Spec.PyMini Model.Utf8.
Local Open Scope string_scope.

(* the encoding names accepted (a table of aliases; Python accepts more spellings) *)
Definition codec_names : list (list N * encoding) :=
  [ (codes "utf-8", Utf8); (codes "utf8", Utf8); (codes "UTF-8", Utf8);
    (codes "ascii", Ascii); (codes "us-ascii", Ascii);
    (codes "latin-1", Latin1); (codes "latin1", Latin1); (codes "iso-8859-1", Latin1) ].

Fixpoint codec_lookup (t : list (list N * encoding)) (name : list N) : option encoding :=
  match t with
  | [] => None
  | (n, e) :: t' => if list_eqb N.eqb n name then Some e else codec_lookup t' name
  end.
Definition codec_of_name (name : list N) : option encoding := codec_lookup codec_names name.

Definition codec_id (e : encoding) : N :=
  match e with Utf8 => 0%N | Ascii => 1%N | Latin1 => 2%N end.

(* oracle: bytes.decode *)
Definition bytes_decode (s : list N) (name : list N) : res val :=
  match codec_of_name name with
  | None => Raise OtherError
  | Some enc => match decode enc s with Some u => Ok (VStr u) | None => Raise UnicodeDecodeError end
  end.

(* oracle: codecs.getdecoder *)
Definition codecs_getdecoder (name : list N) : res val :=
  match codec_of_name name with
  | None => Raise OtherError
  | Some enc => Ok (VObj "codecs.getdecoder" (codec_id enc))
  end.

Definition repo_method (obj : val) (m : string) (arg : val) : res val :=
  match obj, arg with
  | VBytes s, VStr name => if String.eqb m "decode" then bytes_decode s name else Raise OtherError
  | VModule md, VStr name =>
      if String.eqb md "codecs" && String.eqb m "getdecoder" then codecs_getdecoder name else Raise OtherError
  | _, _ => Raise OtherError
  end.

(* a dict bytes -> str given as its item list *)
Definition embed_table (t : list (list N * str)) : list (val * val) :=
  map (fun kv => (VBytes (fst kv), VStr (snd kv))) t.
Definition embed_set (t : list (list N)) : list val := map VBytes t.

Fixpoint enum_globals (l : list (string * list string)) : env :=
  match l with
  | [] => []
  | (cls, members) :: l' => (cls, VEnumClass cls members) :: enum_globals l'
  end.

Definition repo_globals : env :=
  ([ ("CURTSIES_NAMES", VDict (embed_table curtsies_names));
    ("CURSES_NAMES", VDict (embed_table curses_names));
    ("KEYMAP_PREFIXES", VSet (embed_set keymap_prefixes));
    ("MAX_KEYPRESS_SIZE", VInt (Z.of_nat max_keypress_size));
    ("codecs", VModule "codecs") ]
  ++ enum_globals py_enums)%list.

(* stratum 0: functions that call no module function *)
Definition ctx0 : ctx := mkCtx repo_globals [] repo_method [] [].
Definition sem_could_be_unfinished_utf8 : list val -> res val := call_in ctx0 py_could_be_unfinished_utf8.
Definition sem_decodable : list val -> res val := call_in ctx0 py_decodable.
Definition sem_key_name : list val -> res val := call_in ctx0 py_key_name.

(* stratum 1 *)
Definition funs1 : funs :=
  [ ("could_be_unfinished_utf8", sem_could_be_unfinished_utf8);
    ("decodable", sem_decodable);
    ("_key_name", sem_key_name) ].
Definition ctx1 : ctx := mkCtx repo_globals funs1 repo_method [] [].
Definition sem_could_be_unfinished_char : list val -> res val := call_in ctx1 py_could_be_unfinished_char.

(* stratum 2 *)
Definition funs2 : funs := ("could_be_unfinished_char", sem_could_be_unfinished_char) :: funs1.
Definition ctx2 : ctx := mkCtx repo_globals funs2 repo_method [] [].
Definition sem_get_key : list val -> res val := call_in ctx2 py_get_key.
