(* Specification side of C13.
     value h o     the abstract value (list of runs) of FmtStr object o in heap h
     memo_ok h     every FILLED memo slot (FmtStr._unicode/_len/_s/_width, Chunk.color_str)
                   equals the value recomputed from the runs by the reference
                   functions render / flen / text / spec_width
     safe          the acceptance policy for the heap-effect summary that
                   gen/gen_effects.py extracts from curtsies/formatstring.py
                   (coq/Gen/Effects.v, regenerated on every run)
   No proofs here. *)
From Coq Require Import String.
From Curtsies Require Import Model.Base Gen.Tables Model.Render Model.Heap Gen.Effects.
Local Open Scope nat_scope.

Definition dummy_ck : chunkobj := mkCk (mkChunk [] no_atts) None.

(* the runs of object o: follow the list reference, then the chunk references *)
Definition value (h : heap) (o : nat) : fmtstr :=
  match nth_error (h_fs h) o with
  | Some f => map (fun c => k_c (nth c (h_ck h) dummy_ck)) (nth (f_list f) (h_ls h) [])
  | None => []
  end.

Section Width.
Variable wc : char -> Z.
(* Chunk.width: the sum of the character widths; ValueError when a character has no width *)
Definition spec_chunk_width (c : chunk) : res Z :=
  if existsb (fun x => (wc x <? 0)%Z) (c_s c) then Raise ValueError
  else Ok (fold_right Z.add 0%Z (map wc (c_s c))).
Fixpoint spec_width (f : fmtstr) : res Z :=
  match f with
  | [] => Ok 0%Z
  | c :: r => bind (spec_chunk_width c) (fun w => bind (spec_width r) (fun t => Ok (w + t)%Z))
  end.

Definition memo_ok (h : heap) : Prop :=
  (forall c k u, nth_error (h_ck h) c = Some k -> k_str k = Some u -> u = render_chunk (k_c k)) /\
  (forall o f, nth_error (h_fs h) o = Some f ->
     (forall u, f_unicode f = Some u -> u = render (value h o)) /\
     (forall n, f_len f = Some n -> n = flen (value h o)) /\
     (forall s, f_s f = Some s -> s = text (value h o)) /\
     (forall w, f_width f = Some w -> spec_width (value h o) = Ok w)).
End Width.

(* ---- the invariant and the extension relation of the frame theorem ---------------------- *)
(* no dangling references *)
Definition wf (h : heap) : Prop :=
  (forall l xs, nth_error (h_ls h) l = Some xs -> Forall (fun c => c < length (h_ck h)) xs) /\
  (forall o f, nth_error (h_fs h) o = Some f -> f_list f < length (h_ls h)).

Definition inv (wc : char -> Z) (h : heap) : Prop := wf h /\ memo_ok wc h.

Definition chunks_kept (h h' : heap) : Prop :=
  forall c k, nth_error (h_ck h) c = Some k -> exists k', nth_error (h_ck h') c = Some k' /\ k_c k' = k_c k.

(* h' extends h: nothing disappears, the list objects below [b] are untouched, no existing run
   object changes its text / attributes, no existing FmtStr changes its list reference, and FmtStr
   objects created since own lists created since.  What MAY differ on pre-existing objects is
   exactly: the four memo slots of a FmtStr and the cached color_str of a run. *)
Definition ext (b : nat) (h h' : heap) : Prop :=
  length (h_ck h) <= length (h_ck h') /\ length (h_ls h) <= length (h_ls h') /\
  length (h_fs h) <= length (h_fs h') /\
  (forall l, l < b -> nth_error (h_ls h') l = nth_error (h_ls h) l) /\
  chunks_kept h h' /\
  (forall o f, nth_error (h_fs h) o = Some f -> exists f', nth_error (h_fs h') o = Some f' /\ f_list f' = f_list f) /\
  (forall o f', nth_error (h_fs h') o = Some f' -> length (h_fs h) <= o -> length (h_ls h) <= f_list f').

(* ======================================================================================
   The policy for the effect summary.  An effect on a PRE-EXISTING object is acceptable
   only in the places listed here; everything else (including every [Unknown]) is not.
   ====================================================================================== *)
Local Open Scope string_scope.

Definition mem (s : string) (l : list string) : bool := existsb (String.eqb s) l.

Fixpoint kind_eqb (a b : kind) : bool :=
  match a, b with
  | KSelf, KSelf | KNone, KNone | KImm, KImm | KOpResult, KOpResult => true
  | KSelfAttr x, KSelfAttr y | KVarArgs x, KVarArgs y | KVarKw x, KVarKw y
  | KFresh x, KFresh y | KAttr x, KAttr y | KOther x, KOther y => x =? y
  | KParam x a1, KParam y a2 => (x =? y) && (a1 =? a2)
  | KElem x, KElem y => kind_eqb x y
  | _, _ => false
  end.

Definition memo_slots := ["_unicode"; "_len"; "_s"; "_width"].
(* the getter that owns each memo slot *)
Definition memo_getter (fname attr : string) : bool :=
  ((fname =? "__str__") && (attr =? "_unicode")) || ((fname =? "__len__") && (attr =? "_len")) ||
  ((fname =? "s") && (attr =? "_s")) || ((fname =? "width") && (attr =? "_width")).

(* annotations of parameters on which `x += ..` is a rebinding, not a mutation *)
Definition immutable_annotation (ann : string) : bool :=
  mem ann ["int"; "str"; "bool"; "Union[int, slice]"; "Tuple[str, ...]"].

Definition lookup (cls name : string) : option fn :=
  find (fun f => (fn_class f =? cls) && (fn_name f =? name)) Effects.table.
Definition pure_fn (cls name : string) : bool :=
  match lookup cls name with
  | Some f =>
      (* no effect other than in-place changes of objects allocated in the same call (a result built up in a
         local dict / list): nothing that existed before the call is touched *)
      forallb (fun e => match e with Mutate (KFresh _) _ => true | _ => false end) (fn_effects f) &&
      negb (fn_always_raises f)
  | None => false
  end.
Definition raising_fn (cls name : string) : bool :=
  match lookup cls name with Some f => fn_always_raises f | None => false end.

(* every call site of [callee] (in the whole package) passes, at position [pos], a dict
   that was built for that very call: a display / comprehension or the caller's own **kwargs *)
Definition callers_pass_fresh (callee : string) (pos : nat) : bool :=
  forallb (fun c => negb (cs_callee c =? callee) ||
                    match nth_error (cs_args c) pos with
                    | Some (KFresh _) | Some (KVarKw _) => true
                    | _ => false
                    end) Effects.calls.

Definition safe_effect (cls fname : string) (e : effect) : bool :=
  match e with
  (* attribute stores: only on self, and only ... *)
  | Store KSelf a v =>
      (* ... the object under construction: a NEW list for chunks, None for the memo slots *)
      ((cls =? "FmtStr") && (fname =? "__init__") &&
       (((a =? "chunks") && kind_eqb v (KFresh "list")) || (mem a memo_slots && kind_eqb v KNone)))
      (* ... a memo slot, inside its own getter, with an immutable value computed there *)
      || ((cls =? "FmtStr") && memo_getter fname a && kind_eqb v KImm)
      (* ... Chunk.__init__: the (immutable) str and a NEW FrozenAttributes *)
      || ((cls =? "Chunk") && (fname =? "__init__") &&
          (((a =? "_s") && kind_eqb v (KParam "string" "str")) ||
           ((a =? "_atts") && kind_eqb v (KFresh "FrozenAttributes"))))
      (* ... the bookkeeping of a ChunkSplitter (a private helper object, not a FmtStr / Chunk value) *)
      || ((cls =? "ChunkSplitter") && mem fname ["reinit"; "request"] &&
          mem a ["chunk"; "internal_offset"; "internal_width"; "divides"])
  | Store _ _ _ => false
  | DelAttr _ _ => false
  (* in-place mutation: only of objects allocated in the same call ... *)
  | Mutate (KFresh _) _ => true
  | Mutate (KVarKw _) _ => true                      (* the callee's own **kwargs dict *)
  (* ... `x += e` on a name that only ever holds immutable values / operator results is a rebinding
     (no class of the module defines an in-place operator: [no_inplace_operators]) *)
  | Mutate KImm how | Mutate KNone how | Mutate KOpResult how | Mutate (KVarArgs _) how => how =? "augassign"
  | Mutate (KParam p ann) how =>
      ((how =? "augassign") && immutable_annotation ann)
      (* parse_args writes into its kwargs parameter: every caller hands it a dict built for that call *)
      || ((cls =? "") && (fname =? "parse_args") && (p =? "kwargs") && mem how ["setitem"; "delitem"] &&
          callers_pass_fresh "parse_args" 1)
  (* ChunkSplitter's integer counters *)
  | Mutate (KSelfAttr a) how =>
      (cls =? "ChunkSplitter") && (how =? "augassign") && mem a ["internal_offset"; "internal_width"]
  (* x.atts.extend(..) / x.atts.remove(..): FrozenAttributes overrides both with pure functions *)
  | Mutate (KAttr a) how =>
      (a =? "atts") && mem how ["extend"; "remove"] &&
      pure_fn "FrozenAttributes" "extend" && pure_fn "FrozenAttributes" "remove"
  (* lines[-1] += word (FmtStr has no in-place operator) / ends[-1] -= 1 (an int), on a fresh list *)
  | Mutate (KElem (KFresh _)) how =>
      (how =? "augassign") &&
      (((cls =? "") && (fname =? "linesplit")) || ((cls =? "FmtStr") && (fname =? "splitlines")))
  | Mutate _ _ => false
  | CachedProperty a => (cls =? "Chunk") && (fname =? "color_str") && (a =? "color_str")
  | Unknown _ => false
  end.

(* special methods through which a statement that LOOKS like a rebinding or a store mutates an
   existing object; a class of the module may define them only as `raise ...` *)
Definition guarded_defs :=
  ["__iadd__"; "__imul__"; "__ior__"; "__iand__"; "__isub__"; "__ixor__"; "__itruediv__"; "__ifloordiv__";
   "__imod__"; "__ipow__"; "__ilshift__"; "__irshift__"; "__imatmul__";
   "__setitem__"; "__delitem__"; "__setattr__"; "__delattr__"; "__set__"; "__delete__"; "__set_name__";
   "__getattribute__"; "__setstate__"; "__init_subclass__"; "__new__"].

Definition safe (f : fn) : bool :=
  forallb (safe_effect (fn_class f) (fn_name f)) (fn_effects f) &&
  (negb (mem (fn_name f) guarded_defs) || fn_always_raises f) &&
  forallb (fun d => mem d ["property"; "staticmethod"; "no_type_check"; "cached_property"]) (fn_decorators f).

(* the dict methods that change a dict in place (Python 3.9+): each must be overridden by a raise *)
Definition dict_mutators := ["__setitem__"; "__delitem__"; "update"; "pop"; "popitem"; "clear"; "setdefault"; "__ior__"].
Definition frozen_blocks_mutators : bool :=
  forallb (raising_fn "FrozenAttributes") dict_mutators && raising_fn "FmtStr" "__setitem__".

(* the constructor really is there and really copies / resets *)
Definition init_present : bool :=
  match lookup "FmtStr" "__init__" with
  | Some f =>
      forallb (fun e => existsb (fun e' => match e, e' with
                                           | Store k a v, Store k' a' v' => kind_eqb k k' && (a =? a') && kind_eqb v v'
                                           | _, _ => false end) (fn_effects f))
              [Store KSelf "chunks" (KFresh "list"); Store KSelf "_unicode" KNone; Store KSelf "_len" KNone;
               Store KSelf "_s" KNone; Store KSelf "_width" KNone]
  | None => false
  end.
