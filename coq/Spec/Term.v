(* Reference terminal model (trusted, not proved against anything): what an
   xterm-like terminal does with the commands blessed emits for xterm-256color.
   Used as the oracle of C02, C07 and C12.

   A buffer is an unbounded "document" of lines plus the number of lines that
   have scrolled off the top: screen row r is document line base + r.  On the
   main screen the lines below [base] are the scrollback; on the alternate
   screen they are unobservable (the model keeps them only to count scrolls). *)
From Curtsies Require Import Model.Base Spec.Sgr.
From Coq Require Import Arith.
Close Scope N_scope.
Open Scope nat_scope.

Definition blank : cell := (32%N, sgr_default).
(* erasing paints with the current background colour (xterm BCE) *)
Definition erased (g : sgr) : cell :=
  (32%N, mkSgr None (s_bg g) false false false false false false).

Record buf := mkBuf { b_doc : nat -> nat -> cell; b_base : nat }.

Record term := mkTerm {
  t_h : nat; t_w : nat;
  t_main : buf; t_alt : buf; t_in_alt : bool;
  t_row : nat; t_col : nat; t_pending : bool;   (* pending wrap: last column written *)
  t_sgr : sgr;
  t_saved : nat * nat * sgr;                    (* ESC 7 *)
  t_saved_alt : nat * nat * sgr;                (* cursor saved by ?1049h *)
  t_visible : bool }.

Definition abuf (t : term) : buf := if t_in_alt t then t_alt t else t_main t.

Definition with_abuf (b : buf) (t : term) : term :=
  if t_in_alt t
  then mkTerm (t_h t) (t_w t) (t_main t) b true (t_row t) (t_col t) (t_pending t) (t_sgr t) (t_saved t) (t_saved_alt t) (t_visible t)
  else mkTerm (t_h t) (t_w t) b (t_alt t) false (t_row t) (t_col t) (t_pending t) (t_sgr t) (t_saved t) (t_saved_alt t) (t_visible t).

Definition with_cursor (r c : nat) (p : bool) (t : term) : term :=
  mkTerm (t_h t) (t_w t) (t_main t) (t_alt t) (t_in_alt t) r c p (t_sgr t) (t_saved t) (t_saved_alt t) (t_visible t).

Definition with_sgr (g : sgr) (t : term) : term :=
  mkTerm (t_h t) (t_w t) (t_main t) (t_alt t) (t_in_alt t) (t_row t) (t_col t) (t_pending t) g (t_saved t) (t_saved_alt t) (t_visible t).

Definition with_visible (v : bool) (t : term) : term :=
  mkTerm (t_h t) (t_w t) (t_main t) (t_alt t) (t_in_alt t) (t_row t) (t_col t) (t_pending t) (t_sgr t) (t_saved t) (t_saved_alt t) v.

(* the cell shown at screen position (r, c) *)
Definition scr (t : term) (r c : nat) : cell := b_doc (abuf t) (b_base (abuf t) + r) c.
(* number of lines that have scrolled off the top of the active buffer *)
Definition scrolled (t : term) : nat := b_base (abuf t).

Definition set_line_cells (b : buf) (line : nat) (p : nat -> bool) (v : cell) : buf :=
  mkBuf (fun r c => if (r =? line) && p c then v else b_doc b r c) (b_base b).

(* one line scrolls off the top; a fresh erased line appears at the bottom *)
Definition scroll (t : term) : term :=
  let b := abuf t in
  let fresh_line := b_base b + t_h t in
  with_abuf (mkBuf (fun r c => if r =? fresh_line then erased (t_sgr t) else b_doc b r c) (S (b_base b))) t.

(* index: down one line, scrolling at the bottom row *)
Definition index (t : term) : term :=
  if S (t_row t) =? t_h t then scroll t else with_cursor (S (t_row t)) (t_col t) (t_pending t) t.

Definition put (x : cell) (t : term) : term :=
  let t1 := if t_pending t then with_cursor (t_row (index t)) 0 false (index t) else t in
  let b := abuf t1 in
  let t2 := with_abuf (set_line_cells b (b_base b + t_row t1) (fun c => c =? t_col t1) x) t1 in
  if S (t_col t1) =? t_w t1 then with_cursor (t_row t1) (t_col t1) true t2
  else with_cursor (t_row t1) (S (t_col t1)) false t2.

Fixpoint puts (xs : list cell) (t : term) : term :=
  match xs with [] => t | x :: r => puts r (put x t) end.

Inductive cmd :=
| Str (s : str)          (* text with SGR sequences only *)
| Cup (r c : nat)        (* ESC [ r+1 ; c+1 H *)
| El0 | El1              (* ESC [ K, ESC [ 1 K *)
| Ed0                    (* ESC [ J *)
| Lf                     (* \n (blessed move_down) *)
| Cha (c : nat)          (* ESC [ c+1 G *)
| Sc | Rc                (* ESC 7, ESC 8 *)
| Hide | Show            (* ESC[?25l ; ESC[?12l ESC[?25h *)
| AltOn | AltOff         (* ESC[?1049h, ESC[?1049l *)
| Dsr.                   (* ESC [ 6 n : cursor position query, no display effect *)

Definition exec (t : term) (k : cmd) : option term :=
  match k with
  | Str s =>
      match run (t_sgr t) Ground s with
      | Some (xs, g, Ground) => Some (with_sgr g (puts xs t))
      | _ => None
      end
  | Cup r c => Some (with_cursor (Nat.min r (t_h t - 1)) (Nat.min c (t_w t - 1)) false t)
  | El0 =>
      let b := abuf t in
      Some (with_abuf (set_line_cells b (b_base b + t_row t) (fun c => t_col t <=? c) (erased (t_sgr t))) t)
  | El1 =>
      let b := abuf t in
      Some (with_abuf (set_line_cells b (b_base b + t_row t) (fun c => c <=? t_col t) (erased (t_sgr t))) t)
  | Ed0 =>
      let b := abuf t in
      let line := b_base b + t_row t in
      Some (with_abuf (mkBuf (fun r c => if ((r =? line) && (t_col t <=? c)) || (line <? r)
                                         then erased (t_sgr t) else b_doc b r c) (b_base b)) t)
  | Lf => let t' := index t in Some (with_cursor (t_row t') (t_col t') false t')
  | Cha c => Some (with_cursor (t_row t) (Nat.min c (t_w t - 1)) false t)
  | Sc => Some (mkTerm (t_h t) (t_w t) (t_main t) (t_alt t) (t_in_alt t) (t_row t) (t_col t) (t_pending t)
                       (t_sgr t) (t_row t, t_col t, t_sgr t) (t_saved_alt t) (t_visible t))
  | Rc => let '(r, c, g) := t_saved t in Some (with_sgr g (with_cursor r c false t))
  | Hide => Some (with_visible false t)
  | Show => Some (with_visible true t)
  | AltOn =>
      if t_in_alt t then Some t else
      Some (mkTerm (t_h t) (t_w t) (t_main t) (mkBuf (fun _ _ => blank) 0) true (t_row t) (t_col t) (t_pending t)
                   (t_sgr t) (t_saved t) (t_row t, t_col t, t_sgr t) (t_visible t))
  | AltOff =>
      if t_in_alt t then
        let '(r, c, g) := t_saved_alt t in
        Some (mkTerm (t_h t) (t_w t) (t_main t) (t_alt t) false r c false g (t_saved t) (t_saved_alt t) (t_visible t))
      else Some t
  | Dsr => Some t
  end.

Fixpoint execs (t : term) (ks : list cmd) : option term :=
  match ks with
  | [] => Some t
  | k :: r => match exec t k with Some t' => execs t' r | None => None end
  end.

(* ---- observation helpers (executable, for the correspondence) ------------ *)
Definition screen_rows (t : term) : list (list cell) :=
  map (fun r => map (fun c => scr t r c) (seq 0 (t_w t))) (seq 0 (t_h t)).

Definition rows_eqb (a b : list (list cell)) : bool := list_eqb cells_eqb a b.

(* a terminal built from explicit rows (cells beyond the given ones are blank) *)
Definition doc_of_rows (rows : list (list cell)) : nat -> nat -> cell :=
  fun r c => nth c (nth r rows []) blank.
