(* PyMini -- abstract syntax and reference semantics of the small, loop-free subset of
   Python in which the pure arithmetic helpers of curtsies are written
   (normalize_slice, interval_overlap, could_be_unfinished_utf8).

   The translator gen/gen_pure.py dumps the Python AST of those functions, node by
   node, into terms of [stmt] (Gen/Pure.v, regenerated from /repo on every run): it makes
   no decision about meaning.  The meaning is here: [exec_block] is the reference
   interpreter.  Proofs/PureTie.v proves, for ALL arguments, that running the generated
   syntax tree gives what the hand-written models (Model/Slice.v, Model/Width.v,
   Model/Keys.v) compute, so the theorems about those models are theorems about the
   function text that is in the repository now; the correspondence check additionally runs
   this interpreter against CPython on generated arguments.

   Values: int (unbounded), bool, None, slice objects, bytes.  Everything the subset
   cannot express is an explicit error outcome ([Raise]), never a default value.
   No proofs in this file. *)
From Coq Require Import String.
From Curtsies Require Import Model.Base.
Local Open Scope Z_scope.

Inductive val :=
| VInt (z : Z)
| VBool (b : bool)
| VNone
| VSlice (start stop step : val)
| VBytes (l : list N).

Inductive binop := BAdd | BSub | BMul | BBitAnd | BBitOr.
Inductive cmpop := CLt | CLtE | CGt | CGtE | CEq | CNotEq | CIs | CIsNot.

Inductive expr :=
| EVar (x : string)
| EInt (z : Z)
| EBoolC (b : bool)
| ENoneC
| EBin (op : binop) (a b : expr)
| ENeg (a : expr)
| ENot (a : expr)
| ECmp (op : cmpop) (a b : expr)          (* one comparison; chains are refused by the translator *)
| EAnd (a b : expr)                        (* a and b : value of a if falsy, else value of b *)
| EOr (a b : expr)
| EAttr (a : expr) (name : string)         (* .start .stop .step of a slice object *)
| ECall1 (f : string) (a : expr)           (* len, ord, abs, bool, int *)
| ECall2 (f : string) (a b : expr)         (* max, min, isinstance(x, int|slice) *)
| ECall3 (f : string) (a b c : expr)       (* slice(a, b, c) *)
| ESub (a : expr) (lo hi : option expr).   (* a[lo:hi] on bytes *)

Inductive stmt :=
| SAssign (x : string) (e : expr)
| SAugAssign (x : string) (op : binop) (e : expr)
| SIf (c : expr) (th el : list stmt)
| SReturn (e : expr)
| SRaise (e : exn)
| SPass.                                    (* docstrings and `pass` *)

Record fundef := mkFun { f_params : list string; f_body : list stmt }.

(* ---- environments ---------------------------------------------------------- *)
Definition env := list (string * val).

Fixpoint lookup (x : string) (r : env) : option val :=
  match r with
  | [] => None
  | (y, v) :: r' => if String.eqb x y then Some v else lookup x r'
  end.

Definition bind_var (x : string) (v : val) (r : env) : env := (x, v) :: r.

(* ---- values ---------------------------------------------------------------------- *)
(* bool is a subclass of int: True == 1 *)
Definition as_int (v : val) : option Z :=
  match v with
  | VInt z => Some z
  | VBool b => Some (if b then 1 else 0)
  | _ => None
  end.

Definition truthy (v : val) : bool :=
  match v with
  | VInt z => negb (z =? 0)
  | VBool b => b
  | VNone => false
  | VSlice _ _ _ => true
  | VBytes l => match l with [] => false | _ => true end
  end.

Fixpoint val_eqb (a b : val) : bool :=
  match a, b with
  | VNone, VNone => true
  | VSlice a1 a2 a3, VSlice b1 b2 b3 => val_eqb a1 b1 && val_eqb a2 b2 && val_eqb a3 b3
  | VBytes x, VBytes y => list_eqb N.eqb x y
  | _, _ =>
      match as_int a, as_int b with
      | Some x, Some y => x =? y
      | _, _ => false
      end
  end.

(* `is` is only used against None in the subset; the translator refuses anything else *)
Definition is_none (v : val) : bool := match v with VNone => true | _ => false end.

Definition binop_int (op : binop) (x y : Z) : Z :=
  match op with
  | BAdd => x + y
  | BSub => x - y
  | BMul => x * y
  | BBitAnd => Z.land x y
  | BBitOr => Z.lor x y
  end.

Definition eval_bin (op : binop) (a b : val) : res val :=
  match as_int a, as_int b with
  | Some x, Some y => Ok (VInt (binop_int op x y))
  | _, _ => Raise TypeError
  end.

Definition eval_cmp (op : cmpop) (a b : val) : res val :=
  match op with
  | CEq => Ok (VBool (val_eqb a b))
  | CNotEq => Ok (VBool (negb (val_eqb a b)))
  | CIs => match b with VNone => Ok (VBool (is_none a)) | _ => Raise OtherError end
  | CIsNot => match b with VNone => Ok (VBool (negb (is_none a))) | _ => Raise OtherError end
  | _ =>
      match as_int a, as_int b with
      | Some x, Some y =>
          Ok (VBool (match op with
                     | CLt => x <? y | CLtE => x <=? y | CGt => x >? y | _ => x >=? y
                     end))
      | _, _ => Raise TypeError                (* '<' not supported between ... *)
      end
  end.

(* Python's slicing of a sequence with int-or-None bounds and no step *)
Definition clip (n : Z) (b : Z) : Z := if b <? 0 then Z.max 0 (n + b) else Z.min b n.
Definition slice_list {A} (l : list A) (lo hi : option Z) : list A :=
  let n := Z.of_nat (List.length l) in
  let a := match lo with None => 0 | Some x => clip n x end in
  let b := match hi with None => n | Some x => clip n x end in
  firstn (Z.to_nat (b - a)) (skipn (Z.to_nat a) l).

Definition bound_of (v : val) : res (option Z) :=
  match v with
  | VNone => Ok None
  | _ => match as_int v with Some z => Ok (Some z) | None => Raise TypeError end
  end.

Definition call1 (f : string) (a : val) : res val :=
  if String.eqb f "len" then
    match a with VBytes l => Ok (VInt (Z.of_nat (List.length l))) | _ => Raise TypeError end
  else if String.eqb f "ord" then
    match a with VBytes [b] => Ok (VInt (Z.of_N b)) | _ => Raise TypeError end
  else if String.eqb f "abs" then
    match as_int a with Some z => Ok (VInt (Z.abs z)) | None => Raise TypeError end
  else if String.eqb f "bool" then Ok (VBool (truthy a))
  else if String.eqb f "int" then
    match as_int a with Some z => Ok (VInt z) | None => Raise TypeError end
  else Raise OtherError.

Definition call2 (f : string) (a b : val) : res val :=
  if String.eqb f "max" then
    match as_int a, as_int b with
    | Some x, Some y => Ok (if y >? x then b else a)      (* max returns the first of equal arguments *)
    | _, _ => Raise TypeError
    end
  else if String.eqb f "min" then
    match as_int a, as_int b with
    | Some x, Some y => Ok (if y <? x then b else a)
    | _, _ => Raise TypeError
    end
  else if String.eqb f "slice" then Ok (VSlice a b VNone)      (* slice(a, b) = slice(a, b, None) *)
  else Raise OtherError.

(* isinstance(x, int) / isinstance(x, slice): the class is a NAME in the source, passed
   on by the translator as the function name "isinstance_int" / "isinstance_slice" *)
Definition isinstance (cls : string) (a : val) : res val :=
  if String.eqb cls "int" then Ok (VBool (match a with VInt _ | VBool _ => true | _ => false end))
  else if String.eqb cls "slice" then Ok (VBool (match a with VSlice _ _ _ => true | _ => false end))
  else if String.eqb cls "bytes" then Ok (VBool (match a with VBytes _ => true | _ => false end))
  else Raise OtherError.

Definition get_attr (a : val) (name : string) : res val :=
  match a with
  | VSlice s e st =>
      if String.eqb name "start" then Ok s
      else if String.eqb name "stop" then Ok e
      else if String.eqb name "step" then Ok st
      else Raise OtherError
  | _ => Raise OtherError                     (* AttributeError *)
  end.

(* ---- expressions ----------------------------------------------------------------- *)
Definition rbind {A B} (r : res A) (k : A -> res B) : res B :=
  match r with Ok a => k a | Raise e => Raise e end.

Fixpoint eval (r : env) (e : expr) : res val :=
  match e with
  | EVar x => match lookup x r with Some v => Ok v | None => Raise OtherError end   (* NameError *)
  | EInt z => Ok (VInt z)
  | EBoolC b => Ok (VBool b)
  | ENoneC => Ok VNone
  | EBin op a b => rbind (eval r a) (fun va => rbind (eval r b) (fun vb => eval_bin op va vb))
  | ENeg a => rbind (eval r a) (fun va => match as_int va with Some z => Ok (VInt (- z)) | None => Raise TypeError end)
  | ENot a => rbind (eval r a) (fun va => Ok (VBool (negb (truthy va))))
  | ECmp op a b => rbind (eval r a) (fun va => rbind (eval r b) (fun vb => eval_cmp op va vb))
  | EAnd a b => rbind (eval r a) (fun va => if truthy va then eval r b else Ok va)
  | EOr a b => rbind (eval r a) (fun va => if truthy va then Ok va else eval r b)
  | EAttr a name => rbind (eval r a) (fun va => get_attr va name)
  | ECall1 f a => rbind (eval r a) (fun va => call1 f va)
  | ECall2 f a b =>
      if String.eqb f "isinstance" then
        match b with
        | EVar cls => rbind (eval r a) (fun va => isinstance cls va)
        | _ => Raise OtherError
        end
      else rbind (eval r a) (fun va => rbind (eval r b) (fun vb => call2 f va vb))
  | ECall3 f a b c =>
      if String.eqb f "slice" then
        rbind (eval r a) (fun va => rbind (eval r b) (fun vb => rbind (eval r c) (fun vc => Ok (VSlice va vb vc))))
      else Raise OtherError
  | ESub a lo hi =>
      rbind (eval r a) (fun va =>
      rbind (match lo with None => Ok None | Some x => rbind (eval r x) bound_of end) (fun l =>
      rbind (match hi with None => Ok None | Some x => rbind (eval r x) bound_of end) (fun h =>
      match va with
      | VBytes bs => Ok (VBytes (slice_list bs l h))
      | _ => Raise TypeError
      end)))
  end.

(* ---- statements ------------------------------------------------------------------ *)
Inductive outcome :=
| Next (r : env)            (* fell through *)
| Returned (v : val)
| Raised (e : exn).

Fixpoint exec (s : stmt) (r : env) : outcome :=
  match s with
  | SAssign x e => match eval r e with Ok v => Next (bind_var x v r) | Raise ex => Raised ex end
  | SAugAssign x op e =>
      match lookup x r with
      | None => Raised OtherError
      | Some old =>
          match eval r e with
          | Ok v => match eval_bin op old v with Ok w => Next (bind_var x w r) | Raise ex => Raised ex end
          | Raise ex => Raised ex
          end
      end
  | SIf c th el =>
      match eval r c with
      | Raise ex => Raised ex
      | Ok v =>
          (fix block (l : list stmt) (r : env) : outcome :=
             match l with
             | [] => Next r
             | s' :: l' => match exec s' r with Next r' => block l' r' | o => o end
             end) (if truthy v then th else el) r
      end
  | SReturn e => match eval r e with Ok v => Returned v | Raise ex => Raised ex end
  | SRaise ex => Raised ex
  | SPass => Next r
  end.

Fixpoint exec_block (l : list stmt) (r : env) : outcome :=
  match l with
  | [] => Next r
  | s :: l' => match exec s r with Next r' => exec_block l' r' | o => o end
  end.

(* call a function: falling off the end returns None *)
Definition call (f : fundef) (args : list val) : res val :=
  if Nat.eqb (List.length args) (List.length (f_params f)) then
    match exec_block (f_body f) (List.combine (f_params f) args) with
    | Next _ => Ok VNone
    | Returned v => Ok v
    | Raised e => Raise e
    end
  else Raise TypeError.

Definition res_val_eqb (a b : res val) : bool :=
  match a, b with
  | Ok x, Ok y => val_eqb x y
  | Raise e, Raise e' => exn_eqb e e'
  | _, _ => false
  end.
