(* PyMini -- abstract syntax and reference semantics of the small subset of Python in which
   the pure helpers of curtsies are written
   (formatstring.normalize_slice, formatstring.interval_overlap, the decision cascade of
   key decoding: events.get_key, _key_name, decodable, could_be_unfinished_char,
   could_be_unfinished_utf8; and -- with `for` loops over lists / str, `break` / `continue`,
   objects given by their instance attributes, local lists built with append / extend --
   the slicing algorithms FmtStr.__getitem__, FmtStr.divides, width_aware_slice,
   FmtStr.width_aware_slice; and -- with chained comparisons, keyword arguments, isinstance
   against the module's own classes, a filtered generator expression consumed by `*`, method
   calls and `+` dispatched to the methods of a user class, assert with a message expression --
   FmtStr.splice, append, setslice_with_length, setitem, __add__, __radd__; and -- with range(n) as an
   iterable and sum(iterable, start) -- FmtStr.__mul__).  There is no `while`: every loop is a `for` over a value that
   is already a finite list, i.e. structural recursion; the interpreter is total without fuel.

   The translator gen/gen_pure.py dumps the Python AST of those functions, node by
   node, into terms of [stmt] (Gen/Pure.v, regenerated from /repo on every run): it makes
   no decision about meaning.  The meaning is here: [exec_block] / [call_in] is the reference
   interpreter.  Proofs/PureTie.v and Proofs/PureTieKeys.v prove, for ALL arguments, that
   running the generated syntax tree gives what the hand-written models (Model/Slice.v,
   Model/Width.v, Model/Keys.v) compute, so the theorems about those models are theorems
   about the function text that is in the repository now; the correspondence check
   additionally runs this interpreter against CPython on generated arguments.

   Values: int (unbounded), bool, None, slice objects, bytes, str (code points), lists,
   tuples, dicts / sets (module-level tables, attribute dictionaries), enum classes and
   members, modules, opaque objects with an identity (what `is` compares), generator objects,
   and objects given by their class name and instance attributes ([VRec]; no identity: the
   subset has no attribute assignment, so an object can not change and sharing is invisible).

   LISTS ARE VALUES.  Python lists are mutable; here `x.append(v)` / `x.extend(it)` as a
   statement on a LOCAL name is the rebinding x := x ++ [v].  That is Python's meaning only if
   no other reference to the list object exists, and [mut_ok] (checked by [call_in] before
   anything runs; a function that fails it is an error outcome) makes sure of it syntactically:
   a name that is the receiver of append / extend is never a parameter or a loop target, is
   only ever assigned a list display `[...]` (a fresh object), and is only READ where no
   reference can be retained: x[i], x[a:b] (a copy), "const".join(x), f( *x ) (unpacked into a
   fresh tuple), a truth test, `return x`.  Mutating anything else -- a parameter, a global,
   an attribute, a list reached through another expression -- is [Raise OtherError].
   Everything the subset cannot express is an explicit error outcome ([Raise]), never a
   default value; where Python WOULD define a behaviour that is not modelled here the
   outcome is [Raise OtherError] (never a Python exception the real code could raise), so
   that a tie theorem can not be proved about behaviour the interpreter only guesses.

   Outside the language itself, a function is run in a context [ctx]:
     c_globals  the module-level names it may read (tables, constants, enum classes, modules),
     c_funs     the module-level functions it may call, each given by its semantics
                [list val -> res val] (another generated function run by this interpreter, or
                a model function standing for library behaviour),
     c_method   the meaning of method calls that are library behaviour (bytes.decode,
                codecs.getdecoder): the ORACLES, named and instantiated in Spec/PyEnv.v.
     c_classes  which names of c_funs are classes of the module (isinstance(x, Name)),
     c_sigs     the parameter names of the callables that are called with keyword arguments
                (both generated from the live module: Gen/PureFmt.v py_classes, py_signatures).
   A member of a user class is an entry of c_funs: "Class.name" a property (obj.name),
   "Class.name()" a method (obj.name(args), and "Class.__add__()" / "Class.__radd__()" for +),
   "Class.__len__" for len(obj).
   No proofs in this file. *)
From Coq Require Import String Ascii.
From Curtsies Require Import Model.Base.
Local Open Scope Z_scope.

Inductive val :=
| VInt (z : Z)
| VBool (b : bool)
| VNone
| VSlice (start stop step : val)
| VBytes (l : list N)
| VStr (l : list N)                              (* code points *)
| VList (l : list val)
| VDict (items : list (val * val))               (* items in insertion order, keys pairwise distinct *)
| VSet (l : list val)
| VEnumClass (cls : string) (members : list string)
| VEnum (cls member : string)
| VModule (name : string)
| VObj (tag : string) (id : N)                   (* an object of which only the identity is known *)
| VGen (items : list (res val))                  (* generator object: the outcomes of its elements, in order *)
| VTuple (l : list val)
| VRec (cls : string) (fields : list (string * val))    (* an object: class name, instance attributes *)
| VRange (n : Z).                                 (* range(n): ONLY its iteration 0 .. n-1 is modelled (see [iter_items]) *)

Inductive binop := BAdd | BSub | BMul | BBitAnd | BBitOr | BMod.
Inductive cmpop := CLt | CLtE | CGt | CGtE | CEq | CNotEq | CIs | CIsNot | CIn | CNotIn.

Inductive expr :=
| EVar (x : string)
| EInt (z : Z)
| EBoolC (b : bool)
| ENoneC
| EStr (l : list N)                        (* str constant (code points) *)
| EBytes (l : list N)                      (* bytes constant *)
| EBin (op : binop) (a b : expr)
| ENeg (a : expr)
| ENot (a : expr)
| ECmp (op : cmpop) (a b : expr)          (* one comparison; a chain is [ECmpChain] *)
| EAnd (a b : expr)                        (* a and b : value of a if falsy, else value of b *)
| EOr (a b : expr)
| EAttr (a : expr) (name : string)         (* .start .stop .step of a slice object; Enum.MEMBER *)
| ECall1 (f : string) (a : expr)           (* f(a): builtins len, ord, abs, bool, int, all, any; module functions *)
| ECall2 (f : string) (a b : expr)         (* max, min, slice, isinstance(x, <class name>); module functions *)
| ECall3 (f : string) (a b c : expr)       (* slice(a, b, c); module functions *)
| ESub (a : expr) (lo hi : option expr)    (* a[lo:hi] on bytes *)
| EIndex (a i : expr)                      (* a[i] *)
| EMeth1 (a : expr) (name : string) (arg : expr)   (* a.name(arg) *)
| EGenExp (elt : expr) (x : string) (it : expr)    (* (elt for x in it) *)
| EList (es : list expr)                   (* [e1, ..., en] : a fresh list *)
| ETuple (es : list expr)                  (* (e1, ..., en) *)
| ECond (test body orelse : expr)          (* body if test else orelse *)
| ECallStar (f : string) (a : expr)        (* f( *a ) *)
| ECallN (f : string) (args : list expr)   (* f(a1, ..., an) for n = 0 or n > 3 *)
| ECmpChain (a : expr) (rest : list (cmpop * expr))
                                           (* a op1 b op2 c ...: two or more comparisons; every operand is evaluated
                                              at most once, the chain stops at the first false comparison *)
| ECallKw (f : string) (args : list expr) (kws : list (string * expr))
                                           (* f(a1, ..., an, k1=v1, ...): at least one keyword argument *)
| EGenIf (elt : expr) (x : string) (it : expr) (cond : expr)
                                           (* (elt for x in it if cond) *)
| EMethN (a : expr) (name : string) (args : list expr).
                                           (* a.name(a1, ..., an) for n = 0 or n > 1: a method of a user class *)

(* the target of a `for`: a name, or a tuple of names *)
Inductive target := TName (x : string) | TTuple (xs : list string).

Inductive stmt :=
| SAssign (x : string) (e : expr)
| SAugAssign (x : string) (op : binop) (e : expr)
| SIf (c : expr) (th el : list stmt)      (* elif = an SIf alone in [el] *)
| SReturn (e : expr)
| SRaise (e : exn)                         (* raise X / raise X(msg): exceptions are identified by class only *)
| SPass                                    (* docstrings and `pass` *)
| SExpr (e : expr)                         (* expression statement *)
| SAssert (c : expr)                       (* assert c [, "constant message"] *)
| SAssertMsg (c msg : expr)                (* assert c, msg : msg is evaluated when c is false, then AssertionError *)
| STry (body : list stmt) (ex : exn) (handler orelse : list stmt)
                                           (* try: body  except ex: handler  else: orelse   (one handler, no finally) *)
| SFor (tgt : target) (it : expr) (body : list stmt)     (* for tgt in it: body     (no else) *)
| SBreak
| SContinue.

(* parameters; [f_defaults] are the default-value expressions of the LAST parameters *)
Record fundef := mkFun { f_params : list string; f_defaults : list expr; f_body : list stmt }.

(* ---- environments ---------------------------------------------------------- *)
Definition env := list (string * val).

Fixpoint lookup (x : string) (r : env) : option val :=
  match r with
  | [] => None
  | (y, v) :: r' => if String.eqb x y then Some v else lookup x r'
  end.

Definition bind_var (x : string) (v : val) (r : env) : env := (x, v) :: r.

Definition funs := list (string * (list val -> res val)).

Fixpoint lookup_fun (x : string) (fs : funs) : option (list val -> res val) :=
  match fs with
  | [] => None
  | (y, g) :: fs' => if String.eqb x y then Some g else lookup_fun x fs'
  end.

Record ctx := mkCtx {
  c_globals : env;
  c_funs : funs;
  c_method : val -> string -> val -> res val;
  (* the names of [c_funs] that are CLASSES of the module: the entry of [c_funs] is the
     constructor, the instances are the values [VRec name _], and the class has no subclass
     (the translator checks that): this is what isinstance(x, name) needs to know *)
  c_classes : list string;
  (* the parameter names (positional-or-keyword, in order) of the callables of [c_funs] that
     may be called with keyword arguments; generated from the live module (Gen/PureFmt.v
     [py_signatures]) *)
  c_sigs : list (string * list string)
}.

Definition empty_ctx : ctx := mkCtx [] [] (fun _ _ _ => Raise OtherError) [] [].

(* code points of a Coq string literal (ASCII) *)
Fixpoint codes (s : string) : list N :=
  match s with
  | EmptyString => []
  | String a s' => N_of_ascii a :: codes s'
  end.

(* ---- values ---------------------------------------------------------------------- *)
(* bool is a subclass of int: True == 1 *)
Definition as_int (v : val) : option Z :=
  match v with
  | VInt z => Some z
  | VBool b => Some (if b then 1 else 0)
  | _ => None
  end.

Definition is_nil {X} (l : list X) : bool := match l with [] => true | _ => false end.

Definition truthy (v : val) : bool :=
  match v with
  | VInt z => negb (z =? 0)
  | VBool b => b
  | VNone => false
  | VBytes l | VStr l => negb (is_nil l)
  | VList l | VSet l => negb (is_nil l)
  | VDict l => negb (is_nil l)
  | VSlice _ _ _ | VEnumClass _ _ | VEnum _ _ | VModule _ | VObj _ _ | VGen _ => true
  | VTuple l => negb (is_nil l)
  | VRec _ _ => true          (* NOT Python's answer when the class defines __len__ / __bool__: see [testable] *)
  | VRange _ => true          (* NOT Python's answer (len(range(n)) != 0): see [testable] *)
  end.

(* the truth value of an object of a user class depends on its __bool__ / __len__: every truth
   test (if, conditional expression, not, and, or, assert, bool(), all / any) refuses such a
   value instead of guessing; the truth value of a range object is not modelled either *)
Definition testable (v : val) : bool := match v with VRec _ _ | VRange _ => false | _ => true end.

(* structural equality of values.  It is Python's == on the scalar values (int/bool, None,
   bytes, str, slice, enum members, opaque objects) and on lists of them; it is NOT ==
   on dicts, sets, generators (always false here): [eval_cmp] refuses == on those. *)
Fixpoint val_eqb (a b : val) : bool :=
  match a, b with
  | VNone, VNone => true
  | VSlice a1 a2 a3, VSlice b1 b2 b3 => val_eqb a1 b1 && val_eqb a2 b2 && val_eqb a3 b3
  | VBytes x, VBytes y => list_eqb N.eqb x y
  | VStr x, VStr y => list_eqb N.eqb x y
  | VEnum c m, VEnum c' m' => String.eqb c c' && String.eqb m m'
  | VObj t i, VObj t' i' => String.eqb t t' && N.eqb i i'
  | VList x, VList y =>
      (fix go (x y : list val) : bool :=
         match x, y with
         | [], [] => true
         | u :: x', w :: y' => val_eqb u w && go x' y'
         | _, _ => false
         end) x y
  | VTuple x, VTuple y =>
      (fix go (x y : list val) : bool :=
         match x, y with
         | [], [] => true
         | u :: x', w :: y' => val_eqb u w && go x' y'
         | _, _ => false
         end) x y
  | _, _ =>
      match as_int a, as_int b with
      | Some x, Some y => x =? y
      | _, _ => false
      end
  end.

(* values on which == is the structural equality above: not dicts, sets, generators, range
   objects, and not objects of user classes (their == is the class's __eq__), at any depth *)
Fixpoint comparable (v : val) : bool :=
  match v with
  | VDict _ | VSet _ | VGen _ | VModule _ | VEnumClass _ _ | VRec _ _ | VRange _ => false
  | VList l | VTuple l => forallb comparable l
  | VSlice a b s => comparable a && comparable b && comparable s
  | _ => true
  end.

Definition hashable (v : val) : bool :=
  match v with
  | VList _ | VDict _ | VSet _ => false
  | VGen _ | VModule _ | VEnumClass _ _ => false      (* hashable in Python, by identity: not modelled *)
  | VTuple _ | VRec _ _ | VRange _ => false           (* by their elements / by __hash__: not modelled *)
  | _ => true
  end.

Definition is_none (v : val) : bool := match v with VNone => true | _ => false end.

Definition dict_get (k : val) (items : list (val * val)) : option val :=
  match find (fun kv => val_eqb k (fst kv)) items with Some kv => Some (snd kv) | None => None end.
Definition dict_mem (k : val) (items : list (val * val)) : bool :=
  match dict_get k items with Some _ => true | None => false end.
Definition set_mem (k : val) (l : list val) : bool := existsb (val_eqb k) l.

(* ---- "fmt" % x : one conversion %[0][width](X|x|d) with an int argument ------------------- *)
Local Open Scope N_scope.
Definition digit_char (upper : bool) (d : N) : N :=
  if d <? 10 then 48 + d else (if upper then 55 else 87) + d.
Fixpoint digits_fuel (fuel : nat) (base : N) (upper : bool) (n : N) (acc : list N) : list N :=
  match fuel with
  | O => acc
  | S f => let acc' := digit_char upper (n mod base) :: acc in
           if n / base =? 0 then acc' else digits_fuel f base upper (n / base) acc'
  end.
Definition digits (base : N) (upper : bool) (n : N) : list N :=
  digits_fuel (S (N.to_nat (N.log2 n))) base upper n [].

Fixpoint split_percent (s : list N) : option (list N * list N) :=
  match s with
  | [] => None
  | c :: s' => if c =? 37 then Some ([], s')
               else match split_percent s' with Some (p, r) => Some (c :: p, r) | None => None end
  end.
Fixpoint read_width (s : list N) (acc : N) : N * list N :=
  match s with
  | d :: s' => if (48 <=? d) && (d <=? 57) then read_width s' (acc * 10 + (d - 48)) else (acc, s)
  | [] => (acc, [])
  end.
Local Open Scope Z_scope.

Definition format_percent (fmt : list N) (arg : val) : res val :=
  match split_percent fmt with
  | None => Raise OtherError
  | Some (pre, rest) =>
      let zr := match rest with 48%N :: t => (true, t) | _ => (false, rest) end in
      let wr := read_width (snd zr) 0%N in
      match snd wr with
      | [] => Raise ValueError                                 (* incomplete format *)
      | conv :: suffix =>
          if existsb (N.eqb 37) suffix then Raise OtherError   (* more than one conversion *)
          else
            let spec := if (conv =? 88)%N then Some (16%N, true)
                        else if (conv =? 120)%N then Some (16%N, false)
                        else if (conv =? 100)%N then Some (10%N, false)
                        else None in
            match spec with
            | None => Raise OtherError                         (* %s, %r, ...: not modelled *)
            | Some (base, upper) =>
                match as_int arg with
                | Some z =>
                    let sign := if z <? 0 then [45%N] else [] in
                    let body := digits base upper (Z.to_N (Z.abs z)) in
                    let pad := (N.to_nat (fst wr) - (List.length sign + List.length body))%nat in
                    Ok (VStr (pre ++ (if fst zr then sign ++ repeat 48%N pad ++ body
                                      else repeat 32%N pad ++ sign ++ body) ++ suffix))
                | None =>
                    match arg with
                    | VNone | VBytes _ | VStr _ | VList _ | VSlice _ _ _ => Raise TypeError
                    | _ => Raise OtherError
                    end
                end
            end
      end
  end.

(* ---- operators --------------------------------------------------------------------- *)
Definition binop_int (op : binop) (x y : Z) : Z :=
  match op with
  | BAdd => x + y
  | BSub => x - y
  | BMul => x * y
  | BBitAnd => Z.land x y
  | BBitOr => Z.lor x y
  | BMod => x mod y                  (* the sign of the divisor, as in Python; y = 0 is refused below *)
  end.

(* operands for which Python may define an operator that is not modelled here *)
Definition rich (v : val) : bool :=
  match v with
  | VInt _ | VBool _ | VNone | VSlice _ _ _ => false
  | _ => true
  end.

Definition eval_bin (op : binop) (a b : val) : res val :=
  match op, a, b with
  | BMod, VStr fmt, _ => format_percent fmt b
  | BAdd, VStr x, VStr y => Ok (VStr (x ++ y))
  | BAdd, VBytes x, VBytes y => Ok (VBytes (x ++ y))
  | BAdd, VList x, VList y => Ok (VList (x ++ y))                    (* a new list *)
  | BMul, VStr x, _ =>                                              (* s * n : "" for n <= 0 *)
      match as_int b with Some n => Ok (VStr (concat (repeat x (Z.to_nat n)))) | None => Raise OtherError end
  | BMul, _, VStr x =>
      match as_int a with Some n => Ok (VStr (concat (repeat x (Z.to_nat n)))) | None => Raise OtherError end
  | _, _, _ =>
      match as_int a, as_int b with
      | Some x, Some y =>
          match op with
          | BMod => if y =? 0 then Raise OtherError (* ZeroDivisionError *) else Ok (VInt (x mod y))
          | _ => Ok (VInt (binop_int op x y))
          end
      | _, _ => if rich a || rich b then Raise OtherError else Raise TypeError
      end
  end.

Definition contains (a b : val) : res val :=
  match b with
  | VDict items => if hashable a then Ok (VBool (dict_mem a items))
                   else match a with VList _ | VDict _ | VSet _ => Raise TypeError | _ => Raise OtherError end
  | VSet l => if hashable a then Ok (VBool (set_mem a l))
              else match a with VList _ | VDict _ | VSet _ => Raise TypeError | _ => Raise OtherError end
  | VList l => if hashable a then Ok (VBool (set_mem a l)) else Raise OtherError
  | VInt _ | VBool _ | VNone => Raise TypeError               (* argument of type ... is not iterable *)
  | _ => Raise OtherError                                     (* substring tests etc.: not modelled *)
  end.

Definition eval_cmp (op : cmpop) (a b : val) : res val :=
  match op with
  | CEq => if comparable a && comparable b then Ok (VBool (val_eqb a b)) else Raise OtherError
  | CNotEq => if comparable a && comparable b then Ok (VBool (negb (val_eqb a b))) else Raise OtherError
  | CIs =>
      match b with
      | VNone => Ok (VBool (is_none a))
      | _ => match a, b with
             | VNone, _ => Ok (VBool false)
             | VObj t i, VObj t' i' => Ok (VBool (String.eqb t t' && N.eqb i i'))
             | _, _ => Raise OtherError          (* identity of ints, strings ... is not defined by the language *)
             end
      end
  | CIsNot =>
      match b with
      | VNone => Ok (VBool (negb (is_none a)))
      | _ => match a, b with
             | VNone, _ => Ok (VBool true)
             | VObj t i, VObj t' i' => Ok (VBool (negb (String.eqb t t' && N.eqb i i')))
             | _, _ => Raise OtherError
             end
      end
  | CIn => contains a b
  | CNotIn => match contains a b with Ok v => Ok (VBool (negb (truthy v))) | Raise e => Raise e end
  | _ =>
      match as_int a, as_int b with
      | Some x, Some y =>
          Ok (VBool (match op with
                     | CLt => x <? y | CLtE => x <=? y | CGt => x >? y | _ => x >=? y
                     end))
      | _, _ => if rich a || rich b then Raise OtherError   (* bytes < bytes etc.: not modelled *)
                else Raise TypeError                         (* '<' not supported between ... *)
      end
  end.

(* Python's slicing of a sequence with int-or-None bounds and no step *)
Definition clip (n : Z) (b : Z) : Z := if b <? 0 then Z.max 0 (n + b) else Z.min b n.
Definition slice_list {A} (l : list A) (lo hi : option Z) : list A :=
  let n := Z.of_nat (List.length l) in
  let a := match lo with None => 0 | Some x => clip n x end in
  let b := match hi with None => n | Some x => clip n x end in
  firstn (Z.to_nat (b - a)) (skipn (Z.to_nat a) l).

Definition bound_of (v : val) : res (option Z) :=
  match v with
  | VNone => Ok None
  | _ => match as_int v with Some z => Ok (Some z) | None => Raise TypeError end
  end.

(* iteration: the outcomes of the successive elements.  Lists, tuples, bytes (ints), str
   (one-character strs), range(n) (the ints 0 .. n-1; none for n <= 0); a generator is consumed
   as it is; dict / set iteration is not modelled *)
Definition iter_items (v : val) : res (list (res val)) :=
  match v with
  | VGen l => Ok l
  | VRange n => Ok (map (fun k => Ok (VInt (Z.of_nat k))) (seq 0 (Z.to_nat n)))
  | VList l | VTuple l => Ok (map Ok l)
  | VBytes l => Ok (map (fun b => Ok (VInt (Z.of_N b))) l)
  | VStr l => Ok (map (fun ch => Ok (VStr [ch])) l)
  | VInt _ | VBool _ | VNone | VSlice _ _ _ => Raise TypeError      (* object is not iterable *)
  | _ => Raise OtherError
  end.

(* all(...) / any(...): consume until the answer is known; an element that raises, raises *)
Fixpoint all_items (l : list (res val)) : res val :=
  match l with
  | [] => Ok (VBool true)
  | Ok v :: l' => if testable v then (if truthy v then all_items l' else Ok (VBool false)) else Raise OtherError
  | Raise e :: _ => Raise e
  end.
Fixpoint any_items (l : list (res val)) : res val :=
  match l with
  | [] => Ok (VBool false)
  | Ok v :: l' => if testable v then (if truthy v then Ok (VBool true) else any_items l') else Raise OtherError
  | Raise e :: _ => Raise e
  end.

(* consume completely: the first element that raises, raises *)
Fixpoint sequence (l : list (res val)) : res (list val) :=
  match l with
  | [] => Ok []
  | Ok v :: l' => match sequence l' with Ok vs => Ok (v :: vs) | Raise e => Raise e end
  | Raise e :: _ => Raise e
  end.

(* the elements of a sequence VALUE (a generator is lazy: not here) *)
Definition elements (v : val) : res (list val) :=
  match v with
  | VGen _ => Raise OtherError
  | _ => match iter_items v with Ok items => sequence items | Raise e => Raise e end
  end.

(* zip(a, b) / zip(a, b, c) over sequence values: tuples up to the shortest.  The result is an
   iterator object, like a generator: it can be iterated, it has no len() *)
Fixpoint zip2 (a b : list val) : list val :=
  match a, b with
  | x :: a', y :: b' => VTuple [x; y] :: zip2 a' b'
  | _, _ => []
  end.
Fixpoint zip3 (a b d : list val) : list val :=
  match a, b, d with
  | x :: a', y :: b', z :: d' => VTuple [x; y; z] :: zip3 a' b' d'
  | _, _, _ => []
  end.

Definition intercalate (sep : list N) (ps : list (list N)) : list N :=
  match ps with
  | [] => []
  | p :: ps' => p ++ flat_map (fun q => sep ++ q) ps'
  end.

(* the pieces of sep.join(items): every item must be of the separator's type *)
Fixpoint pieces (is_str : bool) (l : list val) : option (list (list N)) :=
  match l with
  | [] => Some []
  | v :: l' =>
      match (match v, is_str with VStr s, true => Some s | VBytes s, false => Some s | _, _ => None end) with
      | None => None
      | Some p => match pieces is_str l' with Some ps => Some (p :: ps) | None => None end
      end
  end.

Definition join (is_str : bool) (sep : list N) (arg : val) : res val :=
  match iter_items arg with
  | Raise e => Raise e
  | Ok items =>
      match sequence items with
      | Raise e => Raise e
      | Ok vs =>
          match pieces is_str vs with
          | None => Raise TypeError                      (* sequence item i: expected ... instance *)
          | Some ps => Ok (if is_str then VStr (intercalate sep ps) else VBytes (intercalate sep ps))
          end
      end
  end.

Definition call1 (f : string) (a : val) : res val :=
  if String.eqb f "len" then
    match a with
    | VBytes l | VStr l => Ok (VInt (Z.of_nat (List.length l)))
    | VList l | VSet l | VTuple l => Ok (VInt (Z.of_nat (List.length l)))
    | VDict l => Ok (VInt (Z.of_nat (List.length l)))
    | VInt _ | VBool _ | VNone | VSlice _ _ _ | VGen _ => Raise TypeError
    | _ => Raise OtherError
    end
  else if String.eqb f "ord" then
    match a with
    | VBytes [b] | VStr [b] => Ok (VInt (Z.of_N b))
    | _ => Raise TypeError
    end
  else if String.eqb f "abs" then
    match as_int a with Some z => Ok (VInt (Z.abs z)) | None => if rich a then Raise OtherError else Raise TypeError end
  else if String.eqb f "bool" then (if testable a then Ok (VBool (truthy a)) else Raise OtherError)
  else if String.eqb f "int" then
    match as_int a with Some z => Ok (VInt z) | None => if rich a then Raise OtherError else Raise TypeError end
  else if String.eqb f "all" then
    match iter_items a with Ok l => all_items l | Raise e => Raise e end
  else if String.eqb f "any" then
    match iter_items a with Ok l => any_items l | Raise e => Raise e end
  else if String.eqb f "range" then                       (* range(n); range(a, b[, step]) is not modelled *)
    match as_int a with Some n => Ok (VRange n) | None => if rich a then Raise OtherError else Raise TypeError end
  else Raise OtherError.

Definition call2 (f : string) (a b : val) : res val :=
  if String.eqb f "max" then
    match as_int a, as_int b with
    | Some x, Some y => Ok (if y >? x then b else a)      (* max returns the first of equal arguments *)
    | _, _ => if rich a || rich b then Raise OtherError else Raise TypeError
    end
  else if String.eqb f "min" then
    match as_int a, as_int b with
    | Some x, Some y => Ok (if y <? x then b else a)
    | _, _ => if rich a || rich b then Raise OtherError else Raise TypeError
    end
  else if String.eqb f "slice" then Ok (VSlice a b VNone)      (* slice(a, b) = slice(a, b, None) *)
  else if String.eqb f "zip" then
    match elements a, elements b with
    | Ok x, Ok y => Ok (VGen (map Ok (zip2 x y)))
    | Raise e, _ => Raise e
    | _, Raise e => Raise e
    end
  else Raise OtherError.

Definition call3 (f : string) (a b c : val) : res val :=
  if String.eqb f "slice" then Ok (VSlice a b c)
  else if String.eqb f "zip" then
    match elements a, elements b, elements c with
    | Ok x, Ok y, Ok z => Ok (VGen (map Ok (zip3 x y z)))
    | Raise e, _, _ => Raise e
    | _, Raise e, _ => Raise e
    | _, _, Raise e => Raise e
    end
  else Raise OtherError.

Definition builtin (f : string) (args : list val) : res val :=
  match args with
  | [a] => call1 f a
  | [a; b] => call2 f a b
  | [a; b; c] => call3 f a b c
  | _ => Raise OtherError
  end.

(* isinstance(x, int) / isinstance(x, slice) / ...: the class is a NAME in the source *)
Definition isinstance (cls : string) (a : val) : res val :=
  if String.eqb cls "int" then Ok (VBool (match a with VInt _ | VBool _ => true | _ => false end))
  else if String.eqb cls "slice" then Ok (VBool (match a with VSlice _ _ _ => true | _ => false end))
  else if String.eqb cls "bytes" then Ok (VBool (match a with VBytes _ => true | _ => false end))
  else if String.eqb cls "str" then Ok (VBool (match a with VStr _ => true | _ => false end))
  else Raise OtherError.

Definition mem_string (x : string) (l : list string) : bool := existsb (String.eqb x) l.

Definition get_attr (a : val) (name : string) : res val :=
  match a with
  | VSlice s e st =>
      if String.eqb name "start" then Ok s
      else if String.eqb name "stop" then Ok e
      else if String.eqb name "step" then Ok st
      else Raise OtherError
  | VEnumClass cls members =>
      if mem_string name members then Ok (VEnum cls name) else Raise OtherError
  | _ => Raise OtherError                     (* AttributeError, or not modelled *)
  end.

Definition index (a i : val) : res val :=
  match a with
  | VDict items =>
      if hashable i then match dict_get i items with Some v => Ok v | None => Raise KeyError end
      else match i with VList _ | VDict _ | VSet _ => Raise TypeError | _ => Raise OtherError end
  | VBytes l =>
      match as_int i with
      | Some z => let n := Z.of_nat (List.length l) in
                  let k := if z <? 0 then z + n else z in
                  if (k <? 0) || (k >=? n) then Raise IndexError
                  else match nth_error l (Z.to_nat k) with Some b => Ok (VInt (Z.of_N b)) | None => Raise IndexError end
      | None => Raise OtherError
      end
  | VList l | VTuple l =>
      match as_int i with
      | Some z => let n := Z.of_nat (List.length l) in
                  let k := if z <? 0 then z + n else z in
                  if (k <? 0) || (k >=? n) then Raise IndexError
                  else match nth_error l (Z.to_nat k) with Some v => Ok v | None => Raise IndexError end
      | None => Raise OtherError
      end
  | VStr l =>
      match as_int i with
      | Some z => let n := Z.of_nat (List.length l) in
                  let k := if z <? 0 then z + n else z in
                  if (k <? 0) || (k >=? n) then Raise IndexError
                  else match nth_error l (Z.to_nat k) with Some ch => Ok (VStr [ch]) | None => Raise IndexError end
      | None => Raise OtherError
      end
  | VInt _ | VBool _ | VNone => Raise TypeError            (* object is not subscriptable *)
  | _ => Raise OtherError
  end.

(* ---- methods and operators of user classes --------------------------------------------------
   obj.name(args) for an object of a user class: the METHOD is the entry "Class.name()" of
   [c_funs] (with the parentheses: a property is "Class.name"), applied to obj :: args.
   a + b with an object of a user class on one side: Python tries type(a).__add__(a, b), and if
   that does not exist or returns NotImplemented, type(b).__radd__(b, a).  Here: a an object ->
   its "__add__()" (a method that answers NotImplemented is an error outcome: `NotImplemented`
   is not a value of the subset); a a str / bytes / int / bool / None / list / tuple (their own
   + refuses an object of a user class) and b an object -> b's "__radd__()". *)
Definition method_name (cls name : string) : string := (cls ++ "." ++ name ++ "()")%string.

Definition call_method (c : ctx) (obj : val) (name : string) (args : list val) : res val :=
  match obj with
  | VRec cls _ =>
      match lookup_fun (method_name cls name) (c_funs c) with
      | Some g => g (obj :: args)
      | None => Raise OtherError
      end
  | _ => Raise OtherError
  end.

Definition bin_in (c : ctx) (op : binop) (a b : val) : res val :=
  match op, a, b with
  | BAdd, VRec _ _, _ => call_method c a "__add__" [b]
  | BAdd, (VStr _ | VBytes _ | VInt _ | VBool _ | VNone | VList _ | VTuple _), VRec _ _ => call_method c b "__radd__" [a]
  | _, _, _ => eval_bin op a b
  end.

(* sum(iterable, start): start must not be a str / bytes (TypeError: "sum() can't sum strings"); the
   result is start, replaced by result + item for every element in turn -- the binary +, with its
   dispatch to the __add__ / __radd__ of a user class ([bin_in]); an element that raises, raises
   when it is reached.  (sum(iterable), with start = 0, is not modelled.) *)
Fixpoint sum_items (c : ctx) (items : list (res val)) (acc : val) : res val :=
  match items with
  | [] => Ok acc
  | Ok v :: items' => match bin_in c BAdd acc v with Ok acc' => sum_items c items' acc' | Raise e => Raise e end
  | Raise e :: _ => Raise e
  end.

Definition sum_in (c : ctx) (it start : val) : res val :=
  match iter_items it with
  | Raise e => Raise e
  | Ok items => match start with
                | VStr _ | VBytes _ => Raise TypeError
                | _ => sum_items c items start
                end
  end.

(* method calls: join is language-level behaviour of bytes / str; the rest is the context's *)
Definition method1 (c : ctx) (obj : val) (name : string) (arg : val) : res val :=
  match obj with
  | VBytes sep => if String.eqb name "join" then join false sep arg else c_method c obj name arg
  | VStr sep => if String.eqb name "join" then join true sep arg else c_method c obj name arg
  | VRec _ _ => call_method c obj name [arg]             (* a method of a user class *)
  | _ => c_method c obj name arg
  end.

(* ---- expressions ----------------------------------------------------------------- *)
Definition rbind {A B} (r : res A) (k : A -> res B) : res B :=
  match r with Ok a => k a | Raise e => Raise e end.

(* ---- objects of user classes -------------------------------------------------------
   What a class defines is in the context, under the qualified name "Class.member" in
   [c_funs]: a property or a method, given by its semantics on [self :: arguments] (a
   generated tree run by this interpreter, or an oracle).
   obj.name : the class's property "Class.name" if there is one (a property is a data
     descriptor: it wins over the instance), else the instance attribute, else an error
     (every member listed in a context under a non-dunder name is a property).
   len(obj) : "Class.__len__", whose result must be an int >= 0. *)
Definition member_name (cls name : string) : string := (cls ++ "." ++ name)%string.

Definition get_attr_in (c : ctx) (a : val) (name : string) : res val :=
  match a with
  | VRec cls fields =>
      if String.prefix "__" name then Raise OtherError          (* obj.__len__ etc. is a bound method: not modelled *)
      else
        match lookup_fun (member_name cls name) (c_funs c) with
        | Some g => g [a]
        | None => match lookup name fields with Some v => Ok v | None => Raise OtherError end
        end
  | _ => get_attr a name
  end.

Definition len_of_object (c : ctx) (a : val) : res val :=
  match a with
  | VRec cls _ =>
      match lookup_fun (member_name cls "__len__") (c_funs c) with
      | Some g => match g [a] with
                  | Ok (VInt z) => if z <? 0 then Raise OtherError else Ok (VInt z)
                  | Ok _ => Raise OtherError
                  | Raise e => Raise e
                  end
      | None => Raise OtherError
      end
  | _ => Raise OtherError
  end.

(* f(args) with f a NAME: Python looks it up among the locals, then the module's globals,
   then the builtins.  Calling a local is outside the subset: [calls_ok], checked by [call_in]
   before anything runs, refuses a function in which a called name is also the name of a
   local (a parameter, an assigned name, a loop or comprehension variable) -- so no
   environment that arises binds [f], and the environment is not consulted here.  Calling a
   global that is not a function of [c_funs] is outside the subset too. *)
Definition apply_fun (c : ctx) (r : env) (f : string) (args : list val) : res val :=
  match lookup_fun f (c_funs c) with
  | Some g => g args
  | None =>
      match lookup f (c_globals c) with
      | Some _ => Raise OtherError
      | None =>
          match args with
          | [VRec _ _ as a] => if String.eqb f "len" then len_of_object c a else builtin f args
          | [it; start] => if String.eqb f "sum" then sum_in c it start else builtin f args
          | _ => builtin f args
          end
      end
  end.

(* ---- keyword arguments ------------------------------------------------------------------
   f(a1, ..., an, k1=v1, ...): the callables of a context take a positional list.  The
   parameter names of f ([c_sigs]) turn the keywords into positions: the keywords must name,
   each once, exactly the parameters n+1 .. n+m (any order); anything else -- an unknown or
   repeated keyword, a parameter given twice, a gap that the callee would fill with a default
   value -- is outside the subset (an error outcome, not a guess). *)
Fixpoint count {X} (l : list X) : nat := match l with [] => O | _ :: l' => S (count l') end.

Fixpoint lookup_sig (f : string) (sigs : list (string * list string)) : option (list string) :=
  match sigs with
  | [] => None
  | (g, ps) :: sigs' => if String.eqb f g then Some ps else lookup_sig f sigs'
  end.

(* the value given for parameter p, and the other keyword arguments *)
Fixpoint take_kw (p : string) (kvs : list (string * val)) : option (val * list (string * val)) :=
  match kvs with
  | [] => None
  | (k, v) :: kvs' =>
      if String.eqb p k then Some (v, kvs')
      else match take_kw p kvs' with Some (w, others) => Some (w, (k, v) :: others) | None => None end
  end.

Fixpoint fill_kws (names : list string) (kvs : list (string * val)) : option (list val) :=
  match names, kvs with
  | _, [] => Some []
  | [], _ :: _ => None
  | p :: names', _ :: _ =>
      match take_kw p kvs with
      | Some (v, kvs') => match fill_kws names' kvs' with Some vs => Some (v :: vs) | None => None end
      | None => None
      end
  end.

Fixpoint cat {X} (a b : list X) : list X := match a with [] => b | x :: a' => x :: cat a' b end.

Definition positional (params : list string) (vs : list val) (kvs : list (string * val)) : option (list val) :=
  match fill_kws (skipn (count vs) params) kvs with
  | Some extra => Some (cat vs extra)
  | None => None
  end.

(* ---- (elt for x in it if cond): the element outcomes ----------------------------------------
   [cond] / [elt]: the condition and the element as functions of the value of the loop
   variable.  A condition that raises is an element that raises (the consumer stops there). *)
Definition gen_filter (items : list (res val)) (cond elt : val -> res val) : list (res val) :=
  flat_map (fun item =>
              match item with
              | Raise ex => [Raise ex]
              | Ok v => match cond v with
                        | Raise ex => [Raise ex]
                        | Ok t => if testable t then (if truthy t then [elt v] else []) else [Raise OtherError]
                        end
              end) items.

(* f( *a ): the elements of a.  A generator is consumed completely by the unpacking, before f
   is called *)
Definition unpack (v : val) : res (list val) :=
  match v with
  | VGen items => sequence items
  | _ => elements v
  end.

(* isinstance(x, C) for a class C of the module ([c_classes]): x is an object of that class.
   C must still mean the class: not a local, and the constructor is still in [c_funs]
   ([call_in] removes what the function's locals hide). *)
Definition is_class (c : ctx) (r : env) (cls : string) : bool :=
  mem_string cls (c_classes c)
  && match lookup cls r, lookup_fun cls (c_funs c), lookup cls (c_globals c) with
     | None, Some _, None => true
     | _, _, _ => false
     end.
Definition instance_of (cls : string) (a : val) : bool :=
  match a with VRec k _ => String.eqb k cls | _ => false end.

Definition shadowed (c : ctx) (r : env) (f : string) : bool :=
  match lookup f r, lookup_fun f (c_funs c), lookup f (c_globals c) with
  | None, None, None => false
  | _, _, _ => true
  end.

Fixpoint eval (c : ctx) (r : env) (e : expr) {struct e} : res val :=
  match e with
  | EVar x =>
      match lookup x r with
      | Some v => Ok v
      | None => match lookup x (c_globals c) with Some v => Ok v | None => Raise OtherError end   (* NameError *)
      end
  | EInt z => Ok (VInt z)
  | EBoolC b => Ok (VBool b)
  | ENoneC => Ok VNone
  | EStr l => Ok (VStr l)
  | EBytes l => Ok (VBytes l)
  | EBin op a b => rbind (eval c r a) (fun va => rbind (eval c r b) (fun vb => bin_in c op va vb))
  | ENeg a => rbind (eval c r a) (fun va => match as_int va with Some z => Ok (VInt (- z))
                                                           | None => if rich va then Raise OtherError else Raise TypeError end)
  | ENot a => rbind (eval c r a) (fun va => if testable va then Ok (VBool (negb (truthy va))) else Raise OtherError)
  | ECmp op a b => rbind (eval c r a) (fun va => rbind (eval c r b) (fun vb => eval_cmp op va vb))
  | EAnd a b => rbind (eval c r a) (fun va => if testable va then (if truthy va then eval c r b else Ok va) else Raise OtherError)
  | EOr a b => rbind (eval c r a) (fun va => if testable va then (if truthy va then Ok va else eval c r b) else Raise OtherError)
  | EAttr a name => rbind (eval c r a) (fun va => get_attr_in c va name)
  | ECall1 f a => rbind (eval c r a) (fun va => apply_fun c r f [va])
  | ECall2 f a b =>
      if String.eqb f "isinstance" then
        match b with
        | EVar cls => if shadowed c r f then Raise OtherError
                      else if is_class c r cls then rbind (eval c r a) (fun va => Ok (VBool (instance_of cls va)))
                      else if shadowed c r cls then Raise OtherError
                      else rbind (eval c r a) (fun va => isinstance cls va)
        | ETuple es =>
            (* isinstance(x, (C1, ..., Cn)) with class NAMES: an instance of one of them; every name is
               looked at (a name that is not a known class is an error whatever the others say) *)
            if shadowed c r f then Raise OtherError
            else
              rbind (eval c r a) (fun va =>
                (fix any_class (l : list expr) (found : bool) : res val :=
                   match l with
                   | [] => Ok (VBool found)
                   | EVar cls :: l' =>
                       if is_class c r cls then any_class l' (found || instance_of cls va)
                       else if shadowed c r cls then Raise OtherError
                       else rbind (isinstance cls va) (fun t => any_class l' (found || truthy t))
                   | _ :: _ => Raise OtherError
                   end) es false)
        | _ => Raise OtherError
        end
      else rbind (eval c r a) (fun va => rbind (eval c r b) (fun vb => apply_fun c r f [va; vb]))
  | ECall3 f a b d =>
      rbind (eval c r a) (fun va => rbind (eval c r b) (fun vb => rbind (eval c r d) (fun vd =>
        apply_fun c r f [va; vb; vd])))
  | ESub a lo hi =>
      rbind (eval c r a) (fun va =>
      rbind (match lo with None => Ok None | Some x => rbind (eval c r x) bound_of end) (fun l =>
      rbind (match hi with None => Ok None | Some x => rbind (eval c r x) bound_of end) (fun h =>
      match va with
      | VBytes bs => Ok (VBytes (slice_list bs l h))
      | VStr s => Ok (VStr (slice_list s l h))
      | VList vs => Ok (VList (slice_list vs l h))                 (* a new list *)
      | VTuple vs => Ok (VTuple (slice_list vs l h))
      | VInt _ | VBool _ | VNone => Raise TypeError
      | _ => Raise OtherError
      end)))
  | EIndex a i => rbind (eval c r a) (fun va => rbind (eval c r i) (fun vi => index va vi))
  | EMeth1 a name arg => rbind (eval c r a) (fun va => rbind (eval c r arg) (fun vb => method1 c va name vb))
  | EGenExp elt x it =>
      (* the iterable is evaluated at once, the elements when consumed; the subset has no
         side effects and the translator allows a generator expression only as the argument
         of the call that consumes it, so the element outcomes can be listed here.
         The loop variable is local to the generator expression. *)
      rbind (eval c r it) (fun vi =>
      rbind (iter_items vi) (fun items =>
      Ok (VGen (map (fun item => match item with
                                 | Ok v => eval c (bind_var x v r) elt
                                 | Raise ex => Raise ex
                                 end) items))))
  | EList es =>
      rbind ((fix evals (l : list expr) : res (list val) :=
                match l with
                | [] => Ok []
                | e' :: l' => rbind (eval c r e') (fun v => rbind (evals l') (fun vs => Ok (v :: vs)))
                end) es) (fun vs => Ok (VList vs))
  | ETuple es =>
      rbind ((fix evals (l : list expr) : res (list val) :=
                match l with
                | [] => Ok []
                | e' :: l' => rbind (eval c r e') (fun v => rbind (evals l') (fun vs => Ok (v :: vs)))
                end) es) (fun vs => Ok (VTuple vs))
  | ECond test body orelse =>
      rbind (eval c r test) (fun vt =>
        if testable vt then (if truthy vt then eval c r body else eval c r orelse) else Raise OtherError)
  | ECallStar f a =>
      (* f( *a ): the elements of a, unpacked into a fresh argument tuple *)
      rbind (eval c r a) (fun va => rbind (unpack va) (fun vs => apply_fun c r f vs))
  | ECallN f es =>
      rbind ((fix evals (l : list expr) : res (list val) :=
                match l with
                | [] => Ok []
                | e' :: l' => rbind (eval c r e') (fun v => rbind (evals l') (fun vs => Ok (v :: vs)))
                end) es) (fun vs => apply_fun c r f vs)
  | ECmpChain a rest =>
      (* a op1 b op2 c  =  (a op1 b) and (b op2 c)  with b evaluated once: the value is the first
         comparison that is false, else the last one *)
      rbind (eval c r a) (fun va =>
        (fix chain (va : val) (l : list (cmpop * expr)) {struct l} : res val :=
           match l with
           | [] => Raise OtherError                      (* the translator produces at least two comparisons *)
           | (op, e') :: l' =>
               rbind (eval c r e') (fun vb =>
               rbind (eval_cmp op va vb) (fun t =>
                 match l' with
                 | [] => Ok t
                 | _ :: _ => if testable t then (if truthy t then chain vb l' else Ok t) else Raise OtherError
                 end))
           end) va rest)
  | ECallKw f es kws =>
      (* positional arguments, then the keyword values, left to right *)
      rbind ((fix evals (l : list expr) : res (list val) :=
                match l with
                | [] => Ok []
                | e' :: l' => rbind (eval c r e') (fun v => rbind (evals l') (fun vs => Ok (v :: vs)))
                end) es) (fun vs =>
      rbind ((fix evalkw (l : list (string * expr)) : res (list (string * val)) :=
                match l with
                | [] => Ok []
                | (k, e') :: l' => rbind (eval c r e') (fun v => rbind (evalkw l') (fun kvs => Ok ((k, v) :: kvs)))
                end) kws) (fun kvs =>
      match lookup_sig f (c_sigs c) with
      | None => Raise OtherError
      | Some params =>
          match positional params vs kvs with
          | Some all => apply_fun c r f all
          | None => Raise OtherError
          end
      end))
  | EMethN a name es =>
      rbind (eval c r a) (fun va =>
      rbind ((fix evals (l : list expr) : res (list val) :=
                match l with
                | [] => Ok []
                | e' :: l' => rbind (eval c r e') (fun v => rbind (evals l') (fun vs => Ok (v :: vs)))
                end) es) (fun vs => call_method c va name vs))
  | EGenIf elt x it cond =>
      (* as [EGenExp], with the elements filtered *)
      rbind (eval c r it) (fun vi =>
      rbind (iter_items vi) (fun items =>
      Ok (VGen (gen_filter items (fun v => eval c (bind_var x v r) cond) (fun v => eval c (bind_var x v r) elt)))))
  end.

(* ---- statements ------------------------------------------------------------------ *)
Inductive outcome :=
| Next (r : env)            (* fell through *)
| Returned (v : val)
| Raised (e : exn)
| Broke (r : env)           (* `break`: ends the innermost `for` *)
| Continued (r : env).      (* `continue`: ends this round of the innermost `for` *)

(* binding the target of a `for` to an element *)
Fixpoint bind_all (xs : list string) (vs : list val) (r : env) : option env :=
  match xs, vs with
  | [], [] => Some r
  | x :: xs', v :: vs' => bind_all xs' vs' (bind_var x v r)
  | _, _ => None
  end.
Definition bind_target (t : target) (v : val) (r : env) : option env :=
  match t with
  | TName x => Some (bind_var x v r)
  | TTuple xs => match v with VTuple vs => bind_all xs vs r | _ => None end    (* other unpackings: not modelled *)
  end.

(* x.append(e) / x.extend(e) as a statement, x a NAME *)
Definition mutation_of (e : expr) : option (string * bool * expr) :=
  match e with
  | EMeth1 (EVar x) name arg =>
      if String.eqb name "append" then Some (x, false, arg)
      else if String.eqb name "extend" then Some (x, true, arg)
      else None
  | _ => None
  end.

(* `except h` catches e: the class itself, and UnicodeDecodeError <: ValueError.  An unknown
   exception (OtherError) is never caught: it stays an error outcome. *)
Definition catches (h e : exn) : bool :=
  match e with
  | OtherError => false
  | _ => exn_eqb h e || (exn_eqb h ValueError && exn_eqb e UnicodeDecodeError)
  end.

Fixpoint exec (c : ctx) (s : stmt) (r : env) {struct s} : outcome :=
  let block :=
    fix block (l : list stmt) (r : env) {struct l} : outcome :=
      match l with
      | [] => Next r
      | s' :: l' => match exec c s' r with Next r' => block l' r' | o => o end
      end in
  match s with
  | SAssign x e => match eval c r e with Ok v => Next (bind_var x v r) | Raise ex => Raised ex end
  | SAugAssign x op e =>
      match lookup x r with
      | None => Raised OtherError
      | Some (VList _) => Raised OtherError        (* += on a list changes the object in place: not modelled *)
      | Some old =>
          match eval c r e with
          | Ok v => match eval_bin op old v with Ok w => Next (bind_var x w r) | Raise ex => Raised ex end
          | Raise ex => Raised ex
          end
      end
  | SIf cnd th el =>
      match eval c r cnd with
      | Raise ex => Raised ex
      | Ok v => if testable v then block (if truthy v then th else el) r else Raised OtherError
      end
  | SReturn e => match eval c r e with Ok v => Returned v | Raise ex => Raised ex end
  | SRaise ex => Raised ex
  | SPass => Next r
  | SExpr e =>
      match mutation_of e with
      | Some (x, is_extend, arg) =>
          (* the list bound to the LOCAL name x grows (see LISTS ARE VALUES above and [mut_ok]);
             append / extend on anything else is outside the subset *)
          match lookup x r with
          | Some (VList l) =>
              match eval c r arg with
              | Raise ex => Raised ex
              | Ok v =>
                  if is_extend then
                    match elements v with
                    | Ok vs => Next (bind_var x (VList (l ++ vs)) r)
                    | Raise ex => Raised ex
                    end
                  else Next (bind_var x (VList (l ++ [v])) r)
              end
          | _ => Raised OtherError
          end
      | None => match eval c r e with Ok _ => Next r | Raise ex => Raised ex end
      end
  | SAssert cnd =>
      match eval c r cnd with
      | Raise ex => Raised ex
      | Ok v => if testable v then (if truthy v then Next r else Raised AssertionError) else Raised OtherError
      end                                                                  (* python without -O *)
  | SAssertMsg cnd msg =>
      match eval c r cnd with
      | Raise ex => Raised ex
      | Ok v =>
          if testable v then
            (if truthy v then Next r
             else match eval c r msg with Ok _ => Raised AssertionError | Raise ex => Raised ex end)
          else Raised OtherError
      end
  | STry body ex handler orelse =>
      (* a body of ONE statement: nothing can have been assigned when it raises *)
      match body with
      | [b] =>
          match exec c b r with
          | Next r' => block orelse r'
          | Returned v => Returned v
          | Raised e => if catches ex e then block handler r else Raised e
          | Broke r' => Broke r'
          | Continued r' => Continued r'
          end
      | _ => Raised OtherError
      end
  | SFor t it body =>
      (* the iterable is evaluated once, to a finite list of element outcomes: the loop is
         structural recursion over it.  (No statement of the subset can change the value
         being iterated: see [mut_ok].) *)
      match eval c r it with
      | Raise ex => Raised ex
      | Ok vi =>
          match iter_items vi with
          | Raise ex => Raised ex
          | Ok items =>
              (fix loop (items : list (res val)) (r : env) {struct items} : outcome :=
                 match items with
                 | [] => Next r
                 | Raise ex :: _ => Raised ex
                 | Ok v :: items' =>
                     match bind_target t v r with
                     | None => Raised OtherError
                     | Some r1 =>
                         match block body r1 with
                         | Next r2 | Continued r2 => loop items' r2
                         | Broke r2 => Next r2
                         | o => o
                         end
                     end
                 end) items r
          end
      end
  | SBreak => Broke r
  | SContinue => Continued r
  end.

Fixpoint exec_block (c : ctx) (l : list stmt) (r : env) : outcome :=
  match l with
  | [] => Next r
  | s :: l' => match exec c s r with Next r' => exec_block c l' r' | o => o end
  end.

(* names assigned somewhere in a function body: Python makes them local to the WHOLE
   function (reading one before its assignment is an error, not a global lookup) *)
Fixpoint assigned (s : stmt) : list string :=
  let block := fix block (l : list stmt) : list string :=
                 match l with [] => [] | s' :: l' => assigned s' ++ block l' end in
  match s with
  | SAssign x _ | SAugAssign x _ _ => [x]
  | SIf _ th el => block th ++ block el
  | STry b _ h o => block b ++ block h ++ block o
  | SFor t _ body => match t with TName x => [x] | TTuple xs => xs end ++ block body
  | _ => []
  end.
Definition assigned_block (l : list stmt) : list string := flat_map assigned l.

(* ---- the discipline that makes "lists are values" sound: see the head of the file --------
   [M] = the names that are receivers of an append / extend statement somewhere in the body. *)
Fixpoint mutated (s : stmt) : list string :=
  let block := fix block (l : list stmt) : list string :=
                 match l with [] => [] | s' :: l' => mutated s' ++ block l' end in
  match s with
  | SExpr e => match mutation_of e with Some (x, _, _) => [x] | None => [] end
  | SIf _ th el => block th ++ block el
  | STry b _ h o => block b ++ block h ++ block o
  | SFor _ _ body => block body
  | _ => []
  end.

(* every occurrence of a name of M in the expression is a read that retains no reference *)
Fixpoint expr_ok (M : list string) (e : expr) {struct e} : bool :=
  let opt := fun (o : option expr) => match o with None => true | Some x => expr_ok M x end in
  let all := fix all (l : list expr) : bool := match l with [] => true | e' :: l' => expr_ok M e' && all l' end in
  let test := fun (t : expr) => match t with EVar _ => true | _ => expr_ok M t end in
  match e with
  | EVar x => negb (mem_string x M)
  | EInt _ | EBoolC _ | ENoneC | EStr _ | EBytes _ => true
  | EBin _ a b | ECmp _ a b | EAnd a b | EOr a b => expr_ok M a && expr_ok M b
  | ENeg a => expr_ok M a
  | ENot a => test a
  | EAttr a _ => expr_ok M a
  | ECall1 _ a => expr_ok M a
  | ECall2 _ a b => expr_ok M a && expr_ok M b
  | ECall3 _ a b d => expr_ok M a && expr_ok M b && expr_ok M d
  | ESub (EVar _) lo hi => opt lo && opt hi
  | ESub a lo hi => expr_ok M a && opt lo && opt hi
  | EIndex (EVar _) i => expr_ok M i
  | EIndex a i => expr_ok M a && expr_ok M i
  | EMeth1 (EStr _) name (EVar x) => String.eqb name "join" || negb (mem_string x M)
  | EMeth1 a _ arg => expr_ok M a && expr_ok M arg
  | EGenExp elt x it => negb (mem_string x M) && expr_ok M elt && expr_ok M it
  | EList es | ETuple es | ECallN _ es => all es
  | ECond t a b => test t && expr_ok M a && expr_ok M b
  | ECallStar _ (EVar _) => true
  (* f( *(elt for x in xs if cond) ) with xs a name: the generator iterates over the list and is consumed by
     the unpacking, before f is called: no reference to the list survives *)
  | ECallStar _ (EGenIf elt x (EVar _) cond) => negb (mem_string x M) && expr_ok M elt && expr_ok M cond
  | ECallStar _ (EGenExp elt x (EVar _)) => negb (mem_string x M) && expr_ok M elt
  | ECallStar _ a => expr_ok M a
  | ECmpChain a rest =>
      expr_ok M a && (fix allp (l : list (cmpop * expr)) : bool :=
                        match l with [] => true | (_, e') :: l' => expr_ok M e' && allp l' end) rest
  | ECallKw _ es kws =>
      all es && (fix allk (l : list (string * expr)) : bool :=
                   match l with [] => true | (_, e') :: l' => expr_ok M e' && allk l' end) kws
  | EGenIf elt x it cond => negb (mem_string x M) && expr_ok M elt && expr_ok M it && expr_ok M cond
  | EMethN a _ es => expr_ok M a && all es
  end.

Fixpoint stmt_ok (M : list string) (s : stmt) {struct s} : bool :=
  let block := fix block (l : list stmt) : bool :=
                 match l with [] => true | s' :: l' => stmt_ok M s' && block l' end in
  let test := fun (t : expr) => match t with EVar _ => true | _ => expr_ok M t end in
  match s with
  | SAssign x e => if mem_string x M then match e with EList es => expr_ok M e | _ => false end else expr_ok M e
  | SAugAssign x _ e => negb (mem_string x M) && expr_ok M e
  | SIf c th el => test c && block th && block el
  | SReturn (EVar _) => true
  | SReturn e => expr_ok M e
  | SRaise _ | SPass | SBreak | SContinue => true
  | SExpr e => match mutation_of e with Some (_, _, arg) => expr_ok M arg | None => expr_ok M e end
  | SAssert c => test c
  | SAssertMsg c m => test c && expr_ok M m
  | STry b _ h o => block b && block h && block o
  | SFor t it body =>
      negb (existsb (fun x => mem_string x M) (match t with TName x => [x] | TTuple xs => xs end))
      && expr_ok M it && block body
  end.

(* ---- no local has the name of something the function calls ------------------------------- *)
Fixpoint called_e (e : expr) {struct e} : list string :=
  let opt := fun (o : option expr) => match o with None => [] | Some x => called_e x end in
  let all := fix all (l : list expr) : list string := match l with [] => [] | e' :: l' => called_e e' ++ all l' end in
  match e with
  | EVar _ | EInt _ | EBoolC _ | ENoneC | EStr _ | EBytes _ => []
  | EBin _ a b | ECmp _ a b | EAnd a b | EOr a b => called_e a ++ called_e b
  | ENeg a | ENot a | EAttr a _ => called_e a
  | ECall1 f a => f :: called_e a
  | ECall2 f a b => f :: called_e a ++ called_e b
  | ECall3 f a b d => f :: called_e a ++ called_e b ++ called_e d
  | ESub a lo hi => called_e a ++ opt lo ++ opt hi
  | EIndex a i => called_e a ++ called_e i
  | EMeth1 a _ arg => called_e a ++ called_e arg
  | EGenExp elt _ it => called_e elt ++ called_e it
  | EList es | ETuple es => all es
  | ECond t a b => called_e t ++ called_e a ++ called_e b
  | ECallStar f a => f :: called_e a
  | ECallN f es => f :: all es
  | ECmpChain a rest =>
      called_e a ++ (fix allp (l : list (cmpop * expr)) : list string :=
                       match l with [] => [] | (_, e') :: l' => called_e e' ++ allp l' end) rest
  | ECallKw f es kws =>
      f :: all es ++ (fix allk (l : list (string * expr)) : list string :=
                        match l with [] => [] | (_, e') :: l' => called_e e' ++ allk l' end) kws
  | EGenIf elt _ it cond => called_e elt ++ called_e it ++ called_e cond
  | EMethN a _ es => called_e a ++ all es
  end.
Fixpoint genvars_e (e : expr) {struct e} : list string :=
  let opt := fun (o : option expr) => match o with None => [] | Some x => genvars_e x end in
  let all := fix all (l : list expr) : list string := match l with [] => [] | e' :: l' => genvars_e e' ++ all l' end in
  match e with
  | EVar _ | EInt _ | EBoolC _ | ENoneC | EStr _ | EBytes _ => []
  | EBin _ a b | ECmp _ a b | EAnd a b | EOr a b => genvars_e a ++ genvars_e b
  | ENeg a | ENot a | EAttr a _ | ECall1 _ a | ECallStar _ a => genvars_e a
  | ECall2 _ a b | EIndex a b | EMeth1 a _ b => genvars_e a ++ genvars_e b
  | ECall3 _ a b d | ECond a b d => genvars_e a ++ genvars_e b ++ genvars_e d
  | ESub a lo hi => genvars_e a ++ opt lo ++ opt hi
  | EGenExp elt x it => x :: genvars_e elt ++ genvars_e it
  | EList es | ETuple es | ECallN _ es => all es
  | ECmpChain a rest =>
      genvars_e a ++ (fix allp (l : list (cmpop * expr)) : list string :=
                        match l with [] => [] | (_, e') :: l' => genvars_e e' ++ allp l' end) rest
  | ECallKw _ es kws =>
      all es ++ (fix allk (l : list (string * expr)) : list string :=
                   match l with [] => [] | (_, e') :: l' => genvars_e e' ++ allk l' end) kws
  | EGenIf elt x it cond => x :: genvars_e elt ++ genvars_e it ++ genvars_e cond
  | EMethN a _ es => genvars_e a ++ all es
  end.
(* the expressions of a statement, all blocks included *)
Fixpoint exprs_of (s : stmt) {struct s} : list expr :=
  let block := fix block (l : list stmt) : list expr :=
                 match l with [] => [] | s' :: l' => exprs_of s' ++ block l' end in
  match s with
  | SAssign _ e | SAugAssign _ _ e | SReturn e | SExpr e | SAssert e => [e]
  | SAssertMsg c m => [c; m]
  | SIf c th el => c :: block th ++ block el
  | STry b _ h o => block b ++ block h ++ block o
  | SFor _ it body => it :: block body
  | SRaise _ | SPass | SBreak | SContinue => []
  end.
Definition calls_ok (f : fundef) : bool :=
  let es := (flat_map exprs_of (f_body f) ++ f_defaults f)%list in
  let locals := (f_params f ++ assigned_block (f_body f) ++ flat_map genvars_e es)%list in
  negb (existsb (fun g => mem_string g locals) (flat_map called_e es)).

Definition mut_ok (f : fundef) : bool :=
  let M := flat_map mutated (f_body f) in
  negb (existsb (fun x => mem_string x M) (f_params f))
  && forallb (stmt_ok M) (f_body f)
  && forallb (expr_ok M) (f_defaults f).

(* call a function: positional arguments, missing ones from the defaults of the last
   parameters (evaluated in the module's scope); falling off the end returns None *)
Definition call_in (c : ctx) (f : fundef) (args : list val) : res val :=
  let np := count (f_params f) in
  let na := count args in
  let nd := count (f_defaults f) in
  if negb (mut_ok f && calls_ok f) then Raise OtherError
  else if ((na <=? np) && (np - nd <=? na))%nat then
    let locals := f_params f ++ assigned_block (f_body f) in
    let c' := mkCtx (filter (fun kv => negb (mem_string (fst kv) locals)) (c_globals c))
                    (filter (fun kv => negb (mem_string (fst kv) locals)) (c_funs c))
                    (c_method c) (c_classes c) (c_sigs c) in
    match (fix evals (l : list expr) : res (list val) :=
             match l with
             | [] => Ok []
             | e :: l' => match eval c [] e with
                          | Ok v => match evals l' with Ok vs => Ok (v :: vs) | Raise ex => Raise ex end
                          | Raise ex => Raise ex
                          end
             end) (skipn (nd - (np - na)) (f_defaults f)) with
    | Raise ex => Raise ex
    | Ok dvs =>
        match exec_block c' (f_body f) (List.combine (f_params f) (args ++ dvs)) with
        | Next _ => Ok VNone
        | Returned v => Ok v
        | Raised e => Raise e
        | Broke _ | Continued _ => Raise OtherError        (* not in a loop: a SyntaxError in Python *)
        end
    end
  else Raise TypeError.

(* functions that use nothing of their module *)
Definition call (f : fundef) (args : list val) : res val := call_in empty_ctx f args.

(* sameness of two values as data, for COMPARING OUTCOMES in the correspondence checks (not
   Python's ==): as [val_eqb], and structural on tuples, objects and dicts (items in order) *)
Fixpoint val_same (a b : val) : bool :=
  let all := fix all (x y : list val) : bool :=
               match x, y with
               | [], [] => true
               | u :: x', w :: y' => val_same u w && all x' y'
               | _, _ => false
               end in
  match a, b with
  | VList x, VList y => all x y
  | VTuple x, VTuple y => all x y
  | VSlice a1 a2 a3, VSlice b1 b2 b3 => val_same a1 b1 && val_same a2 b2 && val_same a3 b3
  | VDict x, VDict y =>
      (fix items (x y : list (val * val)) : bool :=
         match x, y with
         | [], [] => true
         | (k, u) :: x', (k', w) :: y' => val_same k k' && val_same u w && items x' y'
         | _, _ => false
         end) x y
  | VRec c x, VRec c' y =>
      String.eqb c c' &&
      (fix flds (x y : list (string * val)) : bool :=
         match x, y with
         | [], [] => true
         | (k, u) :: x', (k', w) :: y' => String.eqb k k' && val_same u w && flds x' y'
         | _, _ => false
         end) x y
  | _, _ => val_eqb a b
  end.
Definition res_val_same (a b : res val) : bool :=
  match a, b with
  | Ok x, Ok y => val_same x y
  | Raise e, Raise e' => exn_eqb e e'
  | _, _ => false
  end.

Definition res_val_eqb (a b : res val) : bool :=
  match a, b with
  | Ok x, Ok y => val_eqb x y
  | Raise e, Raise e' => exn_eqb e e'
  | _, _ => false
  end.
