(* PyMini -- abstract syntax and reference semantics of the small, loop-free subset of
   Python in which the pure helpers of curtsies are written
   (formatstring.normalize_slice, formatstring.interval_overlap, and the decision cascade of
   key decoding: events.get_key, _key_name, decodable, could_be_unfinished_char,
   could_be_unfinished_utf8).

   The translator gen/gen_pure.py dumps the Python AST of those functions, node by
   node, into terms of [stmt] (Gen/Pure.v, regenerated from /repo on every run): it makes
   no decision about meaning.  The meaning is here: [exec_block] / [call_in] is the reference
   interpreter.  Proofs/PureTie.v and Proofs/PureTieKeys.v prove, for ALL arguments, that
   running the generated syntax tree gives what the hand-written models (Model/Slice.v,
   Model/Width.v, Model/Keys.v) compute, so the theorems about those models are theorems
   about the function text that is in the repository now; the correspondence check
   additionally runs this interpreter against CPython on generated arguments.

   Values: int (unbounded), bool, None, slice objects, bytes, str (code points), lists,
   dicts / sets (module-level tables), enum classes and members, modules, opaque objects
   with an identity (what `is` compares), generator objects.
   Everything the subset cannot express is an explicit error outcome ([Raise]), never a
   default value; where Python WOULD define a behaviour that is not modelled here the
   outcome is [Raise OtherError] (never a Python exception the real code could raise), so
   that a tie theorem can not be proved about behaviour the interpreter only guesses.

   Outside the language itself, a function is run in a context [ctx]:
     c_globals  the module-level names it may read (tables, constants, enum classes, modules),
     c_funs     the module-level functions it may call, each given by its semantics
                [list val -> res val] (another generated function run by this interpreter, or
                a model function standing for library behaviour),
     c_method   the meaning of method calls that are library behaviour (bytes.decode,
                codecs.getdecoder): the ORACLES, named and instantiated in Spec/PyEnv.v.
   No proofs in this file. *)
From Coq Require Import String Ascii.
From Curtsies Require Import Model.Base.
Local Open Scope Z_scope.

Inductive val :=
| VInt (z : Z)
| VBool (b : bool)
| VNone
| VSlice (start stop step : val)
| VBytes (l : list N)
| VStr (l : list N)                              (* code points *)
| VList (l : list val)
| VDict (items : list (val * val))               (* items in insertion order, keys pairwise distinct *)
| VSet (l : list val)
| VEnumClass (cls : string) (members : list string)
| VEnum (cls member : string)
| VModule (name : string)
| VObj (tag : string) (id : N)                   (* an object of which only the identity is known *)
| VGen (items : list (res val)).                 (* generator object: the outcomes of its elements, in order *)

Inductive binop := BAdd | BSub | BMul | BBitAnd | BBitOr | BMod.
Inductive cmpop := CLt | CLtE | CGt | CGtE | CEq | CNotEq | CIs | CIsNot | CIn | CNotIn.

Inductive expr :=
| EVar (x : string)
| EInt (z : Z)
| EBoolC (b : bool)
| ENoneC
| EStr (l : list N)                        (* str constant (code points) *)
| EBytes (l : list N)                      (* bytes constant *)
| EBin (op : binop) (a b : expr)
| ENeg (a : expr)
| ENot (a : expr)
| ECmp (op : cmpop) (a b : expr)          (* one comparison; chains are refused by the translator *)
| EAnd (a b : expr)                        (* a and b : value of a if falsy, else value of b *)
| EOr (a b : expr)
| EAttr (a : expr) (name : string)         (* .start .stop .step of a slice object; Enum.MEMBER *)
| ECall1 (f : string) (a : expr)           (* f(a): builtins len, ord, abs, bool, int, all, any; module functions *)
| ECall2 (f : string) (a b : expr)         (* max, min, slice, isinstance(x, <class name>); module functions *)
| ECall3 (f : string) (a b c : expr)       (* slice(a, b, c); module functions *)
| ESub (a : expr) (lo hi : option expr)    (* a[lo:hi] on bytes *)
| EIndex (a i : expr)                      (* a[i] *)
| EMeth1 (a : expr) (name : string) (arg : expr)   (* a.name(arg) *)
| EGenExp (elt : expr) (x : string) (it : expr).   (* (elt for x in it) *)

Inductive stmt :=
| SAssign (x : string) (e : expr)
| SAugAssign (x : string) (op : binop) (e : expr)
| SIf (c : expr) (th el : list stmt)      (* elif = an SIf alone in [el] *)
| SReturn (e : expr)
| SRaise (e : exn)                         (* raise X / raise X(msg): exceptions are identified by class only *)
| SPass                                    (* docstrings and `pass` *)
| SExpr (e : expr)                         (* expression statement *)
| SAssert (c : expr)                       (* assert c [, "constant message"] *)
| STry (body : list stmt) (ex : exn) (handler orelse : list stmt).
                                           (* try: body  except ex: handler  else: orelse   (one handler, no finally) *)

(* parameters; [f_defaults] are the default-value expressions of the LAST parameters *)
Record fundef := mkFun { f_params : list string; f_defaults : list expr; f_body : list stmt }.

(* ---- environments ---------------------------------------------------------- *)
Definition env := list (string * val).

Fixpoint lookup (x : string) (r : env) : option val :=
  match r with
  | [] => None
  | (y, v) :: r' => if String.eqb x y then Some v else lookup x r'
  end.

Definition bind_var (x : string) (v : val) (r : env) : env := (x, v) :: r.

Definition funs := list (string * (list val -> res val)).

Fixpoint lookup_fun (x : string) (fs : funs) : option (list val -> res val) :=
  match fs with
  | [] => None
  | (y, g) :: fs' => if String.eqb x y then Some g else lookup_fun x fs'
  end.

Record ctx := mkCtx {
  c_globals : env;
  c_funs : funs;
  c_method : val -> string -> val -> res val
}.

Definition empty_ctx : ctx := mkCtx [] [] (fun _ _ _ => Raise OtherError).

(* code points of a Coq string literal (ASCII) *)
Fixpoint codes (s : string) : list N :=
  match s with
  | EmptyString => []
  | String a s' => N_of_ascii a :: codes s'
  end.

(* ---- values ---------------------------------------------------------------------- *)
(* bool is a subclass of int: True == 1 *)
Definition as_int (v : val) : option Z :=
  match v with
  | VInt z => Some z
  | VBool b => Some (if b then 1 else 0)
  | _ => None
  end.

Definition is_nil {X} (l : list X) : bool := match l with [] => true | _ => false end.

Definition truthy (v : val) : bool :=
  match v with
  | VInt z => negb (z =? 0)
  | VBool b => b
  | VNone => false
  | VBytes l | VStr l => negb (is_nil l)
  | VList l | VSet l => negb (is_nil l)
  | VDict l => negb (is_nil l)
  | VSlice _ _ _ | VEnumClass _ _ | VEnum _ _ | VModule _ | VObj _ _ | VGen _ => true
  end.

(* structural equality of values.  It is Python's == on the scalar values (int/bool, None,
   bytes, str, slice, enum members, opaque objects) and on lists of them; it is NOT ==
   on dicts, sets, generators (always false here): [eval_cmp] refuses == on those. *)
Fixpoint val_eqb (a b : val) : bool :=
  match a, b with
  | VNone, VNone => true
  | VSlice a1 a2 a3, VSlice b1 b2 b3 => val_eqb a1 b1 && val_eqb a2 b2 && val_eqb a3 b3
  | VBytes x, VBytes y => list_eqb N.eqb x y
  | VStr x, VStr y => list_eqb N.eqb x y
  | VEnum c m, VEnum c' m' => String.eqb c c' && String.eqb m m'
  | VObj t i, VObj t' i' => String.eqb t t' && N.eqb i i'
  | VList x, VList y =>
      (fix go (x y : list val) : bool :=
         match x, y with
         | [], [] => true
         | u :: x', w :: y' => val_eqb u w && go x' y'
         | _, _ => false
         end) x y
  | _, _ =>
      match as_int a, as_int b with
      | Some x, Some y => x =? y
      | _, _ => false
      end
  end.

(* values on which == is the structural equality above *)
Definition comparable (v : val) : bool :=
  match v with
  | VDict _ | VSet _ | VGen _ | VModule _ | VEnumClass _ _ => false
  | _ => true
  end.

Definition hashable (v : val) : bool :=
  match v with
  | VList _ | VDict _ | VSet _ => false
  | VGen _ | VModule _ | VEnumClass _ _ => false      (* hashable in Python, by identity: not modelled *)
  | _ => true
  end.

Definition is_none (v : val) : bool := match v with VNone => true | _ => false end.

Definition dict_get (k : val) (items : list (val * val)) : option val :=
  match find (fun kv => val_eqb k (fst kv)) items with Some kv => Some (snd kv) | None => None end.
Definition dict_mem (k : val) (items : list (val * val)) : bool :=
  match dict_get k items with Some _ => true | None => false end.
Definition set_mem (k : val) (l : list val) : bool := existsb (val_eqb k) l.

(* ---- "fmt" % x : one conversion %[0][width](X|x|d) with an int argument ------------------- *)
Local Open Scope N_scope.
Definition digit_char (upper : bool) (d : N) : N :=
  if d <? 10 then 48 + d else (if upper then 55 else 87) + d.
Fixpoint digits_fuel (fuel : nat) (base : N) (upper : bool) (n : N) (acc : list N) : list N :=
  match fuel with
  | O => acc
  | S f => let acc' := digit_char upper (n mod base) :: acc in
           if n / base =? 0 then acc' else digits_fuel f base upper (n / base) acc'
  end.
Definition digits (base : N) (upper : bool) (n : N) : list N :=
  digits_fuel (S (N.to_nat (N.log2 n))) base upper n [].

Fixpoint split_percent (s : list N) : option (list N * list N) :=
  match s with
  | [] => None
  | c :: s' => if c =? 37 then Some ([], s')
               else match split_percent s' with Some (p, r) => Some (c :: p, r) | None => None end
  end.
Fixpoint read_width (s : list N) (acc : N) : N * list N :=
  match s with
  | d :: s' => if (48 <=? d) && (d <=? 57) then read_width s' (acc * 10 + (d - 48)) else (acc, s)
  | [] => (acc, [])
  end.
Local Open Scope Z_scope.

Definition format_percent (fmt : list N) (arg : val) : res val :=
  match split_percent fmt with
  | None => Raise OtherError
  | Some (pre, rest) =>
      let zr := match rest with 48%N :: t => (true, t) | _ => (false, rest) end in
      let wr := read_width (snd zr) 0%N in
      match snd wr with
      | [] => Raise ValueError                                 (* incomplete format *)
      | conv :: suffix =>
          if existsb (N.eqb 37) suffix then Raise OtherError   (* more than one conversion *)
          else
            let spec := if (conv =? 88)%N then Some (16%N, true)
                        else if (conv =? 120)%N then Some (16%N, false)
                        else if (conv =? 100)%N then Some (10%N, false)
                        else None in
            match spec with
            | None => Raise OtherError                         (* %s, %r, ...: not modelled *)
            | Some (base, upper) =>
                match as_int arg with
                | Some z =>
                    let sign := if z <? 0 then [45%N] else [] in
                    let body := digits base upper (Z.to_N (Z.abs z)) in
                    let pad := (N.to_nat (fst wr) - (List.length sign + List.length body))%nat in
                    Ok (VStr (pre ++ (if fst zr then sign ++ repeat 48%N pad ++ body
                                      else repeat 32%N pad ++ sign ++ body) ++ suffix))
                | None =>
                    match arg with
                    | VNone | VBytes _ | VStr _ | VList _ | VSlice _ _ _ => Raise TypeError
                    | _ => Raise OtherError
                    end
                end
            end
      end
  end.

(* ---- operators --------------------------------------------------------------------- *)
Definition binop_int (op : binop) (x y : Z) : Z :=
  match op with
  | BAdd => x + y
  | BSub => x - y
  | BMul => x * y
  | BBitAnd => Z.land x y
  | BBitOr => Z.lor x y
  | BMod => x mod y                  (* the sign of the divisor, as in Python; y = 0 is refused below *)
  end.

(* operands for which Python may define an operator that is not modelled here *)
Definition rich (v : val) : bool :=
  match v with
  | VInt _ | VBool _ | VNone | VSlice _ _ _ => false
  | _ => true
  end.

Definition eval_bin (op : binop) (a b : val) : res val :=
  match op, a, b with
  | BMod, VStr fmt, _ => format_percent fmt b
  | BAdd, VStr x, VStr y => Ok (VStr (x ++ y))
  | BAdd, VBytes x, VBytes y => Ok (VBytes (x ++ y))
  | _, _, _ =>
      match as_int a, as_int b with
      | Some x, Some y =>
          match op with
          | BMod => if y =? 0 then Raise OtherError (* ZeroDivisionError *) else Ok (VInt (x mod y))
          | _ => Ok (VInt (binop_int op x y))
          end
      | _, _ => if rich a || rich b then Raise OtherError else Raise TypeError
      end
  end.

Definition contains (a b : val) : res val :=
  match b with
  | VDict items => if hashable a then Ok (VBool (dict_mem a items))
                   else match a with VList _ | VDict _ | VSet _ => Raise TypeError | _ => Raise OtherError end
  | VSet l => if hashable a then Ok (VBool (set_mem a l))
              else match a with VList _ | VDict _ | VSet _ => Raise TypeError | _ => Raise OtherError end
  | VList l => if hashable a then Ok (VBool (set_mem a l)) else Raise OtherError
  | VInt _ | VBool _ | VNone => Raise TypeError               (* argument of type ... is not iterable *)
  | _ => Raise OtherError                                     (* substring tests etc.: not modelled *)
  end.

Definition eval_cmp (op : cmpop) (a b : val) : res val :=
  match op with
  | CEq => if comparable a && comparable b then Ok (VBool (val_eqb a b)) else Raise OtherError
  | CNotEq => if comparable a && comparable b then Ok (VBool (negb (val_eqb a b))) else Raise OtherError
  | CIs =>
      match b with
      | VNone => Ok (VBool (is_none a))
      | _ => match a, b with
             | VNone, _ => Ok (VBool false)
             | VObj t i, VObj t' i' => Ok (VBool (String.eqb t t' && N.eqb i i'))
             | _, _ => Raise OtherError          (* identity of ints, strings ... is not defined by the language *)
             end
      end
  | CIsNot =>
      match b with
      | VNone => Ok (VBool (negb (is_none a)))
      | _ => match a, b with
             | VNone, _ => Ok (VBool true)
             | VObj t i, VObj t' i' => Ok (VBool (negb (String.eqb t t' && N.eqb i i')))
             | _, _ => Raise OtherError
             end
      end
  | CIn => contains a b
  | CNotIn => match contains a b with Ok v => Ok (VBool (negb (truthy v))) | Raise e => Raise e end
  | _ =>
      match as_int a, as_int b with
      | Some x, Some y =>
          Ok (VBool (match op with
                     | CLt => x <? y | CLtE => x <=? y | CGt => x >? y | _ => x >=? y
                     end))
      | _, _ => if rich a || rich b then Raise OtherError   (* bytes < bytes etc.: not modelled *)
                else Raise TypeError                         (* '<' not supported between ... *)
      end
  end.

(* Python's slicing of a sequence with int-or-None bounds and no step *)
Definition clip (n : Z) (b : Z) : Z := if b <? 0 then Z.max 0 (n + b) else Z.min b n.
Definition slice_list {A} (l : list A) (lo hi : option Z) : list A :=
  let n := Z.of_nat (List.length l) in
  let a := match lo with None => 0 | Some x => clip n x end in
  let b := match hi with None => n | Some x => clip n x end in
  firstn (Z.to_nat (b - a)) (skipn (Z.to_nat a) l).

Definition bound_of (v : val) : res (option Z) :=
  match v with
  | VNone => Ok None
  | _ => match as_int v with Some z => Ok (Some z) | None => Raise TypeError end
  end.

(* iteration: the outcomes of the successive elements.  Lists and bytes (ints) only; a
   generator is consumed as it is; str / dict / set iteration is not modelled *)
Definition iter_items (v : val) : res (list (res val)) :=
  match v with
  | VGen l => Ok l
  | VList l => Ok (map Ok l)
  | VBytes l => Ok (map (fun b => Ok (VInt (Z.of_N b))) l)
  | VInt _ | VBool _ | VNone | VSlice _ _ _ => Raise TypeError      (* object is not iterable *)
  | _ => Raise OtherError
  end.

(* all(...) / any(...): consume until the answer is known; an element that raises, raises *)
Fixpoint all_items (l : list (res val)) : res val :=
  match l with
  | [] => Ok (VBool true)
  | Ok v :: l' => if truthy v then all_items l' else Ok (VBool false)
  | Raise e :: _ => Raise e
  end.
Fixpoint any_items (l : list (res val)) : res val :=
  match l with
  | [] => Ok (VBool false)
  | Ok v :: l' => if truthy v then Ok (VBool true) else any_items l'
  | Raise e :: _ => Raise e
  end.

(* consume completely: the first element that raises, raises *)
Fixpoint sequence (l : list (res val)) : res (list val) :=
  match l with
  | [] => Ok []
  | Ok v :: l' => match sequence l' with Ok vs => Ok (v :: vs) | Raise e => Raise e end
  | Raise e :: _ => Raise e
  end.

Definition intercalate (sep : list N) (ps : list (list N)) : list N :=
  match ps with
  | [] => []
  | p :: ps' => p ++ flat_map (fun q => sep ++ q) ps'
  end.

(* the pieces of sep.join(items): every item must be of the separator's type *)
Fixpoint pieces (is_str : bool) (l : list val) : option (list (list N)) :=
  match l with
  | [] => Some []
  | v :: l' =>
      match (match v, is_str with VStr s, true => Some s | VBytes s, false => Some s | _, _ => None end) with
      | None => None
      | Some p => match pieces is_str l' with Some ps => Some (p :: ps) | None => None end
      end
  end.

Definition join (is_str : bool) (sep : list N) (arg : val) : res val :=
  match iter_items arg with
  | Raise e => Raise e
  | Ok items =>
      match sequence items with
      | Raise e => Raise e
      | Ok vs =>
          match pieces is_str vs with
          | None => Raise TypeError                      (* sequence item i: expected ... instance *)
          | Some ps => Ok (if is_str then VStr (intercalate sep ps) else VBytes (intercalate sep ps))
          end
      end
  end.

Definition call1 (f : string) (a : val) : res val :=
  if String.eqb f "len" then
    match a with
    | VBytes l | VStr l => Ok (VInt (Z.of_nat (List.length l)))
    | VList l | VSet l => Ok (VInt (Z.of_nat (List.length l)))
    | VDict l => Ok (VInt (Z.of_nat (List.length l)))
    | VInt _ | VBool _ | VNone | VSlice _ _ _ | VGen _ => Raise TypeError
    | _ => Raise OtherError
    end
  else if String.eqb f "ord" then
    match a with
    | VBytes [b] | VStr [b] => Ok (VInt (Z.of_N b))
    | _ => Raise TypeError
    end
  else if String.eqb f "abs" then
    match as_int a with Some z => Ok (VInt (Z.abs z)) | None => if rich a then Raise OtherError else Raise TypeError end
  else if String.eqb f "bool" then Ok (VBool (truthy a))
  else if String.eqb f "int" then
    match as_int a with Some z => Ok (VInt z) | None => if rich a then Raise OtherError else Raise TypeError end
  else if String.eqb f "all" then
    match iter_items a with Ok l => all_items l | Raise e => Raise e end
  else if String.eqb f "any" then
    match iter_items a with Ok l => any_items l | Raise e => Raise e end
  else Raise OtherError.

Definition call2 (f : string) (a b : val) : res val :=
  if String.eqb f "max" then
    match as_int a, as_int b with
    | Some x, Some y => Ok (if y >? x then b else a)      (* max returns the first of equal arguments *)
    | _, _ => if rich a || rich b then Raise OtherError else Raise TypeError
    end
  else if String.eqb f "min" then
    match as_int a, as_int b with
    | Some x, Some y => Ok (if y <? x then b else a)
    | _, _ => if rich a || rich b then Raise OtherError else Raise TypeError
    end
  else if String.eqb f "slice" then Ok (VSlice a b VNone)      (* slice(a, b) = slice(a, b, None) *)
  else Raise OtherError.

Definition call3 (f : string) (a b c : val) : res val :=
  if String.eqb f "slice" then Ok (VSlice a b c) else Raise OtherError.

Definition builtin (f : string) (args : list val) : res val :=
  match args with
  | [a] => call1 f a
  | [a; b] => call2 f a b
  | [a; b; c] => call3 f a b c
  | _ => Raise OtherError
  end.

(* isinstance(x, int) / isinstance(x, slice) / ...: the class is a NAME in the source *)
Definition isinstance (cls : string) (a : val) : res val :=
  if String.eqb cls "int" then Ok (VBool (match a with VInt _ | VBool _ => true | _ => false end))
  else if String.eqb cls "slice" then Ok (VBool (match a with VSlice _ _ _ => true | _ => false end))
  else if String.eqb cls "bytes" then Ok (VBool (match a with VBytes _ => true | _ => false end))
  else if String.eqb cls "str" then Ok (VBool (match a with VStr _ => true | _ => false end))
  else Raise OtherError.

Definition mem_string (x : string) (l : list string) : bool := existsb (String.eqb x) l.

Definition get_attr (a : val) (name : string) : res val :=
  match a with
  | VSlice s e st =>
      if String.eqb name "start" then Ok s
      else if String.eqb name "stop" then Ok e
      else if String.eqb name "step" then Ok st
      else Raise OtherError
  | VEnumClass cls members =>
      if mem_string name members then Ok (VEnum cls name) else Raise OtherError
  | _ => Raise OtherError                     (* AttributeError, or not modelled *)
  end.

Definition index (a i : val) : res val :=
  match a with
  | VDict items =>
      if hashable i then match dict_get i items with Some v => Ok v | None => Raise KeyError end
      else match i with VList _ | VDict _ | VSet _ => Raise TypeError | _ => Raise OtherError end
  | VBytes l =>
      match as_int i with
      | Some z => let n := Z.of_nat (List.length l) in
                  let k := if z <? 0 then z + n else z in
                  if (k <? 0) || (k >=? n) then Raise IndexError
                  else match nth_error l (Z.to_nat k) with Some b => Ok (VInt (Z.of_N b)) | None => Raise IndexError end
      | None => Raise OtherError
      end
  | VList l =>
      match as_int i with
      | Some z => let n := Z.of_nat (List.length l) in
                  let k := if z <? 0 then z + n else z in
                  if (k <? 0) || (k >=? n) then Raise IndexError
                  else match nth_error l (Z.to_nat k) with Some v => Ok v | None => Raise IndexError end
      | None => Raise OtherError
      end
  | VInt _ | VBool _ | VNone => Raise TypeError            (* object is not subscriptable *)
  | _ => Raise OtherError
  end.

(* method calls: join is language-level behaviour of bytes / str; the rest is the context's *)
Definition method1 (c : ctx) (obj : val) (name : string) (arg : val) : res val :=
  match obj with
  | VBytes sep => if String.eqb name "join" then join false sep arg else c_method c obj name arg
  | VStr sep => if String.eqb name "join" then join true sep arg else c_method c obj name arg
  | _ => c_method c obj name arg
  end.

(* ---- expressions ----------------------------------------------------------------- *)
Definition rbind {A B} (r : res A) (k : A -> res B) : res B :=
  match r with Ok a => k a | Raise e => Raise e end.

(* f(args) with f a NAME: Python looks it up among the locals, then the module's globals,
   then the builtins.  Calling a local or a global that is not a function of [c_funs] is
   outside the subset. *)
Definition apply_fun (c : ctx) (r : env) (f : string) (args : list val) : res val :=
  match lookup f r with
  | Some _ => Raise OtherError
  | None =>
      match lookup_fun f (c_funs c) with
      | Some g => g args
      | None =>
          match lookup f (c_globals c) with
          | Some _ => Raise OtherError
          | None => builtin f args
          end
      end
  end.

Definition shadowed (c : ctx) (r : env) (f : string) : bool :=
  match lookup f r, lookup_fun f (c_funs c), lookup f (c_globals c) with
  | None, None, None => false
  | _, _, _ => true
  end.

Fixpoint eval (c : ctx) (r : env) (e : expr) {struct e} : res val :=
  match e with
  | EVar x =>
      match lookup x r with
      | Some v => Ok v
      | None => match lookup x (c_globals c) with Some v => Ok v | None => Raise OtherError end   (* NameError *)
      end
  | EInt z => Ok (VInt z)
  | EBoolC b => Ok (VBool b)
  | ENoneC => Ok VNone
  | EStr l => Ok (VStr l)
  | EBytes l => Ok (VBytes l)
  | EBin op a b => rbind (eval c r a) (fun va => rbind (eval c r b) (fun vb => eval_bin op va vb))
  | ENeg a => rbind (eval c r a) (fun va => match as_int va with Some z => Ok (VInt (- z))
                                                           | None => if rich va then Raise OtherError else Raise TypeError end)
  | ENot a => rbind (eval c r a) (fun va => Ok (VBool (negb (truthy va))))
  | ECmp op a b => rbind (eval c r a) (fun va => rbind (eval c r b) (fun vb => eval_cmp op va vb))
  | EAnd a b => rbind (eval c r a) (fun va => if truthy va then eval c r b else Ok va)
  | EOr a b => rbind (eval c r a) (fun va => if truthy va then Ok va else eval c r b)
  | EAttr a name => rbind (eval c r a) (fun va => get_attr va name)
  | ECall1 f a => rbind (eval c r a) (fun va => apply_fun c r f [va])
  | ECall2 f a b =>
      if String.eqb f "isinstance" then
        match b with
        | EVar cls => if shadowed c r f || shadowed c r cls then Raise OtherError
                      else rbind (eval c r a) (fun va => isinstance cls va)
        | _ => Raise OtherError
        end
      else rbind (eval c r a) (fun va => rbind (eval c r b) (fun vb => apply_fun c r f [va; vb]))
  | ECall3 f a b d =>
      rbind (eval c r a) (fun va => rbind (eval c r b) (fun vb => rbind (eval c r d) (fun vd =>
        apply_fun c r f [va; vb; vd])))
  | ESub a lo hi =>
      rbind (eval c r a) (fun va =>
      rbind (match lo with None => Ok None | Some x => rbind (eval c r x) bound_of end) (fun l =>
      rbind (match hi with None => Ok None | Some x => rbind (eval c r x) bound_of end) (fun h =>
      match va with
      | VBytes bs => Ok (VBytes (slice_list bs l h))
      | VInt _ | VBool _ | VNone => Raise TypeError
      | _ => Raise OtherError
      end)))
  | EIndex a i => rbind (eval c r a) (fun va => rbind (eval c r i) (fun vi => index va vi))
  | EMeth1 a name arg => rbind (eval c r a) (fun va => rbind (eval c r arg) (fun vb => method1 c va name vb))
  | EGenExp elt x it =>
      (* the iterable is evaluated at once, the elements when consumed; the subset has no
         side effects and the translator allows a generator expression only as the argument
         of the call that consumes it, so the element outcomes can be listed here.
         The loop variable is local to the generator expression. *)
      rbind (eval c r it) (fun vi =>
      rbind (iter_items vi) (fun items =>
      Ok (VGen (map (fun item => match item with
                                 | Ok v => eval c (bind_var x v r) elt
                                 | Raise ex => Raise ex
                                 end) items))))
  end.

(* ---- statements ------------------------------------------------------------------ *)
Inductive outcome :=
| Next (r : env)            (* fell through *)
| Returned (v : val)
| Raised (e : exn).

(* `except h` catches e: the class itself, and UnicodeDecodeError <: ValueError.  An unknown
   exception (OtherError) is never caught: it stays an error outcome. *)
Definition catches (h e : exn) : bool :=
  match e with
  | OtherError => false
  | _ => exn_eqb h e || (exn_eqb h ValueError && exn_eqb e UnicodeDecodeError)
  end.

Fixpoint exec (c : ctx) (s : stmt) (r : env) {struct s} : outcome :=
  let block :=
    fix block (l : list stmt) (r : env) {struct l} : outcome :=
      match l with
      | [] => Next r
      | s' :: l' => match exec c s' r with Next r' => block l' r' | o => o end
      end in
  match s with
  | SAssign x e => match eval c r e with Ok v => Next (bind_var x v r) | Raise ex => Raised ex end
  | SAugAssign x op e =>
      match lookup x r with
      | None => Raised OtherError
      | Some old =>
          match eval c r e with
          | Ok v => match eval_bin op old v with Ok w => Next (bind_var x w r) | Raise ex => Raised ex end
          | Raise ex => Raised ex
          end
      end
  | SIf cnd th el =>
      match eval c r cnd with
      | Raise ex => Raised ex
      | Ok v => block (if truthy v then th else el) r
      end
  | SReturn e => match eval c r e with Ok v => Returned v | Raise ex => Raised ex end
  | SRaise ex => Raised ex
  | SPass => Next r
  | SExpr e => match eval c r e with Ok _ => Next r | Raise ex => Raised ex end
  | SAssert cnd =>
      match eval c r cnd with
      | Raise ex => Raised ex
      | Ok v => if truthy v then Next r else Raised AssertionError        (* python without -O *)
      end
  | STry body ex handler orelse =>
      (* a body of ONE statement: nothing can have been assigned when it raises *)
      match body with
      | [b] =>
          match exec c b r with
          | Next r' => block orelse r'
          | Returned v => Returned v
          | Raised e => if catches ex e then block handler r else Raised e
          end
      | _ => Raised OtherError
      end
  end.

Fixpoint exec_block (c : ctx) (l : list stmt) (r : env) : outcome :=
  match l with
  | [] => Next r
  | s :: l' => match exec c s r with Next r' => exec_block c l' r' | o => o end
  end.

(* names assigned somewhere in a function body: Python makes them local to the WHOLE
   function (reading one before its assignment is an error, not a global lookup) *)
Fixpoint assigned (s : stmt) : list string :=
  let block := fix block (l : list stmt) : list string :=
                 match l with [] => [] | s' :: l' => assigned s' ++ block l' end in
  match s with
  | SAssign x _ | SAugAssign x _ _ => [x]
  | SIf _ th el => block th ++ block el
  | STry b _ h o => block b ++ block h ++ block o
  | _ => []
  end.
Definition assigned_block (l : list stmt) : list string := flat_map assigned l.

(* call a function: positional arguments, missing ones from the defaults of the last
   parameters (evaluated in the module's scope); falling off the end returns None *)
Fixpoint count {X} (l : list X) : nat := match l with [] => O | _ :: l' => S (count l') end.

Definition call_in (c : ctx) (f : fundef) (args : list val) : res val :=
  let np := count (f_params f) in
  let na := count args in
  let nd := count (f_defaults f) in
  if ((na <=? np) && (np - nd <=? na))%nat then
    let locals := f_params f ++ assigned_block (f_body f) in
    let c' := mkCtx (filter (fun kv => negb (mem_string (fst kv) locals)) (c_globals c))
                    (filter (fun kv => negb (mem_string (fst kv) locals)) (c_funs c))
                    (c_method c) in
    match (fix evals (l : list expr) : res (list val) :=
             match l with
             | [] => Ok []
             | e :: l' => match eval c [] e with
                          | Ok v => match evals l' with Ok vs => Ok (v :: vs) | Raise ex => Raise ex end
                          | Raise ex => Raise ex
                          end
             end) (skipn (nd - (np - na)) (f_defaults f)) with
    | Raise ex => Raise ex
    | Ok dvs =>
        match exec_block c' (f_body f) (List.combine (f_params f) (args ++ dvs)) with
        | Next _ => Ok VNone
        | Returned v => Ok v
        | Raised e => Raise e
        end
    end
  else Raise TypeError.

(* functions that use nothing of their module *)
Definition call (f : fundef) (args : list val) : res val := call_in empty_ctx f args.

Definition res_val_eqb (a b : res val) : bool :=
  match a, b with
  | Ok x, Ok y => val_eqb x y
  | Raise e, Raise e' => exn_eqb e e'
  | _, _ => false
  end.
