(* Reference notions for C18 (cursor position query, vertical diff).
   Independent of the algorithms in Model/CursorQuery.v: only its *types*
   (rd, item, wstate, op, obs) are used.  No proofs.

   A cursor position report is  CSI digits ; digits R  with CSI either the
   7-bit  ESC [  or the 8-bit character 155. *)
From Curtsies Require Import Model.Base Model.CursorQuery.
Local Open Scope N_scope.

(* ---- reports, as plain list equations ---------------------------------------- *)
Definition digit (c : char) : bool := existsb (N.eqb c) [48; 49; 50; 51; 52; 53; 54; 55; 56; 57].
(* a non-empty string of ASCII digits *)
Definition digits (s : str) : bool := match s with [] => false | _ => forallb digit s end.
(* the number a digit string denotes (leading zeros allowed) *)
Definition value (ds : str) : N := fold_left (fun a d => 10 * a + (d - 48)) ds 0.

Definition csi7 : str := [27; 91].
Definition csi8 : str := [155].
Definition is_csi (s : str) : Prop := s = csi7 \/ s = csi8.
Definition report (csi rs cs : str) : str := csi ++ rs ++ [59] ++ cs ++ [82].

(* [extra] contains no complete report *)
Definition no_report (extra : str) : Prop :=
  forall pre csi rs cs post,
    is_csi csi -> digits rs = true -> digits cs = true ->
    extra <> pre ++ report csi rs cs ++ post.

(* ---- streams ----------------------------------------------------------------- *)
(* the characters a reader obtains from a stream: failed reads deliver nothing *)
Fixpoint chars_of (s : list item) : str :=
  match s with
  | [] => []
  | Rd (Char c) :: r => c :: chars_of r
  | _ :: r => chars_of r
  end.
Definition is_eof (i : item) : bool := match i with Rd Eof => true | _ => false end.
Definition count_nests (s : list item) : nat := length (filter is_nest s).
(* a stretch of the stream in which every read either fails with OSError or
   delivers a character (nested-call points allowed) *)
Definition no_eof (s : list item) : Prop := forall i, In i s -> is_eof i = false.

(* ---- what the property promises for one query ------------------------------------
   stream = (any interleaving of failed reads with the characters of
   extra ++ CSI rs ; cs R) ++ trail; [cb] = a callback was given; [nests] = nested
   call points passed (bookkeeping for the diff logic) *)
Definition expected_outcome (cb : bool) (extra rs cs : str) (trail : list item) (nests : nat) : outcome :=
  let pos := (Z.of_N (value rs) - 1, Z.of_N (value cs) - 1)%Z in
  match extra with
  | [] => mkOut (Ok pos) [] trail nests
  | _ :: _ => if cb then mkOut (Ok pos) [extra] trail nests
              else mkOut (Raise ValueError) [] trail nests
  end.

(* ---- executable reference for arbitrary streams (used by the correspondence) -- *)
(* s is EXACTLY one report: strip the CSI, cut at the first ';', the last
   character must be 'R', both pieces non-empty digit strings *)
Definition strip_csi (s : str) : option str :=
  match s with
  | 27 :: 91 :: r => Some r
  | 155 :: r => Some r
  | _ => None
  end.
Fixpoint cut_at (x : N) (s : str) : option (str * str) :=
  match s with
  | [] => None
  | c :: r => if c =? x then Some ([], r)
              else match cut_at x r with Some (a, b) => Some (c :: a, b) | None => None end
  end.
Definition parse_report (s : str) : option (N * N) :=
  match strip_csi s with
  | None => None
  | Some b =>
      match cut_at 59 b with
      | None => None
      | Some (rs, t) =>
          match rev t with
          | 82 :: rcs => if digits rs && digits (rev rcs) then Some (value rs, value (rev rcs)) else None
          | _ => None
          end
      end
  end.

Definition sub (s : str) (p e : nat) : str := firstn (e - p) (skipn p s).
Fixpoint first_some {X Y} (f : X -> option Y) (l : list X) : option Y :=
  match l with
  | [] => None
  | x :: r => match f x with Some y => Some y | None => first_some f r end
  end.
(* the report that is complete first: smallest end e, start p, numbers *)
Definition first_report (s : str) : option (nat * nat * N * N) :=
  first_some (fun e =>
    first_some (fun p => match parse_report (sub s p e) with
                         | Some (r, c) => Some (p, e, r, c)
                         | None => None
                         end) (seq 0 e))
    (seq 1 (length s)).

Fixpoint until_eof (s : list item) : list item :=
  match s with
  | [] => []
  | Rd Eof :: _ => []
  | i :: r => i :: until_eof r
  end.
Fixpoint after_eof (s : list item) : list item :=
  match s with
  | [] => []
  | Rd Eof :: r => r
  | _ :: r => after_eof r
  end.
(* what is left once e characters have been delivered *)
Fixpoint drop_chars (e : nat) (s : list item) {struct s} : list item :=
  match e, s with
  | O, _ => s
  | _, [] => []
  | S e', Rd (Char _) :: r => drop_chars e' r
  | _, _ :: r => drop_chars e r
  end.

(* expected result of one position query on stream s:
   (return value or exception, callback arguments, number of unread items) *)
Definition spec_position (cb : bool) (s : list item) : res (Z * Z) * list str * nat :=
  let cs := chars_of (until_eof s) in
  match first_report cs with
  | Some (p, e, r, c) =>
      let extra := firstn p cs in
      let unread := length (drop_chars e s) in
      match extra with
      | [] => (Ok (Z.of_N r - 1, Z.of_N c - 1)%Z, [], unread)
      | _ :: _ => if cb then (Ok (Z.of_N r - 1, Z.of_N c - 1)%Z, [extra], unread)
                  else (Raise ValueError, [], unread)
      end
  | None => (Raise ValueError, [], length (after_eof s))
  end.

(* ---- the movement equation, judged on observations --------------------------- *)
Definition optZ_eqb := opt_eqb Z.eqb.
Definition wstate_eqb (a b : wstate) : bool :=
  Z.eqb (top a) (top b) && optZ_eqb (last a) (last b) &&
  Bool.eqb (in_diff a) (in_diff b) && Bool.eqb (another a) (another b).
Definition listZ_eqb : list Z -> list Z -> bool := list_eqb Z.eqb.

(* one get_cursor_vertical_diff call: state before, value returned, state after,
   rows reported by the queries the call made *)
Definition diff_relation (w : wstate) (ret : Z) (w' : wstate) (rows : list Z) : bool :=
  if in_diff w
  then (* nested: returns 0, touches nothing but another_sigwinch, asks nothing *)
    Z.eqb ret 0 && wstate_eqb w' (mkW (top w) (last w) (in_diff w) true) &&
    match rows with [] => true | _ => false end
  else
    match rows with
    | [] => false
    | r0 :: _ =>
        let now := List.last rows 0%Z in
        let ref := match last w with Some l => l | None => r0 end in
        (* movement conserved *)
        Z.eqb ((top w' - top w) + ret) (now - ref) &&
        optZ_eqb (last w') (Some now) && negb (in_diff w') &&
        (* no movement: returns 0 and changes nothing *)
        (if forallb (Z.eqb ref) rows then Z.eqb ret 0 && Z.eqb (top w') (top w) else true)
    end.

(* movement part of one step of a history: state before, operation, observation *)
Definition step_rel (w : wstate) (o : op) (ob : obs) : bool :=
  match o with
  | OpSet t l => wstate_eqb (ob_w ob) (mkW t l (in_diff w) (another w))
  | OpRender _ _ _ =>
      (* _last_cursor_row is the row the render left the cursor on *)
      match ob_rows ob with
      | [r] => optZ_eqb (last (ob_w ob)) (Some r) &&
               Bool.eqb (in_diff (ob_w ob)) (in_diff w) && Bool.eqb (another (ob_w ob)) (another w)
      | _ => false
      end
  | OpDiff _ _ =>
      match ob_ret ob with
      | Ok [dy] => diff_relation w dy (ob_w ob) (ob_rows ob)
      | Ok _ => false
      | Raise e => exn_eqb e ValueError
      end
  | OpPos _ _ => wstate_eqb (ob_w ob) w       (* a direct query changes none of the four fields *)
  end.

(* every step of a history, each judged against the state the previous one left *)
Fixpoint hist_rel (w : wstate) (ops : list op) (obs : list obs) : bool :=
  match ops, obs with
  | [], [] => true
  | o :: ops', ob :: obs' => step_rel w o ob && hist_rel (ob_w ob) ops' obs'
  | _, _ => false
  end.
