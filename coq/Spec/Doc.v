(* The "document" observation of a terminal with scrollback (C07) and what the
   property demands of it.  The document is everything the main buffer holds from
   its very first line to the bottom of the screen: scrollback ++ screen.  Line L
   of the document is on screen row L - base (base = number of lines that have
   scrolled off), or in the scrollback when L < base. *)
From Curtsies Require Import Model.Base Spec.Sgr Spec.Term Spec.Show.
From Coq Require Import Arith.
Close Scope N_scope.
Local Open Scope nat_scope.

(* cell c of document line L (main buffer) *)
Definition dline (t : term) (L c : nat) : cell := b_doc (t_main t) L c.
Definition dbase (t : term) : nat := b_base (t_main t).
(* number of lines of the document: scrollback + screen *)
Definition dlen (t : term) : nat := dbase t + t_h t.

(* executable form: the document as a list of rows of t_w cells *)
Definition doc (t : term) : list (list cell) :=
  map (fun L => map (fun c => dline t L c) (seq 0 (t_w t))) (seq 0 (dlen t)).

(* ---- the arithmetic of the property ------------------------------------------- *)
(* lines of the array that do not fit between the top usable row and the bottom *)
Definition surplus (h top n : nat) : nat := n - (h - top).
Definition top_after (h top n : nat) : nat := top - surplus h top n.            (* max 0 (top - k) *)
Definition pushed_off (h top n : nat) : nat :=                                   (* array rows pushed off the top *)
  surplus h top n - (top - top_after h top n).

(* ---- one render, as a relation between the terminal before and after ----------- *)
(* [top] = the window's top usable row before the render.  The first line of the
   window is document line dbase t + top, before and after (scrolling moves the
   screen down the document, not the text). *)
Record render_spec (t t' : term) (top : nat) (a : list fmtstr) : Prop := {
  (* exactly as many scrolls as the array does not fit *)
  rs_scrolls : dbase t' = dbase t + surplus (t_h t) top (length a);
  (* nothing above the window's first row is altered (such lines only move into scrollback) *)
  rs_above : forall L c, L < dbase t + top -> dline t' L c = dline t L c;
  (* the array shows from the window's first row down, everything below it is blank,
     down to the bottom of the screen *)
  rs_shows : forall L c, dbase t + top <= L -> L < dlen t' -> c < t_w t ->
             dline t' L c = show_cell a (L - (dbase t + top)) c;
  rs_frame : t_h t' = t_h t /\ t_w t' = t_w t /\ t_in_alt t' = false }.

(* executable form of rs_scrolls/rs_above/rs_shows on lists *)
Definition row_cells (w : nat) (f : fmtstr) : list cell := map (fun c => nth c (cells f) blank) (seq 0 w).

Definition doc_after (t : term) (top : nat) (a : list fmtstr) : list (list cell) :=
  firstn (dbase t + top) (doc t)
  ++ map (row_cells (t_w t)) a
  ++ repeat (repeat blank (t_w t)) ((t_h t - top) - length a).

(* where the cursor must be: the screen cell showing array cell (cr, cc); a cursor
   row that has itself been pushed off the top is clamped to row 0 *)
Definition cursor_row_after (h top n cr : nat) : nat :=
  (top_after h top n + cr) - pushed_off h top n.

(* ---- leaving the context --------------------------------------------------------- *)
(* no line above the cursor row is altered (with keep_last_line the cursor's own line
   is kept too and at most one more line scrolls); from there down everything is blank;
   the cursor is visible again *)
Record exit_spec (keep : bool) (t t' : term) : Prop := {
  xs_kept : forall L c, L < dbase t + t_row t + (if keep then 1 else 0) -> dline t' L c = dline t L c;
  xs_blank : forall L c, dbase t + t_row t + (if keep then 1 else 0) <= L -> dline t' L c = blank;
  xs_scroll : dbase t' = dbase t + (if keep && (S (t_row t) =? t_h t) then 1 else 0);
  xs_visible : t_visible t' = true }.

Definition keep_lines (keep : bool) (t : term) : nat := dbase t + t_row t + (if keep then 1 else 0).
