(* What an FSArray shows (C04): the per-cell grid, and region assignment on grids. *)
From Curtsies Require Import Model.Base.
From Coq Require Import List.
Close Scope N_scope.

Definition blank : cell := (32%N, sgr_default).

(* a row of content shorter than the array shows unformatted blanks after it *)
Definition pad (w : nat) (l : list cell) : list cell := l ++ repeat blank (w - length l).

Definition grid_of (w : nat) (rows : list (list cell)) : list (list cell) := map (pad w) rows.

(* the region [c0, c1) of a shown row replaced by the assigned row, blank where it is shorter *)
Definition blit_row (w : nat) (row x : list cell) (c0 c1 : nat) : list cell :=
  firstn c0 (pad w row) ++ pad (c1 - c0) x ++ skipn c1 (pad w row).

(* rows [r0, r1) replaced, row by row, by the block *)
Fixpoint blit_rows (w : nat) (rows block : list (list cell)) (c0 c1 : nat) : list (list cell) :=
  match rows, block with
  | row :: rows', x :: block' => blit_row w row x c0 c1 :: blit_rows w rows' block' c0 c1
  | _, _ => []
  end.

Definition blit (w : nat) (g block : list (list cell)) (r0 r1 c0 c1 : nat) : list (list cell) :=
  firstn r0 g ++ blit_rows w (firstn (r1 - r0) (skipn r0 g)) block c0 c1 ++ skipn r1 g.

(* the array grown downward with blank rows so that row r1 - 1 exists *)
Definition grow (w : nat) (g : list (list cell)) (r1 : nat) : list (list cell) :=
  g ++ repeat (repeat blank w) (r1 - length g).

(* reading a region: the cells it shows, up to trailing blanks *)
Fixpoint strip_blanks (l : list cell) : list cell :=
  match l with
  | [] => []
  | x :: r => match strip_blanks r with
              | [] => if cell_eqb x blank then [] else [x]
              | r' => x :: r'
              end
  end.
