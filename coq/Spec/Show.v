(* What "the screen shows exactly the array" means (C02). *)
From Curtsies Require Import Model.Base Spec.Sgr Spec.Term.
Close Scope N_scope.
Open Scope nat_scope.

(* row i of the array on screen row i, clipped to the width, everything else blank *)
Definition show_cell (array : list fmtstr) (r c : nat) : cell :=
  nth c (cells (nth r array [])) blank.

Definition shows (t : term) (array : list fmtstr) : Prop :=
  forall r c, r < t_h t -> c < t_w t -> scr t r c = show_cell array r c.

Definition show_rows (h w : nat) (array : list fmtstr) : list (list cell) :=
  map (fun r => map (fun c => show_cell array r c) (seq 0 w)) (seq 0 h).
