(* Reference semantics the properties C15 (str methods) and C16 (linesplit) are
   judged against.  Plain list functions, independent of the models; no proofs.
   Trusted: these ARE the oracles ("what str.split does", "greedy word wrap");
   the correspondence run additionally compares them with the answers of the real
   Python str methods on every generated case.

     py_ljust / py_rjust s width c      str.ljust / str.rjust
     str_split s sep                    s.split(sep) for a non-empty sep
     str_splitlines keepends s          s.splitlines(keepends), "\n" the only line boundary
     cut_spans l spans                  the pieces of l outside the given (start, end) spans
     blocks / inner_gaps sp l           maximal blocks of non-space items; the blocks of
                                        space items lying between two of them
     chop n w                           w cut into pieces of n items (the last may be shorter)
     wrap_items / greedy_wrap           greedy first-fit word wrap
     meet_sgr / join_has                formatting shared by all / shown by some cell       *)
From Curtsies Require Import Model.Base.
From Coq Require Import List ZArith Bool.
Import ListNotations.
Local Close Scope N_scope.

(* ---- str.ljust / str.rjust ------------------------------------------------------- *)
Definition py_ljust (s : str) (width : Z) (c : char) : str :=
  s ++ repeat c (Z.to_nat (width - Z.of_nat (length s))).
Definition py_rjust (s : str) (width : Z) (c : char) : str :=
  repeat c (Z.to_nat (width - Z.of_nat (length s))) ++ s.

(* ---- str.split(sep), sep non-empty ------------------------------------------------- *)
Fixpoint starts (p s : str) : bool :=
  match p, s with
  | [], _ => true
  | x :: p', y :: s' => N.eqb x y && starts p' s'
  | _ :: _, [] => false
  end.

(* read [s] from the left; [cur] = the current piece, reversed; [skip] = characters of a
   separator just recognised that are still to be passed *)
Fixpoint split_go (sep s : str) (skip : nat) (cur : str) : list str :=
  match s with
  | [] => [rev cur]
  | c :: r =>
      match skip with
      | S k => split_go sep r k cur
      | O => if starts sep s then rev cur :: split_go sep r (length sep - 1) []
             else split_go sep r 0 (c :: cur)
      end
  end.
Definition str_split (s sep : str) : list str := split_go sep s 0 [].

(* ---- str.splitlines(keepends) where "\n" is the only boundary --------------------------- *)
Fixpoint lines_go (keep : bool) (s : str) (cur : str) : list str :=
  match s with
  | [] => match cur with [] => [] | _ :: _ => [rev cur] end
  | c :: r =>
      if N.eqb c 10 then (rev cur ++ (if keep then [10%N] else [])) :: lines_go keep r []
      else lines_go keep r (c :: cur)
  end.
Definition str_splitlines (keepends : bool) (s : str) : list str := lines_go keepends s [].

(* ---- pieces of a list outside a list of spans -------------------------------------------- *)
Section Lists.
Context {A : Type}.

(* items at positions a <= i < b (naturals) *)
Definition sub (l : list A) (a b : nat) : list A := firstn (b - a) (skipn a l).

(* l[start : a1], l[b1 : a2], ..., l[bk : ] for spans (a1,b1) ... (ak,bk) *)
Fixpoint cut_from (l : list A) (start : nat) (spans : list (nat * nat)) : list (list A) :=
  match spans with
  | [] => [skipn start l]
  | (a, b) :: r => sub l start a :: cut_from l b r
  end.
Definition cut_spans (l : list A) (spans : list (nat * nat)) : list (list A) := cut_from l 0 spans.

(* spans sorted, non-overlapping, inside [start, n] *)
Fixpoint spans_ok (start n : nat) (spans : list (nat * nat)) : Prop :=
  match spans with
  | [] => start <= n
  | (a, b) :: r => start <= a /\ a <= b /\ spans_ok b n r
  end.
Fixpoint spans_okb (start n : nat) (spans : list (nat * nat)) : bool :=
  match spans with
  | [] => Nat.leb start n
  | (a, b) :: r => Nat.leb start a && Nat.leb a b && spans_okb b n r
  end.

(* p0 ++ s1 ++ p1 ++ s2 ++ ... : the pieces with the separators put back *)
Fixpoint interleave (pieces seps : list (list A)) : list A :=
  match pieces, seps with
  | p :: ps, s :: ss => p ++ s ++ interleave ps ss
  | p :: _, [] => p
  | [], _ => []
  end.

(* ---- words and gaps ----------------------------------------------------------------------- *)
Variable sp : A -> bool.                       (* "is whitespace" *)

(* maximal blocks of non-space items; [cur] = the block being read, reversed *)
Fixpoint blocks_go (l : list A) (cur : list A) : list (list A) :=
  match l with
  | [] => match cur with [] => [] | _ :: _ => [rev cur] end
  | x :: r =>
      if sp x then match cur with [] => blocks_go r [] | _ :: _ => rev cur :: blocks_go r [] end
      else blocks_go r (x :: cur)
  end.
Definition blocks (l : list A) : list (list A) := blocks_go l [].

(* the blocks of space items that have a word before them and a word after them
   (leading and trailing whitespace is no gap); [seen] = a word has been read,
   [cur] = the space block being read, reversed *)
Fixpoint gaps_go (l : list A) (seen : bool) (cur : list A) : list (list A) :=
  match l with
  | [] => []
  | x :: r =>
      if sp x then gaps_go r seen (x :: cur)
      else match cur with
           | [] => gaps_go r true []
           | _ :: _ => if seen then rev cur :: gaps_go r true [] else gaps_go r true []
           end
  end.
Definition inner_gaps (l : list A) : list (list A) := gaps_go l false [].

(* ---- greedy wrap ------------------------------------------------------------------------------ *)
(* w cut into full pieces of n items; [fuel] bounds the number of pieces *)
Fixpoint chop_fuel (fuel n : nat) (w : list A) : list (list A) :=
  match fuel with
  | O => [w]
  | S k => if Nat.leb (length w) n then [w] else firstn n w :: chop_fuel k n (skipn n w)
  end.
Definition chop (n : nat) (w : list A) : list (list A) := chop_fuel (length w) n w.

(* the lines so far are [done ++ [cur]]; the next word comes with the item that would
   join it to the current line.  It joins the line exactly when that still fits in n
   columns; otherwise it starts a new line (cut up if it is too long). *)
Fixpoint wrap_go (n : nat) (cur : list A) (rest : list (A * list A)) : list (list A) :=
  match rest with
  | [] => [cur]
  | (j, w) :: r =>
      if Nat.leb (length cur + 1 + length w) n then wrap_go n (cur ++ j :: w) r
      else let ps := chop n w in
           cur :: removelast ps ++ wrap_go n (last ps []) r
  end.
Definition wrap_items (n : nat) (words : list (list A)) (joiners : list A) : list (list A) :=
  match words with
  | [] => []
  | w :: ws => let ps := chop n w in
               removelast ps ++ wrap_go n (last ps []) (combine joiners ws)
  end.
(* greedy first-fit wrap of [words]; the item joining word i+1 to its line is made from gap i *)
Definition greedy_wrap (n : nat) (mk : list A -> A) (words gaps : list (list A)) : list (list A) :=
  wrap_items n words (map mk gaps).
End Lists.

(* ---- formatting shared by all cells / shown by some cell ---------------------------------------- *)
Definition all_color (get : sgr -> option color) (l : list sgr) : option color :=
  match l with
  | [] => None
  | s :: r => match get s with
              | Some c => if forallb (fun t => opt_eqb color_eqb (get t) (Some c)) r then Some c else None
              | None => None
              end
  end.
(* what every state of a non-empty list shows *)
Definition meet_sgr (l : list sgr) : sgr :=
  mkSgr (all_color s_fg l) (all_color s_bg l)
        (forallb s_bold l) (forallb s_dark l) (forallb s_italic l)
        (forallb s_underline l) (forallb s_blink l) (forallb s_invert l).

(* every attribute [a] shows is shown by [b] too *)
Definition color_le (a b : option color) : bool :=
  match a with None => true | Some c => opt_eqb color_eqb b (Some c) end.
Definition sgr_le (a b : sgr) : bool :=
  color_le (s_fg a) (s_fg b) && color_le (s_bg a) (s_bg b) &&
  implb (s_bold a) (s_bold b) && implb (s_dark a) (s_dark b) && implb (s_italic a) (s_italic b) &&
  implb (s_underline a) (s_underline b) && implb (s_blink a) (s_blink b) && implb (s_invert a) (s_invert b).

(* every attribute [a] shows is shown by SOME state of [l] *)
Definition some_color (get : sgr -> option color) (a : sgr) (l : list sgr) : bool :=
  match get a with None => true | Some c => existsb (fun t => opt_eqb color_eqb (get t) (Some c)) l end.
Definition some_flag (get : sgr -> bool) (a : sgr) (l : list sgr) : bool :=
  implb (get a) (existsb get l).
Definition shown_by_some (a : sgr) (l : list sgr) : bool :=
  some_color s_fg a l && some_color s_bg a l &&
  some_flag s_bold a l && some_flag s_dark a l && some_flag s_italic a l &&
  some_flag s_underline a l && some_flag s_blink a l && some_flag s_invert a l.
