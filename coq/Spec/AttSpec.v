(* Reference reading of property C14 (and the display side of C19), independent of
   the model's algorithm and of the generated tables:
   * what it means on the displayed cells to "set exactly the named attributes"
     ([override]) and to remove named attributes ([clear]);
   * the reference names of the colours and styles ([color_name], [style_name]);
     the SGR numbering 30+i / 40+i is that of Spec/Sgr.v ([color_of_idx]);
   * which attribute one element of a specification names ([pos_cls], [kw_cls]),
     when a specification is valid, and the catalogue of invalid ones.
   Only the TYPES [value] and [dict] are taken from Model/Atts.v.  No proofs. *)
From Curtsies Require Import Model.Base Spec.Sgr.
From Curtsies Require Model.Atts.
Local Open Scope N_scope.

Notation value := Atts.value.
Notation VInt := Atts.VInt.
Notation VBool := Atts.VBool.
Notation VStr := Atts.VStr.
Notation VNone := Atts.VNone.
Notation dict := Atts.dict.

(* ---- applying attributes, seen on one displayed cell ----------------------------- *)
Definition pick_color (new : option color) (old : option color) : option color :=
  match new with Some c => Some c | None => old end.
Definition pick_flag (new : option bool) (old : bool) : bool :=
  match new with Some b => b | None => old end.
(* the named attributes take the given value, all others stay *)
Definition override (a : atts) (s : sgr) : sgr :=
  mkSgr (pick_color (a_fg a) (s_fg s)) (pick_color (a_bg a) (s_bg s))
        (pick_flag (a_bold a) (s_bold s)) (pick_flag (a_dark a) (s_dark s))
        (pick_flag (a_italic a) (s_italic s)) (pick_flag (a_underline a) (s_underline s))
        (pick_flag (a_blink a) (s_blink s)) (pick_flag (a_invert a) (s_invert s)).
Definition override_cells (a : atts) (cs : list cell) : list cell :=
  map (fun cl => (fst cl, override a (snd cl))) cs.

(* ---- reference names ------------------------------------------------------------------ *)
Definition color_name (c : color) : str :=
  match c with
  | Black => [98; 108; 97; 99; 107]
  | Red => [114; 101; 100]
  | Green => [103; 114; 101; 101; 110]
  | Yellow => [121; 101; 108; 108; 111; 119]
  | Blue => [98; 108; 117; 101]
  | Magenta => [109; 97; 103; 101; 110; 116; 97]
  | Cyan => [99; 121; 97; 110]
  | Gray => [103; 114; 97; 121]
  end.
Definition style_name (k : style) : str :=
  match k with
  | Bold => [98; 111; 108; 100]
  | Dark => [100; 97; 114; 107]
  | Italic => [105; 116; 97; 108; 105; 99]
  | Underline => [117; 110; 100; 101; 114; 108; 105; 110; 101]
  | Blink => [98; 108; 105; 110; 107]
  | Invert => [105; 110; 118; 101; 114; 116]
  end.
Definition n_fg : str := [102; 103].
Definition n_bg : str := [98; 103].
Definition n_style : str := [115; 116; 121; 108; 101].
Definition n_on : str := [111; 110; 95].

Definition mem_str (k : str) (ks : list str) : bool := existsb (str_eqb k) ks.

(* removing attributes by name, seen on one displayed cell *)
Definition clear (ks : list str) (s : sgr) : sgr :=
  mkSgr (if mem_str n_fg ks then None else s_fg s) (if mem_str n_bg ks then None else s_bg s)
        (if mem_str (style_name Bold) ks then false else s_bold s)
        (if mem_str (style_name Dark) ks then false else s_dark s)
        (if mem_str (style_name Italic) ks then false else s_italic s)
        (if mem_str (style_name Underline) ks then false else s_underline s)
        (if mem_str (style_name Blink) ks then false else s_blink s)
        (if mem_str (style_name Invert) ks then false else s_invert s).
Definition clear_cells (ks : list str) (cs : list cell) : list cell :=
  map (fun cl => (fst cl, clear ks (snd cl))) cs.

(* ---- what one element of a specification names ---------------------------------------- *)
Inductive assign := AFg (c : color) | ABg (c : color) | ASt (k : style) (b : bool).
Inductive akey := KFg | KBg | KSt (k : style).
Definition akey_of (m : assign) : akey :=
  match m with AFg _ => KFg | ABg _ => KBg | ASt k _ => KSt k end.
Definition akey_eqb (a b : akey) : bool :=
  match a, b with
  | KFg, KFg | KBg, KBg => true
  | KSt x, KSt y => style_eqb x y
  | _, _ => false
  end.
Definition apply_assign (m : assign) (a : atts) : atts :=
  match m with
  | AFg c => set_fg (Some c) a
  | ABg c => set_bg (Some c) a
  | ASt k b => set_style k (Some b) a
  end.
(* attribute record [a] sets what [m] says *)
Definition has (a : atts) (m : assign) : bool :=
  match m with
  | AFg c => opt_eqb color_eqb (a_fg a) (Some c)
  | ABg c => opt_eqb color_eqb (a_bg a) (Some c)
  | ASt k b => opt_eqb Bool.eqb (get_style k a) (Some b)
  end.
(* a displayed cell shows what [m] says *)
Definition cell_has (m : assign) (s : sgr) : bool :=
  match m with
  | AFg c => opt_eqb color_eqb (s_fg s) (Some c)
  | ABg c => opt_eqb color_eqb (s_bg s) (Some c)
  | ASt Bold b => Bool.eqb (s_bold s) b
  | ASt Dark b => Bool.eqb (s_dark s) b
  | ASt Italic b => Bool.eqb (s_italic s) b
  | ASt Underline b => Bool.eqb (s_underline s) b
  | ASt Blink b => Bool.eqb (s_blink s) b
  | ASt Invert b => Bool.eqb (s_invert s) b
  end.

(* [s] is [name] written in any mix of upper and lower case (ASCII letters; U+212A
   KELVIN SIGN counts as a capital K because Python's str.lower() says so) *)
Definition ci_char (c n : char) : bool :=
  (c =? n) || ((97 <=? n) && (n <=? 122) && (c =? n - 32)) || ((n =? 107) && (c =? 8490)).
Definition ci_eqb (s name : str) : bool := list_eqb ci_char s name.

Definition color_named (s : str) : option color := find (fun c => str_eqb s (color_name c)) all_colors.
Definition color_named_ci (s : str) : option color := find (fun c => ci_eqb s (color_name c)) all_colors.
Definition style_named (s : str) : option style := find (fun k => str_eqb s (style_name k)) all_styles.
(* SGR numbering: base + index, base 30 for foreground, 40 for background *)
Definition color_numbered (base : Z) (z : Z) : option color :=
  if (Z.leb base z && Z.leb z (base + 7))%bool then color_of_idx (Z.to_N (z - base)) else None.

(* Good m: names one attribute; Bad: in the catalogue of invalid specifications;
   Outside: accepted by the library but not covered by the property as read
   (a style keyword with a non-bool value such as bold=0 or bold=None) *)
Inductive cls := Good (m : assign) | Bad | Outside.

(* a positional argument (or the value of style=):
   colour names and 'on_' + colour in any case, style names exactly *)
Definition pos_cls (v : value) : cls :=
  match v with
  | VStr s =>
      match color_named_ci s with
      | Some c => Good (AFg c)
      | None =>
          match (if ci_eqb (firstn 3 s) n_on then color_named_ci (skipn 3 s) else None) with
          | Some c => Good (ABg c)
          | None => match style_named s with Some k => Good (ASt k true) | None => Bad end
          end
      end
  | _ => Bad
  end.
Definition color_value_cls (mk : color -> assign) (base : Z) (v : value) : cls :=
  match v with
  | VStr s => match color_named s with Some c => Good (mk c) | None => Bad end
  | VInt z => match color_numbered base z with Some c => Good (mk c) | None => Bad end
  | _ => Bad                                   (* None, True, False *)
  end.
Definition kw_cls (kv : str * value) : cls :=
  let '(k, v) := kv in
  if str_eqb k n_fg then color_value_cls AFg 30 v
  else if str_eqb k n_bg then color_value_cls ABg 40 v
  else if str_eqb k n_style then pos_cls v
  else match style_named k with
       | Some st => match v with VBool b => Good (ASt st b) | _ => Outside end
       | None => Bad                           (* unknown keyword *)
       end.

Definition classes (args : list value) (kw : dict) : list cls := map pos_cls args ++ map kw_cls kw.
Definition goods (cs : list cls) : list assign :=
  flat_map (fun c => match c with Good m => [m] | _ => [] end) cs.
Definition is_good (c : cls) : bool := match c with Good _ => true | _ => false end.
Definition is_bad (c : cls) : bool := match c with Bad => true | _ => false end.

Fixpoint nodupb {X} (eqb : X -> X -> bool) (l : list X) : bool :=
  match l with
  | [] => true
  | x :: r => negb (existsb (eqb x) r) && nodupb eqb r
  end.
Definition count_key (k : akey) (ms : list assign) : nat :=
  length (filter (fun m => akey_eqb k (akey_of m)) ms).

(* keyword names are pairwise distinct: guaranteed by Python, a precondition everywhere *)
Definition distinct_keywords (kw : dict) : bool := nodupb str_eqb (map fst kw).

(* valid: every element names an attribute and no attribute is named twice *)
Definition valid (args : list value) (kw : dict) : bool :=
  distinct_keywords kw && forallb is_good (classes args kw) &&
  nodupb akey_eqb (map akey_of (goods (classes args kw))).
(* the attributes a specification names (order is irrelevant when it is valid) *)
Definition named (args : list value) (kw : dict) : atts :=
  fold_left (fun a m => apply_assign m a) (goods (classes args kw)) no_atts.

(* the catalogue of invalid specifications: some element is Bad (a non-string
   positional, an unknown or misspelt name, an unknown keyword, a bad fg=/bg= value:
   unknown name, 'on_' name, wrong case, out-of-range int, None, a bool), or
   fg / bg is named twice by any two spellings; everything else is arbitrary *)
Inductive invalid (args : list value) (kw : dict) : Prop :=
| Inv_bad : In Bad (classes args kw) -> invalid args kw
| Inv_fg_twice : (2 <= count_key KFg (goods (classes args kw)))%nat -> invalid args kw
| Inv_bg_twice : (2 <= count_key KBg (goods (classes args kw)))%nat -> invalid args kw.
Definition invalidb (args : list value) (kw : dict) : bool :=
  existsb is_bad (classes args kw) ||
  Nat.leb 2 (count_key KFg (goods (classes args kw))) ||
  Nat.leb 2 (count_key KBg (goods (classes args kw))).

(* ---- copy_with_new_str / shared_atts ---------------------------------------------------- *)
(* uniformly formatted: every run, empty ones included, has the same effective attributes *)
Definition uniform (f : fmtstr) (st : sgr) : bool := forallb (fun c => sgr_eqb (eff (c_a c)) st) f.
Definition assigns_of (a : atts) : list assign :=
  match a_fg a with Some c => [AFg c] | None => [] end ++
  match a_bg a with Some c => [ABg c] | None => [] end ++
  flat_map (fun k => match get_style k a with Some b => [ASt k b] | None => [] end) all_styles.
(* every character of [cs] shows every attribute reported in [a] *)
Definition all_cells_have (a : atts) (cs : list cell) : bool :=
  forallb (fun m => forallb (fun cl => cell_has m (snd cl)) cs) (assigns_of a).

(* ---- the fmtfuncs helpers: which positional name a helper stands for ------------------- *)
Definition n_plain : str := [112; 108; 97; 105; 110].
Definition n_on_dark : str := [111; 110; 95; 100; 97; 114; 107].
(* red(x) = fmtstr(x, 'red'), on_blue(x) = fmtstr(x, 'on_blue'), bold(x) = fmtstr(x, 'bold'),
   plain(x) = fmtstr(x), on_dark = deprecated name of on_black; helper names are exact *)
Definition positional_names : list str :=
  map color_name all_colors ++ map (fun c => n_on ++ color_name c) all_colors ++ map style_name all_styles.
Definition func_args (name : str) : option (list value) :=
  if str_eqb name n_plain then Some []
  else if str_eqb name n_on_dark then Some [VStr (n_on ++ color_name Black)]
  else if mem_str name positional_names then Some [VStr name]
  else None.
Definition all_func_names : list str := n_plain :: n_on_dark :: positional_names.
