(* Reference notions for C03 / C20, stated over the generated tables with the
   simplest list functions; nothing here calls the decoder model (only its
   types [keynames], [outcome], the trusted codec model Utf8.v and the
   "x%02X" formatter are shared).  No proofs. *)
From Curtsies Require Import Model.Base Gen.Tables Model.Utf8 Model.Keys Model.KeyMap.
Local Open Scope N_scope.

(* ---- shapes: what a naming mode must not change ------------------------ *)
Inductive shape := SKey | SMore | SErr (e : exn).
Definition shape_of (o : outcome) : shape :=
  match o with Key _ => SKey | More => SMore | Err e => SErr e end.
Definition shape_eqb (a b : shape) : bool :=
  match a, b with
  | SKey, SKey | SMore, SMore => true
  | SErr e, SErr e' => exn_eqb e e'
  | _, _ => false
  end.
Definition is_err (o : outcome) : bool := match o with Err _ => true | _ => false end.
Definition is_more (o : outcome) : bool := match o with More => true | _ => false end.

(* ---- the tables as sets of byte sequences ------------------------------ *)
Fixpoint is_prefix (p s : list N) : bool :=
  match p, s with
  | [], _ => true
  | a :: p', b :: s' => if a =? b then is_prefix p' s' else false
  | _ :: _, [] => false
  end.
Definition proper_prefix (p s : list N) : bool := if is_prefix p s then (length p <? length s)%nat else false.

Definition table_keys : list (list N) := map fst curtsies_names ++ map fst curses_names.
Definition starts_esc (k : list N) : bool := match k with b :: _ => b =? 27 | [] => false end.
Definition mem (s : list N) (l : list (list N)) : bool := existsb (bytes_eqb s) l.
Definition is_table_seq (s : list N) : bool := mem s table_keys.

(* [s] can still grow into a recognised sequence: it is a non-empty proper
   prefix of an ESC-initiated table sequence (what KEYMAP_PREFIXES is meant to hold) *)
Definition growable (s : list N) : bool :=
  nonempty s && existsb (fun k => if starts_esc k then proper_prefix s k else false) table_keys.

(* the proper non-empty prefixes, enumerated *)
Definition proper_prefixes (k : list N) : list (list N) :=
  map (fun i => firstn i k) (seq 1 (length k - 1)).
Definition spec_prefixes : list (list N) :=
  flat_map (fun k => if starts_esc k then proper_prefixes k else []) table_keys.

Definition assoc (t : list (list N * str)) (s : list N) : option str :=
  match find (fun e => bytes_eqb (fst e) s) t with Some e => Some (snd e) | None => None end.

(* ---- names --------------------------------------------------------------
   the name a sequence must be reported under in each naming mode: its name in
   that mode's table; otherwise the text it decodes to; (curses naming only)
   an undecodable single byte is written xHH; bytes naming: the bytes. *)
Definition name_ok (enc : encoding) (mode : keynames) (s : list N) (n : str) : bool :=
  match mode with
  | BYTES => str_eqb n s
  | CURTSIES =>
      match assoc curtsies_names s with
      | Some v => str_eqb n v
      | None => match decode enc s with Some u => str_eqb n u | None => false end
      end
  | CURSES =>
      match assoc curses_names s with
      | Some v => str_eqb n v
      | None =>
          match decode enc s with
          | Some u => str_eqb n u
          | None => match s with [b] => str_eqb n (hexname b) | _ => false end
          end
      end
  end.
Definition named (enc : encoding) (mode : keynames) (s : list N) (o : outcome) : bool :=
  match o with Key n => name_ok enc mode s n | _ => false end.

(* ---- characters ---------------------------------------------------------- *)
(* [s] is a non-empty proper prefix of a well-formed utf-8 character *)
Fixpoint upending (st : ustate) (s : list N) : bool :=
  match s with
  | [] => match st with UNeed _ _ _ _ => true | UGround => false end
  | b :: r =>
      match ustep st b with
      | Some (UNeed n lo hi acc, _) => upending (UNeed n lo hi acc) r
      | _ => false
      end
  end.
Definition char_prefix (enc : encoding) (s : list N) : bool :=
  match enc with Utf8 => nonempty s && upending UGround s | _ => false end.
(* [s] is the encoding of exactly one character *)
Definition one_char (enc : encoding) (s : list N) : option N :=
  match decode enc s with Some [c] => Some c | _ => None end.

(* ---- the known finding F-C03 (DESIGN section 6), as a predicate on the input:
   the bytes before the last one can still grow into a recognised sequence and
   the last byte is >= 0x80, encodings utf-8 and ascii *)
Definition fc03_point (s : list N) : bool := growable (removelast s) && (128 <=? last s 0).
Definition fc03_family (enc : encoding) (s : list N) : bool :=
  negb (encoding_eqb enc Latin1) && fc03_point s.

(* utf-8: the single bytes >= 0x80 are 8-bit Meta keys in the table AND possible
   lead bytes; by design they count as recognised only when they end a read *)
Definition meta_collision (enc : encoding) (s : list N) : bool :=
  encoding_eqb enc Utf8 && match s with [b] => 128 <=? b | _ => false end.

(* ---- what the property demands of ONE decoder query --------------------
   [s] = the pending bytes (all proper prefixes of [s] having been answered
   "more"), [full] = the read ends here.  RAny where the property says nothing
   (bytes that are neither recognised sequences nor characters nor prefixes of them). *)
Inductive req := RKey | RMore | RNoErr | RAny.

(* [g] = growable s, [fp] = fc03_point s, [tbl] = s is a table sequence *)
Definition required_with (g fp tbl : bool) (enc : encoding) (full : bool) (s : list N) : req :=
  if (max_keypress_size <? length s)%nat then RAny
  else if negb (encoding_eqb enc Latin1) && fp
  then RNoErr                       (* ESC-prefix + character must not fail: violated, finding F-C03 *)
  else if g then
    (* may be the beginning of a longer recognised sequence: wait while more is
       buffered, report (under its table name if it has one) when the read ends *)
    if full then RKey else RMore
  else if tbl then
    (* a recognised sequence that cannot grow: one keypress, at once, under its table name *)
    if meta_collision enc s && negb full then RNoErr else RKey
  else
    match one_char enc s with
    | Some c => RKey                                      (* every character as itself *)
    | None => if char_prefix enc s && negb full then RMore (* inside a character: more *)
              else RAny
    end.

Definition required (enc : encoding) (full : bool) (s : list N) : req :=
  required_with (growable s) (fc03_point s) (is_table_seq s) enc full s.

Definition req_ok (r : req) (enc : encoding) (mode : keynames) (s : list N) (o : outcome) : bool :=
  match r with
  | RKey => named enc mode s o
  | RMore => is_more o
  | RNoErr => negb (is_err o)
  | RAny => true
  end.

Definition req_shape_ok (r : req) (sh : shape) : bool :=
  match r, sh with
  | RKey, SKey | RMore, SMore | RNoErr, SKey | RNoErr, SMore | RAny, _ => true
  | _, _ => false
  end.

Definition prop_ok (enc : encoding) (mode : keynames) (full : bool) (s : list N) (o : outcome) : bool :=
  req_ok (required enc full s) enc mode s o.

(* ---- the closed classification of the one-step tree ---------------------
   node = pending bytes [p] (empty, or a member of KEYMAP_PREFIXES) followed by
   one byte [b] *)
Definition expected_step_with (g : bool) (enc : encoding) (full : bool) (p : list N) (b : N) : shape :=
  if nonempty p && (128 <=? b) && negb (encoding_eqb enc Latin1) then SErr UnicodeDecodeError   (* F-C03 *)
  else if g then (if full then SKey else SMore)
  else if encoding_eqb enc Utf8 && is_nil p && in_range 192 253 b && negb full then SMore
                                               (* a lead byte by the five masks of could_be_unfinished_utf8 *)
  else SKey.
Definition expected_step (enc : encoding) (full : bool) (p : list N) (b : N) : shape :=
  expected_step_with (growable (p ++ [b])) enc full p b.

(* ---- streams --------------------------------------------------------------
   a token = a byte sequence meant as one keypress *)
Definition results := (res (list str) * res (list str) * res (list str))%type.   (* curtsies, curses, bytes *)

(* a token after which the decoder must cut, and before which it must have cut:
   a table sequence that cannot grow (not an 8-bit Meta byte under utf-8), or a
   character that is not a table sequence *)
Definition atomic (enc : encoding) (t : list N) : bool :=
  negb (growable t) && negb (fc03_family enc t) && (length t <=? max_keypress_size)%nat &&
  ((is_table_seq t && negb (meta_collision enc t)) ||
   match one_char enc t with Some _ => true | None => false end).

(* a token that is valid input in the property's sense *)
Definition valid_token (enc : encoding) (t : list N) : bool :=
  ((is_table_seq t && starts_esc t) || match one_char enc t with Some _ => true | None => false end).

Definition is_ok {X} (r : res X) : bool := match r with Ok _ => true | Raise _ => false end.

Fixpoint names_ok (enc : encoding) (mode : keynames) (ks : list (list N)) (ns : list str) : bool :=
  match ks, ns with
  | [], [] => true
  | k :: ks', n :: ns' => name_ok enc mode k n && names_ok enc mode ks' ns'
  | _, _ => false
  end.

(* the pending bytes at some point are growable and the next byte is >= 0x80:
   decided on the BYTES-mode answer [ks] (keys delivered before the failure are
   not visible when the implementation raised, so this is judged on the input:
   some ESC-initiated growable infix directly followed by a high byte) *)
Fixpoint has_fc03_point_from (pre : list (list N)) (s : list N) : bool :=
  match s with
  | [] => false
  | b :: r =>
      ((128 <=? b) && existsb growable pre) ||
      has_fc03_point_from (map (fun p => p ++ [b]) ([] :: pre)) r
  end.
Definition has_fc03_point (enc : encoding) (buf : list N) : bool :=
  negb (encoding_eqb enc Latin1) && has_fc03_point_from [] buf.

(* what the property demands of a whole read [concat toks] decoded to the end *)
Definition stream_ok (enc : encoding) (toks : list (list N)) (r : results) : bool :=
  let buf := concat toks in
  let '(rc, rs, rb) := r in
  (* never fails on valid input *)
  (if forallb (valid_token enc) toks then is_ok rc && is_ok rs && is_ok rb else true) &&
  match rb with
  | Raise _ => true
  | Ok ks =>
      (* lossless *)
      str_eqb (concat ks) buf &&
      (* never broken up, never merged *)
      (if forallb (atomic enc) toks then list_eqb str_eqb ks toks else true) &&
      (* same cuts, right names, in the other two modes *)
      match rc with Ok ns => names_ok enc CURTSIES ks ns | Raise _ => false end &&
      match rs with Ok ns => names_ok enc CURSES ks ns | Raise _ => false end
  end &&
  (* a failure is the same failure in all modes *)
  match rb with
  | Raise e => res_eqb (fun _ _ => false) rc (Raise e) && res_eqb (fun _ _ => false) rs (Raise e)
  | Ok _ => true
  end.

(* ---- C20: config-file names ----------------------------------------------- *)
Definition reachable (n : str) : bool := existsb (fun e => str_eqb (snd e) n) curtsies_names.

Definition letters : list N := map N.of_nat (seq 97 26).                 (* a..z *)
Definition printable_nonspace : list N := map N.of_nat (seq 33 94).      (* ! .. ~ *)
Definition valid_config_names : list str :=
  map (fun c => [67; 45; c]) letters ++                                    (* C-a .. C-z *)
  map (fun c => [77; 45; c]) printable_nonspace ++                         (* M-<char> *)
  map (fun n => 70 :: decimal (N.of_nat n)) (seq 1 12) ++                  (* F1 .. F12 *)
  map fst specials.

(* the config name maps to a non-empty tuple of names, each carried by a table sequence *)
Definition config_ok (r : res (list str)) : bool :=
  match r with Ok (n :: ns) => forallb reachable (n :: ns) | _ => false end.
(* for arbitrary (possibly malformed) names: KeyError or a tuple of strings *)
Definition config_loose_ok (r : res (list str)) : bool :=
  match r with Ok _ => true | Raise KeyError => true | Raise _ => false end.

(* ---- well-formed multi-byte utf-8 characters by byte ranges ----------------
   (Unicode Table 3-7, listed independently of the decoder automaton) *)
Definition wf2 (b0 b1 : N) : bool := in_range 194 223 b0 && is_cont b1.
Definition wf3 (b0 b1 b2 : N) : bool :=
  (((b0 =? 224) && in_range 160 191 b1) || (in_range 225 236 b0 && is_cont b1) ||
   ((b0 =? 237) && in_range 128 159 b1) || (in_range 238 239 b0 && is_cont b1)) && is_cont b2.
Definition wf4 (b0 b1 b2 b3 : N) : bool :=
  (((b0 =? 240) && in_range 144 191 b1) || (in_range 241 243 b0 && is_cont b1) ||
   ((b0 =? 244) && in_range 128 143 b1)) && is_cont b2 && is_cont b3.
Definition cp2 (b0 b1 : N) : N := (b0 - 192) * 64 + (b1 - 128).
Definition cp3 (b0 b1 b2 : N) : N := (b0 - 224) * 4096 + (b1 - 128) * 64 + (b2 - 128).
Definition cp4 (b0 b1 b2 b3 : N) : N := (b0 - 240) * 262144 + (b1 - 128) * 4096 + (b2 - 128) * 64 + (b3 - 128).

(* the key a character must be reported as: itself (its bytes under BYTES naming) *)
Definition char_key (mode : keynames) (bs : list N) (c : N) : str :=
  match mode with BYTES => bs | _ => [c] end.
