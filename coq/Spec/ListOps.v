(* Reference list operations the FmtStr properties C06 / C09 (and later C04, C15,
   C16) are judged against: what Python's built-in sequence operations do on a
   plain list of items.  Trusted reference semantics, independent of the
   models; no proofs here.

     pyslice l a b      l[a:b]   (a, b : option Z; None = bound omitted; step 1)
     pyindex l i        l[i]     (None = IndexError)
     list_splice l x s e         l[:s] + x + l[e:]   for naturals s, e
     repeat_list l n    l * n
     join_lists sep xs  sep.join(xs)                                              *)
From Coq Require Import List ZArith Bool.
Import ListNotations.

Section ListOps.
Context {A : Type}.

(* slice(a, b).indices(n) for step None: one bound.  [dflt] is the value of an
   omitted bound (0 for the start, n for the stop).  A negative bound counts
   from the end; the result is clipped into [0, n]. *)
Definition slice_bound (n : Z) (dflt : Z) (b : option Z) : Z :=
  match b with
  | None => dflt
  | Some x => if (x <? 0)%Z then Z.max 0 (x + n) else Z.min x n
  end.

(* l[a:b] : the items at positions start <= i < stop (none if stop <= start) *)
Definition pyslice (l : list A) (a b : option Z) : list A :=
  let n := Z.of_nat (length l) in
  let start := slice_bound n 0%Z a in
  let stop := slice_bound n n b in
  firstn (Z.to_nat (stop - start)) (skipn (Z.to_nat start) l).

(* l[i] for an int i: IndexError (None) outside [-n, n); -1 is the last item *)
Definition pyindex (l : list A) (i : Z) : option A :=
  let n := Z.of_nat (length l) in
  if ((i <? - n)%Z || (n <=? i)%Z)%bool then None
  else nth_error l (Z.to_nat (i mod n)).

(* l[:s] + x + l[e:] for 0 <= s, e.  (s past the end appends.) *)
Definition list_splice (l x : list A) (s e : nat) : list A :=
  firstn s l ++ x ++ skipn e l.

(* l * n *)
Definition repeat_list (l : list A) (n : nat) : list A := concat (repeat l n).

(* sep.join(xs) *)
Definition join_lists (sep : list A) (xs : list (list A)) : list A :=
  match xs with
  | [] => []
  | x :: r => x ++ flat_map (fun y => sep ++ y) r
  end.

End ListOps.

(* ---- reference for FmtStr.setslice_with_length at the level of items -------------
   (used by C09's model facts and by C04): pad [x] with [blank]s on the left when
   the replaced range starts past the end of [l], pad on the right up to the
   width e - s of the range when [l] continues after it (too long a value is an
   AssertionError there), splice, and reject a result longer than [limit]. *)
From Curtsies Require Import Model.Base.

Definition setslice_ref {A} (blank : A) (l x : list A) (s e : nat) (limit : Z) : res (list A) :=
  let n := length l in
  let x1 := repeat blank (s - n) ++ x in
  bind (if Nat.ltb e n then
          if Nat.leb (length x1) (e - s) then Ok (x1 ++ repeat blank (e - s - length x1))
          else Raise AssertionError
        else Ok x1)
       (fun x2 => let r := list_splice l x2 s e in
                  if (limit <? Z.of_nat (length r))%Z then Raise ValueError else Ok r).
