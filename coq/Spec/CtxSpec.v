(* C12: what "leaving a context restores everything" means.  Reference relations
   only (no reference to how the managers work): a relation between the
   environment before and after at the level of the model's environment, and its
   executable counterpart on observed values (what the harness snapshots on a
   real pty: tcgetattr, F_GETFL, getsignal, the wake-up descriptor, /proc/self/fd,
   and the reference terminal after replaying the bytes written). *)
From Curtsies Require Import Model.Base Spec.Sgr Spec.Term Model.Ctx.
From Coq Require Import Arith.
Close Scope N_scope.
Local Open Scope nat_scope.

(* ---- on environments ------------------------------------------------------------ *)
Definition trigger_owned (p : nat * owner) : Prop := exists obj, snd p = OTrig obj.

(* tty attributes, file status flags, SIGINT handler and wake-up descriptor identical to
   before; the descriptor table identical except for pipes of threadsafe_event_trigger
   callbacks created meanwhile (they belong to the Input object and stay open: documented
   behaviour of the library, see DESIGN.md C12) *)
Definition restore_eq (e e' : env) : Prop :=
  e_tty e' = e_tty e /\ e_flags e' = e_flags e /\ e_handler e' = e_handler e /\ e_wakeup e' = e_wakeup e /\
  exists pipes, e_fds e' = pipes ++ e_fds e /\ Forall trigger_owned pipes.

(* repeated use leaks nothing *)
Definition no_leak (e e' : env) : Prop := e_fds e' = e_fds e.

(* the cursor is visible again, the alternate screen has been left, and (for the window that
   uses the alternate screen) the main screen with its scrollback is what it was *)
Definition term_restored (fullscreen : bool) (t t' : term) : Prop :=
  t_visible t' = true /\ t_in_alt t' = false /\ (fullscreen = true -> t_main t' = t_main t).

(* between requests the stream is never left non-blocking: at every moment of a run that is
   not inside a Nonblocking region the file status flags are the initial ones *)
Definition flags_outside_nonblocking (f0 : flags) (tr : list entry) : Prop :=
  forall l e, In (0, l, e) tr -> e_flags e = f0.

(* ---- conditions on programs ------------------------------------------------------- *)
(* every cursor query made by a CursorAwareWindow.__enter__ is answered properly *)
Definition enters_ok : prog -> bool :=
  prog_all (fun m => match m with MCursorAware _ _ ok => ok | _ => true end) (fun _ => true).

Definition alt_cmd (k : cmd) : bool := match k with AltOn | AltOff => true | _ => false end.
(* no FullscreenWindow inside and no direct switching of screens by the body *)
Definition alt_free : prog -> bool :=
  prog_all (fun m => match m with MFullscreen _ => false | _ => true end)
           (fun a => match a with Write ks => negb (existsb alt_cmd ks) | _ => true end).

(* no threadsafe_event_trigger created *)
Definition no_triggers : prog -> bool :=
  prog_all (fun _ => true) (fun a => match a with OpenPipe _ => false | _ => true end).

(* no Nonblocking region opened by the user's own code *)
Definition is_window (m : mgr) : bool :=
  match m with MBaseWindow _ | MFullscreen _ | MCursorAware _ _ _ => true | _ => false end.

(* ---- on observed values ----------------------------------------------------------- *)
Record obs := mkObs {
  o_tty : tty; o_flags : flags; o_handler : handler; o_wakeup : option nat;
  o_fds : list nat }.

Definition observe (e : env) : obs :=
  mkObs (e_tty e) (e_flags e) (e_handler e) (e_wakeup e) (map fst (e_fds e)).

Definition tty_eqb (a b : tty) : bool :=
  Bool.eqb (ty_icrnl a) (ty_icrnl b) && Bool.eqb (ty_echo a) (ty_echo b) && Bool.eqb (ty_icanon a) (ty_icanon b)
  && N.eqb (ty_vmin a) (ty_vmin b) && N.eqb (ty_vtime a) (ty_vtime b)
  && N.eqb (ty_vstart a) (ty_vstart b) && N.eqb (ty_vstop a) (ty_vstop b)
  && list_eqb N.eqb (ty_rest a) (ty_rest b).

Definition flags_eqb (a b : flags) : bool :=
  Bool.eqb (fl_nonblock a) (fl_nonblock b) && N.eqb (fl_rest a) (fl_rest b).

Definition handler_eqb (a b : handler) : bool :=
  match a, b with
  | HDfl, HDfl | HIgn, HIgn | HPyDefault, HPyDefault | HNone, HNone => true
  | HUser x, HUser y | HInput x, HInput y => x =? y
  | _, _ => false
  end.

Definition mem (n : nat) (l : list nat) : bool := existsb (Nat.eqb n) l.
Definition subset (a b : list nat) : bool := forallb (fun x => mem x b) a.
Definition same_set (a b : list nat) : bool := subset a b && subset b a && (length a =? length b).

Definition core_eqb (a b : obs) : bool :=
  tty_eqb (o_tty a) (o_tty b) && flags_eqb (o_flags a) (o_flags b)
  && handler_eqb (o_handler a) (o_handler b) && opt_eqb Nat.eqb (o_wakeup a) (o_wakeup b).

(* [ntrig] = number of trigger callbacks created meanwhile (two descriptors each) *)
Definition restore_eqb (ntrig : nat) (before after : obs) : bool :=
  core_eqb before after
  && subset (o_fds before) (o_fds after)
  && (length (o_fds after) =? length (o_fds before) + 2 * ntrig).

Definition obs_eqb (a b : obs) : bool := core_eqb a b && same_set (o_fds a) (o_fds b).

(* the main buffer, scrollback included, as far as anything can have been drawn *)
Definition main_rows (t : term) : list (list cell) :=
  map (fun r => map (fun c => b_doc (t_main t) r c) (seq 0 (t_w t))) (seq 0 (b_base (t_main t) + t_h t)).

Definition main_eqb (t t' : term) : bool :=
  (b_base (t_main t) =? b_base (t_main t')) && (t_h t =? t_h t') && (t_w t =? t_w t')
  && rows_eqb (main_rows t) (main_rows t').

Definition term_restoredb (fullscreen : bool) (t t' : term) : bool :=
  t_visible t' && negb (t_in_alt t') && (if fullscreen then main_eqb t t' else true).
