(* Reference definitions for C05 / C17, independent of the model (Model/Parse.v)
   and of the code's regular expressions.  Executable, no proofs.

   Part 1: an ECMA-48 escape-sequence scanner.  It marks, for every character of
   a string, whether it belongs to an escape sequence:
     - a control sequence: CSI (ESC [ or the 8-bit CSI 155), parameter bytes
       0x30-0x3f, intermediate bytes 0x20-0x2f, one final byte 0x40-0x7e;
     - otherwise a two-byte sequence ESC Fe with Fe in 0x40-0x5f (this includes a
       lone ESC [ whose control sequence is malformed or truncated).
   A lone ESC, a lone 155 and every other character are ordinary text.
   Part 2: the grammars named by the properties' quantifiers. *)
From Curtsies Require Import Model.Base.
Local Open Scope N_scope.

(* ---- Part 1: escape spans ------------------------------------------------- *)
Definition in_rng (lo hi c : N) : bool := (lo <=? c) && (c <=? hi).

(* after the introducer: number of characters up to and including the final byte;
   [inter] = an intermediate byte has been seen (no parameter byte may follow) *)
Fixpoint csi_end (inter : bool) (s : str) : option nat :=
  match s with
  | [] => None
  | c :: r =>
      if in_rng 48 63 c then (if inter then None else option_map S (csi_end false r))
      else if in_rng 32 47 c then option_map S (csi_end true r)
      else if in_rng 64 126 c then Some 1%nat
      else None
  end.

(* length of the escape sequence that starts at the head of [s]; 0 = none starts here *)
Definition span_len (s : str) : nat :=
  match s with
  | [] => O
  | c :: r =>
      if c =? 155 then match csi_end false r with Some n => S n | None => O end
      else if c =? 27 then
        match r with
        | [] => O
        | d :: r' =>
            if d =? 91 then match csi_end false r' with Some n => S (S n) | None => 2%nat end
            else if in_rng 64 95 d then 2%nat
            else O
        end
      else O
  end.

(* true = the character is part of an escape sequence *)
Fixpoint esc_mask_from (skip : nat) (s : str) : list bool :=
  match s with
  | [] => []
  | c :: r =>
      match skip with
      | S k => true :: esc_mask_from k r
      | O => match span_len s with
             | S k => true :: esc_mask_from k r
             | O => false :: esc_mask_from O r
             end
      end
  end.
Definition esc_mask (s : str) : list bool := esc_mask_from O s.

Fixpoint select (keep : list bool) (s : str) : str :=
  match keep, s with
  | k :: keep', c :: s' => if k then c :: select keep' s' else select keep' s'
  | _, _ => []
  end.

(* the characters outside every escape sequence *)
Definition outside (s : str) : str := select (map negb (esc_mask s)) s.

Fixpoint mask_le (a b : list bool) : bool :=       (* pointwise a -> b, same length *)
  match a, b with
  | [], [] => true
  | x :: a', y :: b' => (negb x || y) && mask_le a' b'
  | _, _ => false
  end.

Definition is_nil_str (t : str) : bool := match t with [] => true | _ => false end.

(* [t] is [s] with characters removed, all of them marked in [mask]
   (decision procedure for:  exists keep, t = select keep s /\ unmarked characters are kept) *)
Fixpoint removes_only (mask : list bool) (s t : str) : bool :=
  match s, mask with
  | [], _ => is_nil_str t
  | c :: s', m :: mask' =>
      (* `if` rather than && / ||: evaluation inside Coq is call-by-value *)
      if (match t with
          | x :: t' => if c =? x then removes_only mask' s' t' else false
          | [] => false
          end)
      then true
      else if m then removes_only mask' s' t else false
  | _ :: _, [] => false
  end.

(* a numeric control sequence: CSI, then nothing or decimal numbers separated by
   single ';', no intermediate bytes, one final byte.  Length incl. introducer. *)
Fixpoint num_params_end (need_digit seen_digit : bool) (s : str) : option nat :=
  match s with
  | [] => None
  | c :: r =>
      if in_rng 48 57 c then option_map S (num_params_end false true r)
      else if c =? 59 then (if seen_digit then option_map S (num_params_end true false r) else None)
      else if in_rng 64 126 c then (if need_digit then None else Some 1%nat)
      else None
  end.
Definition numeric_csi_len (s : str) : option nat :=
  match s with
  | [] => None
  | c :: r =>
      if c =? 155 then option_map S (num_params_end false false r)
      else if c =? 27 then
        match r with
        | d :: r' => if d =? 91 then option_map (fun n => S (S n)) (num_params_end false false r') else None
        | [] => None
        end
      else None
  end.

Definition nat_opt_eqb (a : option nat) (b : nat) : bool :=
  match a with Some x => Nat.eqb x b | None => false end.

(* every escape sequence of [s] is a numeric control sequence *)
Fixpoint all_numeric_from (skip : nat) (s : str) : bool :=
  match s with
  | [] => true
  | c :: r =>
      match skip with
      | S k => all_numeric_from k r
      | O => match span_len s with
             | S k => nat_opt_eqb (numeric_csi_len s) (S k) && all_numeric_from k r
             | O => all_numeric_from O r
             end
      end
  end.
Definition all_numeric (s : str) : bool := all_numeric_from O s.

Fixpoint has_esc_lb (s : str) : bool :=             (* ESC [ occurs in s *)
  match s with
  | c :: r => match r with d :: _ => ((c =? 27) && (d =? 91)) || has_esc_lb r | [] => false end
  | [] => false
  end.

(* ---- Part 2: grammars ------------------------------------------------------------ *)
(* C05: (text | ESC [ p1;...;pn m)* with supported parameters, n >= 0 *)
Inductive gtok := GText (t : str) | GSgr (ps : list N).

Definition supported_codes : list N :=
  [0; 1; 2; 3; 4; 5; 7; 30; 31; 32; 33; 34; 35; 36; 37; 39; 40; 41; 42; 43; 44; 45; 46; 47; 49].

(* decimal numeral of a number below 100 *)
Definition dec (n : N) : str := if n <? 10 then [48 + n] else [48 + n / 10; 48 + n mod 10].

Fixpoint join_params (ps : list N) : str :=
  match ps with
  | [] => []
  | p :: r => match r with [] => dec p | _ => dec p ++ 59 :: join_params r end
  end.

Definition sgr_seq (ps : list N) : str := 27 :: 91 :: join_params ps ++ [109].

Definition flatten_tok (t : gtok) : str :=
  match t with GText t => t | GSgr ps => sgr_seq ps end.
Definition flatten (toks : list gtok) : str := flat_map flatten_tok toks.

Definition supported_code (p : N) : bool := existsb (N.eqb p) supported_codes.
Definition supported_tok (t : gtok) : bool :=
  match t with GText t => clean_str t | GSgr ps => forallb supported_code ps end.
Definition supported (toks : list gtok) : bool := forallb supported_tok toks.

(* C17: text interleaved with numeric control sequences; a parameter is any
   non-empty string of ASCII digits (leading zeros, any length); [eight] selects
   the 8-bit introducer *)
Inductive ctok := CText (t : str) | CCsi (eight : bool) (params : list str) (cmd : char).

Fixpoint join_with (sep : char) (l : list str) : str :=
  match l with
  | [] => []
  | p :: r => match r with [] => p | _ => p ++ sep :: join_with sep r end
  end.

Definition is_nonempty {X} (l : list X) : bool := match l with [] => false | _ => true end.

Definition ctok_ok (t : ctok) : bool :=
  match t with
  | CText t => clean_str t
  | CCsi _ ps cmd => forallb (fun p => is_nonempty p && forallb (in_rng 48 57) p) ps && in_rng 64 126 cmd
  end.
Definition ctoks_ok (toks : list ctok) : bool := forallb ctok_ok toks.

Definition cflatten_tok (t : ctok) : str :=
  match t with
  | CText t => t
  | CCsi eight ps cmd => (if eight then [155] else [27; 91]) ++ join_with 59 ps ++ [cmd]
  end.
Definition cflatten (toks : list ctok) : str := flat_map cflatten_tok toks.
Definition ctexts (toks : list ctok) : str :=
  flat_map (fun t => match t with CText t => t | CCsi _ _ _ => [] end) toks.
Definition is_csi7 (t : ctok) : bool := match t with CCsi false _ _ => true | _ => false end.
Definition is_csi8 (t : ctok) : bool := match t with CCsi true _ _ => true | _ => false end.
