(* The context in which the generated slicing algorithms of curtsies/formatstring.py
   (Gen/PureFmt.v: FmtStr.__getitem__, FmtStr.divides, width_aware_slice,
   FmtStr.width_aware_slice, the getters Chunk.s, Chunk.atts, Chunk.__len__, and FmtStr.splice,
   append, setslice_with_length, setitem, __add__, __radd__) are run by the reference
   interpreter Spec/PyMini.v.  The contexts are strata: a generated method may call the
   generated methods of the strata below it ([ctxF3]: splice, __add__, __radd__ -- they read
   self.divides -- and join; [ctxF4]: append, setslice_with_length -- they call splice, __add__,
   __radd__ -- and __mul__, whose sum() adds with __add__; [ctxF5]: setitem -- it calls
   setslice_with_length).

   OBJECTS.  A Chunk is  VRec "Chunk" [("_s", str); ("_atts", dict)]  -- its two instance
   attributes; a FmtStr is  VRec "FmtStr" [("chunks", list of Chunks)]  -- the instance
   attribute the algorithms read (the four cache slots _unicode/_len/_s/_width are not
   represented: see FmtStr.__len__ / .s / .width below).  There is no attribute assignment
   in the subset, so objects never change and sharing is invisible.

   GENERATED, run by the same interpreter (nothing assumed):
     normalize_slice, interval_overlap      (Gen/Pure.v; tied in Proofs/PureTieSlice.v, PureTieOverlap.v)
     Chunk.s, Chunk.atts, Chunk.__len__     (property getters / method of Chunk: `return self._s` ...)
     width_aware_slice                      (callee of FmtStr.width_aware_slice)

   ORACLES -- the only behaviour that is assumed; each is validated against CPython by the
   correspondence pass harness/purecorr.py, which runs the real methods on enumerated FmtStrs:
     Chunk(s, atts)       a Chunk with _s = s and _atts = the dict atts ({} when atts is empty /
                          None / omitted); ValueError when s is not a str.     [Chunk.__init__]
     FmtStr( *parts)      a FmtStr whose chunks is a new list of the arguments. [FmtStr.__init__]
     fmtstr(s)            for a str s WITHOUT "\x1b[" and "\x9b": FmtStr(Chunk(s)) -- one
                          unformatted run (the parsing branch of from_str is C05/C17's subject:
                          any other argument is an error outcome here, not a guess).
     len(fs)              [FmtStr.__len__, memoised in the object] the sum of len(chunk.s).
     fs.s                 [FmtStr.s, memoised] the concatenation of the chunk texts.
     fs.width             [FmtStr.width, memoised] the sum of chunk.width, raising what the first
                          failing chunk.width raises.
     chunk.width          [Chunk.width] wcswidth(s); ValueError when s is not empty and that is < 0.
     wcwidth(c)           [cwcwidth, a C library] = wc c for a one-character str: [wc] is a
                          PARAMETER of the context; the tie theorems hold for every wc.
     wcswidth(s) / wcswidth(s, None)
                          [cwcwidth] the sum of wc over s, or -1 as soon as one wc is negative
                          (Model/Width.v [wcswidth], the same function the C10 theorems use).
   The memoised ones are oracles because their code assigns to self._len / _s / _width,
   which is outside the subset; that the memoisation is transparent is C13's subject.
   Executable definitions only, no proofs. *)
From Coq Require Import String.
From Curtsies Require Import Model.Base Gen.Pure Gen.PureFmt Spec.PyMini Model.Slice Model.Width.
Local Open Scope string_scope.
Local Open Scope Z_scope.

(* ---- reading objects ------------------------------------------------------------------ *)
Definition chunk_str (v : val) : option (list N) :=
  match v with
  | VRec cls flds =>
      if String.eqb cls "Chunk" then
        match lookup "_s" flds with Some (VStr s) => Some s | _ => None end
      else None
  | _ => None
  end.

Fixpoint chunk_strs (l : list val) : option (list (list N)) :=
  match l with
  | [] => Some []
  | v :: l' => match chunk_str v, chunk_strs l' with
               | Some s, Some ss => Some (s :: ss)
               | _, _ => None
               end
  end.

Definition fmt_strs (v : val) : option (list (list N)) :=
  match v with
  | VRec cls flds =>
      if String.eqb cls "FmtStr" then
        match lookup "chunks" flds with Some (VList cs) => chunk_strs cs | _ => None end
      else None
  | _ => None
  end.

(* ---- constructors ---------------------------------------------------------------------- *)
Definition mk_chunk (s : list N) (atts : list (val * val)) : val :=
  VRec "Chunk" [("_s", VStr s); ("_atts", VDict atts)].
Definition mk_fmtstr (chunks : list val) : val := VRec "FmtStr" [("chunks", VList chunks)].

Definition oracle_Chunk (args : list val) : res val :=
  match args with
  | [VStr s] | [VStr s; VNone] => Ok (mk_chunk s [])
  | [VStr s; VDict d] => Ok (mk_chunk s d)
  | [VStr _; _] => Raise OtherError              (* other mappings: not modelled *)
  | [_] | [_; _] => Raise ValueError             (* "unicode string required" *)
  | _ => Raise OtherError
  end.

Definition oracle_FmtStr (args : list val) : res val := Ok (mk_fmtstr args).

Definition oracle_fmtstr (args : list val) : res val :=
  match args with
  | [VStr s] => if has_esc_intro s then Raise OtherError else Ok (mk_fmtstr [mk_chunk s []])
  | _ => Raise OtherError
  end.

(* ---- the model's values as objects ----------------------------------------------------------
   an attribute dictionary of the model (Model/Base.v [atts]) as the Python dict: fg / bg hold
   30..37 / 40..47, a style key holds True / False; keys in one fixed order (a dict's order
   is not observable by the algorithms: they pass the dict on, whole) *)
Definition color_index (k : color) : Z :=
  match k with Black => 0 | Red => 1 | Green => 2 | Yellow => 3 | Blue => 4 | Magenta => 5 | Cyan => 6 | Gray => 7 end.
Definition embed_atts (a : atts) : list (val * val) :=
  let col := fun (key : string) (base : Z) (o : option color) =>
               match o with Some k => [(VStr (codes key), VInt (base + color_index k))] | None => [] end in
  let sty := fun (key : string) (o : option bool) =>
               match o with Some b => [(VStr (codes key), VBool b)] | None => [] end in
  (col "fg" 30 (a_fg a) ++ col "bg" 40 (a_bg a) ++ sty "bold" (a_bold a) ++ sty "dark" (a_dark a)
   ++ sty "italic" (a_italic a) ++ sty "underline" (a_underline a) ++ sty "blink" (a_blink a)
   ++ sty "invert" (a_invert a))%list.
Definition embed_chunk (c : chunk) : val := mk_chunk (c_s c) (embed_atts (c_a c)).
Definition embed_fmtstr (f : fmtstr) : val := mk_fmtstr (map embed_chunk f).

(* ---- memoised members of FmtStr ---------------------------------------------------------- *)
Definition sum_lengths (ss : list (list N)) : Z :=
  fold_left (fun acc s => acc + Z.of_nat (List.length s)) ss 0.

Definition oracle_FmtStr_len (args : list val) : res val :=
  match args with
  | [v] => match fmt_strs v with Some ss => Ok (VInt (sum_lengths ss)) | None => Raise OtherError end
  | _ => Raise OtherError
  end.

Definition oracle_FmtStr_s (args : list val) : res val :=
  match args with
  | [v] => match fmt_strs v with Some ss => Ok (VStr (concat ss)) | None => Raise OtherError end
  | _ => Raise OtherError
  end.

(* ---- generated callees (stratum 0: they call nothing of the module) -------------------------- *)
Definition sem_normalize_slice : list val -> res val := call py_normalize_slice.
Definition sem_interval_overlap : list val -> res val := call py_interval_overlap.
Definition sem_Chunk_s : list val -> res val := call py_Chunk_s.
Definition sem_Chunk_atts : list val -> res val := call py_Chunk_atts.
Definition sem_Chunk_len : list val -> res val := call py_Chunk_len.

Definition no_method (obj : val) (name : string) (arg : val) : res val := Raise OtherError.

(* what the algorithms that do not look at widths can call *)
Definition funs_obj : funs :=
  [ ("Chunk", oracle_Chunk); ("FmtStr", oracle_FmtStr); ("fmtstr", oracle_fmtstr);
    ("FmtStr.__len__", oracle_FmtStr_len); ("FmtStr.s", oracle_FmtStr_s);
    ("normalize_slice", sem_normalize_slice);
    ("interval_overlap", sem_interval_overlap);
    ("Chunk.s", sem_Chunk_s); ("Chunk.atts", sem_Chunk_atts); ("Chunk.__len__", sem_Chunk_len) ].

(* FmtStr.__getitem__ and FmtStr.divides do not depend on character widths *)
Definition ctxF0 : ctx := mkCtx [] funs_obj no_method [] [].

(* ---- stratum 1 of the algorithms that do not look at widths: FmtStr.splice -------------------
   self.divides is the generated property getter, run in the context above; Chunk and FmtStr
   are CLASSES of the module (isinstance(x, FmtStr): x is a FmtStr object; the translator checks
   that they have no subclasses); Chunk may be called with keyword arguments, its parameter
   names are generated from the live class (Gen/PureFmt.v [py_signatures]) *)
Definition sem_FmtStr_divides : list val -> res val := call_in ctxF0 py_FmtStr_divides.
Definition ctxF3 : ctx :=
  mkCtx [] (("FmtStr.divides", sem_FmtStr_divides) :: funs_obj) no_method py_classes py_signatures.

(* ---- stratum 2: the methods that call splice (append, setslice_with_length) and, through
   `str + fs` / `fs + str`, FmtStr.__add__ / __radd__; stratum 3: setitem, which calls
   setslice_with_length.  A METHOD of a class is the entry "Class.name()" of the context (a
   property is "Class.name"): obj.name(args) runs it on obj :: args, and a + b with a FmtStr on
   one side runs "FmtStr.__add__()" / "FmtStr.__radd__()" (Spec/PyMini.v [call_method], [bin_in]).
   All of them are generated trees run by the interpreter; nothing is assumed here. *)
Definition sem_FmtStr_splice : list val -> res val := call_in ctxF3 py_FmtStr_splice.
Definition sem_FmtStr_add : list val -> res val := call_in ctxF3 py_FmtStr_add.
Definition sem_FmtStr_radd : list val -> res val := call_in ctxF3 py_FmtStr_radd.
Definition ctxF4 : ctx :=
  mkCtx [] (("FmtStr.splice()", sem_FmtStr_splice) :: ("FmtStr.__add__()", sem_FmtStr_add)
            :: ("FmtStr.__radd__()", sem_FmtStr_radd) :: funs_obj) no_method py_classes py_signatures.
Definition sem_FmtStr_setslice_with_length : list val -> res val := call_in ctxF4 py_FmtStr_setslice_with_length.
Definition ctxF5 : ctx :=
  mkCtx [] (("FmtStr.setslice_with_length()", sem_FmtStr_setslice_with_length) :: funs_obj) no_method
        py_classes py_signatures.

(* an argument that may be a str or a FmtStr; an optional int *)
Definition embed_operand (o : operand) : val :=
  match o with OStr s => VStr s | OFmt g => embed_fmtstr g end.
Definition embed_optZ (o : option Z) : val :=
  match o with Some z => VInt z | None => VNone end.

(* ---- widths ------------------------------------------------------------------------------ *)
Section WithWidths.
Variable wc : char -> Z.

Definition oracle_wcwidth (args : list val) : res val :=
  match args with
  | [VStr [ch]] => Ok (VInt (wc ch))
  | _ => Raise OtherError
  end.

Definition oracle_wcswidth (args : list val) : res val :=
  match args with
  | [VStr s] | [VStr s; VNone] => Ok (VInt (wcswidth wc s))
  | _ => Raise OtherError
  end.

Definition str_width (s : list N) : res Z :=
  let w := wcswidth wc s in
  if (Z.of_nat (List.length s) >? 0) && (w <? 0) then Raise ValueError else Ok w.

Definition oracle_Chunk_width (args : list val) : res val :=
  match args with
  | [v] => match chunk_str v with
           | Some s => match str_width s with Ok w => Ok (VInt w) | Raise e => Raise e end
           | None => Raise OtherError
           end
  | _ => Raise OtherError
  end.

Fixpoint sum_widths (ss : list (list N)) : res Z :=
  match ss with
  | [] => Ok 0
  | s :: ss' => match str_width s with
                | Raise e => Raise e
                | Ok w => match sum_widths ss' with Ok t => Ok (w + t) | Raise e => Raise e end
                end
  end.

Definition oracle_FmtStr_width (args : list val) : res val :=
  match args with
  | [v] => match fmt_strs v with
           | Some ss => match sum_widths ss with Ok w => Ok (VInt w) | Raise e => Raise e end
           | None => Raise OtherError
           end
  | _ => Raise OtherError
  end.

(* ---- the contexts -------------------------------------------------------------------------- *)
Definition funs_width : funs :=
  [ ("wcwidth", oracle_wcwidth); ("wcswidth", oracle_wcswidth);
    ("Chunk.width", oracle_Chunk_width); ("FmtStr.width", oracle_FmtStr_width) ].

(* stratum 1: the module-level width_aware_slice *)
Definition ctxF1 : ctx := mkCtx [] ((funs_width ++ funs_obj)%list) no_method [] [].
Definition sem_width_aware_slice : list val -> res val := call_in ctxF1 py_width_aware_slice.

(* stratum 2: FmtStr.width_aware_slice, which calls the module-level function of that name *)
Definition ctxF2 : ctx := mkCtx [] (("width_aware_slice", sem_width_aware_slice) :: (funs_width ++ funs_obj)%list) no_method [] [].
End WithWidths.
