(* Reference notions for C10 / C11: what occupies each terminal column.
   Independent of the models (list functions only), no proofs.

   [wc] is the width of a character in columns (cwcwidth.wcwidth); the properties
   consider characters of width 0 (combining), 1 and 2 (double-width). *)
From Curtsies Require Import Model.Base.
Local Open Scope Z_scope.

(* one terminal column: a whole narrow character, or one half of a wide one *)
Inductive col :=
| Full (c : char) (s : sgr)
| LeftH (c : char) (s : sgr)
| RightH (c : char) (s : sgr).

Definition col_eqb (a b : col) : bool :=
  match a, b with
  | Full c s, Full c' s' | LeftH c s, LeftH c' s' | RightH c s, RightH c' s' =>
      N.eqb c c' && sgr_eqb s s'
  | _, _ => false
  end.

(* what remains visible of a stretch of columns cut out of a line: a half whose
   other half is not part of the stretch becomes a space in that character's
   graphic state *)
Fixpoint cut (l : list col) : list col :=
  match l with
  | [] => []
  | Full c s :: r => Full c s :: cut r
  | LeftH c s :: RightH c' s' :: r => LeftH c s :: RightH c' s' :: cut r
  | LeftH c s :: r => Full 32%N s :: cut r
  | RightH c s :: r => Full 32%N s :: cut r
  end.

(* the columns a, a+1, ..., b-1 of a line, as displayed on their own *)
Definition col_slice (a b : Z) (l : list col) : list col :=
  cut (firstn (Z.to_nat (b - a)) (skipn (Z.to_nat a) l)).

Inductive subseq {A : Type} : list A -> list A -> Prop :=
| sub_nil : subseq [] []
| sub_skip x a b : subseq a b -> subseq a (x :: b)
| sub_take x a b : subseq a b -> subseq (x :: a) (x :: b).

(* decision procedure used by the correspondence check: [a] is a sub-sequence of [b] *)
Fixpoint subseqb (a b : list cell) : bool :=
  match b with
  | [] => match a with [] => true | _ => false end
  | y :: b' =>
      match a with
      | [] => true
      | x :: a' => if cell_eqb x y then subseqb a' b' else subseqb a b'
      end
  end.

(* annotated output of a wrap: every emitted cell is either a cell of the input
   or a padding cell added by the wrap *)
Inductive tag := Orig | Pad.
Definition acell := (cell * tag)%type.
Definition is_orig (x : acell) : bool := match snd x with Orig => true | Pad => false end.
Definition erase (l : list acell) : list cell := map fst l.

(* input of the reference wrap: the cells, optionally with the ends of runs marked *)
Inductive item := Ch (x : cell) | RunEnd.

Section Columns.
Variable wc : char -> Z.

Definition expand (x : cell) : list col :=
  if wc (fst x) =? 1 then [Full (fst x) (snd x)]
  else if wc (fst x) =? 2 then [LeftH (fst x) (snd x); RightH (fst x) (snd x)]
  else [].

(* the column-expanded cell list *)
Definition colcells_of (cs : list cell) : list col := flat_map expand cs.
Definition colcells (f : fmtstr) : list col := colcells_of (cells f).

Definition zero_width (x : cell) : bool := wc (fst x) =? 0.
Definition zw_cells (cs : list cell) : list cell := filter zero_width cs.

(* ---- greedy wrap (C11) ---------------------------------------------------
   Walk the cells keeping the current line and its width.  A cell that does not
   fit closes the line (padded with one space in that cell's graphic state if
   the line is one column short, which can only happen for a wide character)
   and starts the next one.  At a [RunEnd] mark a line that is exactly full is
   closed at once; without marks a full line is closed by the next cell that
   does not fit, so zero-width characters stay on the line of the character
   they follow.  The marks therefore only influence on which side of a line
   break a zero-width character lands. *)
Fixpoint wrap_items (columns : Z) (its : list item) (line : list acell) (wol : Z)
  : list (list acell) :=
  match its with
  | [] => match line with [] => [] | _ => [line] end
  | Ch x :: r =>
      let w := wc (fst x) in
      if wol + w >? columns then
        (if wol <? columns then line ++ [((32%N, snd x), Pad)] else line)
        :: wrap_items columns r [(x, Orig)] w
      else wrap_items columns r (line ++ [(x, Orig)]) (wol + w)
  | RunEnd :: r =>
      if wol =? columns then line :: wrap_items columns r [] 0
      else wrap_items columns r line wol
  end.

(* the reference: plain greedy wrap of the cells *)
Definition greedy_wrap (columns : Z) (cs : list cell) : list (list acell) :=
  wrap_items columns (map Ch cs) [] 0.

(* the same with the run ends marked *)
Definition items_of (f : fmtstr) : list item :=
  flat_map (fun ch => map Ch (chunk_cells ch) ++ [RunEnd]) f.
Definition wrap_runs (columns : Z) (f : fmtstr) : list (list acell) :=
  wrap_items columns (items_of f) [] 0.

Definition line_width (l : list cell) : Z := Z.of_nat (length (colcells_of l)).

(* ---- the statement of C11 as predicates on annotated lines ----------------- *)
(* every line but the last exactly [columns] wide, the last at most, none empty *)
Fixpoint widths_ok (columns : Z) (ls : list (list cell)) : Prop :=
  match ls with
  | [] => True
  | [l] => l <> [] /\ line_width l <= columns
  | l :: r => l <> [] /\ line_width l = columns /\ widths_ok columns r
  end.

(* paddings: a Pad cell is the last cell of its line, is a space, and the next
   line starts with an original double-width character in the same state *)
Definition no_pad (l : list acell) : Prop := forall x, In x l -> snd x = Orig.
Definition line_pads_ok (l : list acell) (next : option (list acell)) : Prop :=
  no_pad l \/
  exists body st, l = body ++ [((32%N, st), Pad)] /\ no_pad body /\
    exists c rest, next = Some (((c, st), Orig) :: rest) /\ wc c = 2.
Fixpoint pads_ok (ls : list (list acell)) : Prop :=
  match ls with
  | [] => True
  | l :: r => line_pads_ok l (hd_error r) /\ pads_ok r
  end.

(* ---- decidable versions for the correspondence check (on untagged lines) --- *)
Definition all_widths_012 (cs : list cell) : bool :=
  forallb (fun x => (0 <=? wc (fst x)) && (wc (fst x) <=? 2)) cs.

Fixpoint widths_okb (columns : Z) (ls : list (list cell)) : bool :=
  match ls with
  | [] => true
  | l :: r =>
      negb (Nat.eqb (length l) 0) &&
      match r with
      | [] => line_width l <=? columns
      | _ => (line_width l =? columns) && widths_okb columns r
      end
  end.

(* match one output line against the remaining input cells.  A cell that is not
   the next input cell is accepted only as padding: last of its line, a space,
   next input cell double-width in the same state.  [strict]: the first cell
   must be an input cell (the previous line ended with a padding).
   Result: remaining input and whether this line ended with a padding. *)
Fixpoint match_line (strict : bool) (line orig : list cell) : option (list cell * bool) :=
  match line with
  | [] => if strict then None else Some (orig, false)
  | x :: r =>
      match orig with
      | [] => None
      | y :: orig' =>
          if cell_eqb x y then match_line false r orig'
          else if strict then None
          else
            match r with
            | [] => if N.eqb (fst x) 32 && sgr_eqb (snd x) (snd y) && (wc (fst y) =? 2)
                    then Some (orig, true) else None
            | _ => None
            end
      end
  end.

Fixpoint conserve_from (strict : bool) (ls : list (list cell)) (orig : list cell) : bool :=
  match ls with
  | [] => negb strict && match orig with [] => true | _ => false end
  | l :: r =>
      match match_line strict l orig with
      | None => false
      | Some (orig', padded) => conserve_from padded r orig'
      end
  end.
Definition conserveb (ls : list (list cell)) (orig : list cell) : bool := conserve_from false ls orig.

(* equality up to the placement of zero-width characters: drop them, drop the
   lines that become empty *)
Definition strip_zw (ls : list (list cell)) : list (list cell) :=
  filter (fun l => negb (Nat.eqb (length l) 0))
         (map (filter (fun x => negb (zero_width x))) ls).

End Columns.

(* ---- C10: what a column slice keeps, character by character -----------------
   The column view above ([colcells], [col_slice]) cannot see zero-width
   characters: they occupy no column.  This part says, for every CHARACTER of the
   line (zero-width ones included), whether the slice of columns a .. b-1 holds it.
   It is a function of the cells alone: the run layout plays no part.
   List functions only; nothing here refers to the model. *)
Section SliceRef.
Variable wc : char -> Z.

(* every character together with the column at which it starts *)
Fixpoint positions (p : Z) (cs : list cell) : list (Z * cell) :=
  match cs with
  | [] => []
  | x :: r => (p, x) :: positions (p + wc (fst x)) r
  end.

Definition in_range (a b p : Z) : bool := (a <=? p) && (p <? b).

(* one character x starting at column s, of width w, against the range [a, b):
   - w > 0, wholly inside (a <= s and s + w <= b): kept as it is;
   - w = 2, exactly one of its two columns inside: a space in its graphic state;
   - w = 0: a zero-width character combines with the character that ENDS at its
     column s, so it belongs to the slice when a < s <= b.  At s = a it would
     combine with something left of the slice ("don't use zero-width characters
     at the beginning of a slice"); for a = b nothing is kept;
   - otherwise dropped. *)
Definition keep_char (a b : Z) (sx : Z * cell) : list cell :=
  let s := fst sx in
  let x := snd sx in
  let w := wc (fst x) in
  if w =? 0 then (if (a <? s) && (s <=? b) then [x] else [])
  else if (a <=? s) && (s + w <=? b) then [x]
  else if (w =? 2) && xorb (in_range a b s) (in_range a b (s + 1)) then [(32%N, snd x)]
  else [].

(* THE REFERENCE: the cells of columns a .. b-1 of a line whose first character
   starts at column p *)
Definition slice_ref_from (p a b : Z) (cs : list cell) : list cell :=
  flat_map (keep_char a b) (positions p cs).
Definition slice_ref (a b : Z) (cs : list cell) : list cell := slice_ref_from 0 a b cs.

(* the zero-width characters that belong to the range: a < column <= b *)
Definition mark_in_range (a b : Z) (sx : Z * cell) : bool :=
  zero_width wc (snd sx) && (a <? fst sx) && (fst sx <=? b).
Definition marks_in_range_from (p a b : Z) (cs : list cell) : list cell :=
  map snd (filter (mark_in_range a b) (positions p cs)).
Definition marks_in_range (a b : Z) (cs : list cell) : list cell := marks_in_range_from 0 a b cs.

End SliceRef.
