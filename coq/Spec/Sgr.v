(* Reference semantics (trusted, independent of the code's constants): what an
   ANSI terminal displays for a string that consists of text and SGR sequences.
   Any other escape sequence, any unknown parameter, makes the run fail (None),
   so success also says "nothing but SGR sequences apart from the text". *)
From Curtsies Require Import Model.Base.
Local Open Scope N_scope.

Inductive pstate :=
| Ground
| Esc                                   (* after ESC *)
| Csi (done : list N) (cur : option N). (* inside ESC [ : finished parameters (reversed), digits of the current one *)

Definition color_of_idx (n : N) : option color :=
  match n with
  | 0 => Some Black | 1 => Some Red | 2 => Some Green | 3 => Some Yellow
  | 4 => Some Blue | 5 => Some Magenta | 6 => Some Cyan | 7 => Some Gray
  | _ => None
  end.

Definition with_fg (v : option color) (s : sgr) : sgr :=
  mkSgr v (s_bg s) (s_bold s) (s_dark s) (s_italic s) (s_underline s) (s_blink s) (s_invert s).
Definition with_bg (v : option color) (s : sgr) : sgr :=
  mkSgr (s_fg s) v (s_bold s) (s_dark s) (s_italic s) (s_underline s) (s_blink s) (s_invert s).
Definition with_style (k : style) (s : sgr) : sgr :=
  match k with
  | Bold => mkSgr (s_fg s) (s_bg s) true (s_dark s) (s_italic s) (s_underline s) (s_blink s) (s_invert s)
  | Dark => mkSgr (s_fg s) (s_bg s) (s_bold s) true (s_italic s) (s_underline s) (s_blink s) (s_invert s)
  | Italic => mkSgr (s_fg s) (s_bg s) (s_bold s) (s_dark s) true (s_underline s) (s_blink s) (s_invert s)
  | Underline => mkSgr (s_fg s) (s_bg s) (s_bold s) (s_dark s) (s_italic s) true (s_blink s) (s_invert s)
  | Blink => mkSgr (s_fg s) (s_bg s) (s_bold s) (s_dark s) (s_italic s) (s_underline s) true (s_invert s)
  | Invert => mkSgr (s_fg s) (s_bg s) (s_bold s) (s_dark s) (s_italic s) (s_underline s) (s_blink s) true
  end.

(* ECMA-48 / xterm SGR parameters this library is concerned with *)
Definition apply_param (p : N) (s : sgr) : option sgr :=
  if p =? 0 then Some sgr_default
  else if p =? 1 then Some (with_style Bold s)
  else if p =? 2 then Some (with_style Dark s)
  else if p =? 3 then Some (with_style Italic s)
  else if p =? 4 then Some (with_style Underline s)
  else if p =? 5 then Some (with_style Blink s)
  else if p =? 7 then Some (with_style Invert s)
  else if (30 <=? p) && (p <=? 37) then Some (with_fg (color_of_idx (p - 30)) s)
  else if p =? 39 then Some (with_fg None s)
  else if (40 <=? p) && (p <=? 47) then Some (with_bg (color_of_idx (p - 40)) s)
  else if p =? 49 then Some (with_bg None s)
  else None.

Fixpoint apply_params (ps : list N) (s : sgr) : option sgr :=
  match ps with
  | [] => Some s
  | p :: r => match apply_param p s with Some s' => apply_params r s' | None => None end
  end.

Definition is_digit (c : char) : bool := (48 <=? c) && (c <=? 57).

Definition cur_val (cur : option N) : N := match cur with Some v => v | None => 0 end.

(* one character: emitted cell (if any), new graphic state, new parser state *)
Definition step (st : sgr) (ps : pstate) (c : char) : option (list cell * sgr * pstate) :=
  match ps with
  | Ground =>
      if c =? 27 then Some ([], st, Esc)
      else if c =? 155 then Some ([], st, Csi [] None)
      else Some ([(c, st)], st, Ground)
  | Esc => if c =? 91 then Some ([], st, Csi [] None) else None
  | Csi done cur =>
      if is_digit c then Some ([], st, Csi done (Some (10 * cur_val cur + (c - 48))))
      else if c =? 59 then Some ([], st, Csi (cur_val cur :: done) None)
      else if c =? 109 then
        match apply_params (rev (cur_val cur :: done)) st with
        | Some st' => Some ([], st', Ground)
        | None => None
        end
      else None
  end.

Fixpoint run (st : sgr) (ps : pstate) (s : str) : option (list cell * sgr * pstate) :=
  match s with
  | [] => Some ([], st, ps)
  | c :: r =>
      match step st ps c with
      | None => None
      | Some (o, st', ps') =>
          match run st' ps' r with
          | None => None
          | Some (o', st'', ps'') => Some (o ++ o', st'', ps'')
          end
      end
  end.

(* a whole string written to a terminal in its default state *)
Definition display (s : str) : option (list cell * sgr * pstate) := run sgr_default Ground s.

Definition pstate_eqb (a b : pstate) : bool :=
  match a, b with
  | Ground, Ground | Esc, Esc => true
  | Csi d c, Csi d' c' => list_eqb N.eqb d d' && opt_eqb N.eqb c c'
  | _, _ => false
  end.

(* the property's verdict on a terminal string: shows exactly [cs], ends in the default state *)
Definition displays_exactly (s : str) (cs : list cell) : bool :=
  match display s with
  | Some (o, st, Ground) => cells_eqb o cs && sgr_eqb st sgr_default
  | _ => false
  end.
