(* Correspondence for C05.  A case carries the input string, the implementation's
   FmtStr.from_str result and, depending on its kind, the grammar tokens the string
   was flattened from or the FmtStr it is the str() of. *)
From Curtsies Require Import Model.Base Gen.Tables Model.Render Model.Parse Spec.Sgr Spec.EscScan.
Local Open Scope N_scope.

Module C05.
Inductive case :=
| Grammar (toks : list gtok) (s : str) (r : res fmtstr)   (* s = the harness' flattening of toks *)
| Round (f : fmtstr) (s : str) (r : res fmtstr)           (* s = str(f) of the implementation *)
| Free (s : str) (r : res fmtstr).                        (* any string *)

Definition the_s (c : case) : str :=
  match c with Grammar _ s _ | Round _ s _ | Free s _ => s end.
Definition the_r (c : case) : res fmtstr :=
  match c with Grammar _ _ r | Round _ _ r | Free _ r => r end.

(* model = implementation: same exception class / exactly the same runs (texts and
   attribute dictionaries); and the Coq-side flattening / rendering is the string
   the implementation was given *)
Definition model_ok (c : case) : bool :=
  res_eqb fmtstr_eqb (from_str (the_s c)) (the_r c) &&
  match c with
  | Grammar toks s _ => str_eqb (flatten toks) s
  | Round f s _ => str_eqb (render f) s
  | Free _ _ => true
  end.

(* the property, judged on the implementation's output with the reference SGR interpreter *)
Definition spec_ok (c : case) : bool :=
  match c with
  | Grammar toks s r =>
      if supported toks then
        match display s, r with
        | Some (cs, _, Ground), Ok f => cells_eqb (cells f) cs
        | _, _ => false
        end
      else true
  | Round f s r =>
      if clean f then match r with Ok f' => cells_eqb (cells f') (cells f) | Raise _ => false end
      else true
  | Free _ _ => true
  end.
End C05.
