(* Correspondence for C11.  A case carries the widths cwcwidth reports
   (association list), the FmtStr, and for several values of `columns` what
   list(f.width_aware_splitlines(columns)) gave (lines as run lists, or the
   exception class). *)
From Curtsies Require Import Model.Base Model.Width Model.Wrap Spec.Columns.
Local Open Scope Z_scope.

Module C11.

Definition case := (list (char * Z) * fmtstr * list (Z * res (list fmtstr)))%type.

Definition lines_eqb (a b : list fmtstr) : bool :=
  list_eqb (fun x y => cells_eqb (cells x) (cells y)) a b.

(* model = implementation: same lines, per character; the fuel is not exhausted *)
Definition model_ok (c : case) : bool :=
  let '(al, f, qs) := c in
  let wc := wc_of al in
  forallb (fun q : Z * res (list fmtstr) =>
    match splitlines wc f (fst q) with
    | Some r => res_eqb lines_eqb r (snd q)
    | None => false
    end) qs.

(* the property, judged on the implementation's lines: widths, conservation with
   the padding rule, and agreement with the plain greedy wrap up to the placement
   of zero-width characters.  Not judged outside the quantifier (columns < 2,
   characters of negative width). *)
Definition spec_ok (c : case) : bool :=
  let '(al, f, qs) := c in
  let wc := wc_of al in
  if negb (all_widths_012 wc (cells f) && (wc 32%N =? 1)) then true
  else
    forallb (fun q : Z * res (list fmtstr) =>
      let columns := fst q in
      if columns <? 2 then true
      else
        match snd q with
        | Raise _ => false
        | Ok ls =>
            let lc := map cells ls in
            widths_okb wc columns lc
            && conserveb wc lc (cells f)
            && list_eqb cells_eqb (strip_zw wc lc)
                 (strip_zw wc (map erase (greedy_wrap wc columns (cells f))))
        end) qs.

End C11.
