(* Correspondence for C09: one splice-family call on concrete operands together
   with the implementation's result (cells, or the exception class). *)
From Curtsies Require Import Model.Base Spec.ListOps Model.Slice Model.Splice.
Local Open Scope Z_scope.

Module C09.
Inductive op :=
| Splice (f : fmtstr) (new : operand) (s : Z) (e : option Z)   (* f.splice(new, s[, e]) *)
| Append (f : fmtstr) (x : operand)                            (* f.append(x) *)
| SetSlice (f : fmtstr) (s e : Z) (fs : operand) (length : Z)  (* f.setslice_with_length(s, e, fs, length) *)
| SetItem (f : fmtstr) (i : Z) (fs : operand)                  (* f.setitem(i, fs) *).

Definition out := res (list cell).
Definition case := (op * out)%type.

Definition model (o : op) : res fmtstr :=
  match o with
  | Splice f new s e => Ok (splice f new s e)
  | Append f x => Ok (append f x)
  | SetSlice f s e fs n => setslice_with_length f s e fs n
  | SetItem f i fs => setitem f i fs
  end.

Definition model_ok (c : case) : bool :=
  match model (fst c), snd c with
  | Ok r, Ok cs => cells_eqb (cells r) cs
  | Raise e, Raise e' => exn_eqb e e'
  | _, _ => false
  end.

Definition blank : cell := (32%N, sgr_default).

(* the property on cells; [None] = outside its quantifier (negative start or
   end < start), where only model = implementation is checked *)
Definition spec (o : op) : option (res (list cell)) :=
  match o with
  | Splice f new s e =>
      let e' := match e with None => s | Some e => e end in
      if (0 <=? s) && (s <=? e')
      then Some (Ok (list_splice (cells f) (op_cells new) (Z.to_nat s) (Z.to_nat e')))
      else None
  | Append f x => Some (Ok (cells f ++ op_cells x))
  | SetSlice f s e fs n =>
      if (0 <=? s) && (s <=? e)
      then Some (setslice_ref blank (cells f) (op_cells fs) (Z.to_nat s) (Z.to_nat e) n)
      else None
  | SetItem f i fs =>
      if 0 <=? i
      then Some (setslice_ref blank (cells f) (op_cells fs) (Z.to_nat i) (Z.to_nat (i + 1))
                              (Z.of_nat (length (cells f))))
      else None
  end.

Definition spec_ok (c : case) : bool :=
  match spec (fst c), snd c with
  | None, _ => true
  | Some (Ok cs), Ok cs' => cells_eqb cs cs'
  | Some (Raise e), Raise e' => exn_eqb e e'
  | _, _ => false
  end.
End C09.
