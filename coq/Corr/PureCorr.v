(* Correspondence for the reference semantics Spec/PyMini.v: a case is a generated syntax
   tree (Gen/Pure.v), argument values, and what CPython returned for the real function on
   those arguments.  model_ok: the PyMini interpreter computes the same outcome.  This
   validates the trusted interpreter itself (the theorems of Proofs/PureTie.v are about
   it), on every run.  spec_ok is trivially true here: the properties are judged elsewhere. *)
From Curtsies Require Import Model.Base Spec.PyMini Gen.Pure.

Module PureCorr.
Record case := mkCase { c_fun : fundef; c_args : list val; c_expected : res val }.
Definition model_ok (c : case) : bool := res_val_eqb (call (c_fun c) (c_args c)) (c_expected c).
Definition spec_ok (c : case) : bool := true.
End PureCorr.
