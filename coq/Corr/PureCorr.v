(* Correspondence for the reference semantics Spec/PyMini.v: a case is a context
   (Spec/PyEnv.v; the empty one for functions that use nothing of their module), a generated
   syntax tree (Gen/Pure.v), argument values, and what CPython returned for the real function
   on those arguments.  model_ok: the PyMini interpreter computes the same outcome.  This
   validates the trusted interpreter itself and the oracles of the context (the theorems of
   Proofs/PureTie.v, Proofs/PureTieKeys.v are about them), on every run.
   spec_ok is trivially true here: the properties are judged elsewhere. *)
From Coq Require Import String.
From Curtsies Require Import Model.Base Spec.PyMini Gen.Pure Gen.PureFmt Spec.PyEnv Spec.PyEnvFmt Model.Width.

Module PureCorr.
Record case := mkCase { c_ctx : ctx; c_fun : fundef; c_args : list val; c_expected : res val }.
Definition model_ok (c : case) : bool := res_val_same (call_in (c_ctx c) (c_fun c) (c_args c)) (c_expected c).
Definition spec_ok (c : case) : bool := true.

(* compact notation for the arguments of get_key: a list of one-byte bytes objects, a
   member of Keynames *)
Definition bl (l : list N) : val := VList (map (fun b => VBytes [b]) l).
Definition kn (m : string) : val := VEnum "Keynames" m.
(* a FmtStr given by its runs (Model/Base.v literals), as the object the interpreter works on;
   a list of ints; the contexts of Spec/PyEnvFmt.v with the widths of the characters that are
   not one column wide given as an association list *)
Definition fs (f : fmtstr) : val := embed_fmtstr f.
Definition zl (l : list Z) : val := VList (map VInt l).
Definition cF1 (al : list (char * Z)) : ctx := ctxF1 (wc_of al).
Definition cF2 (al : list (char * Z)) : ctx := ctxF2 (wc_of al).
End PureCorr.
