(* Correspondence for C01: the case carries the implementation's run list and
   the implementation's str(f). *)
From Curtsies Require Import Model.Base Gen.Tables Model.Render Spec.Sgr.
Local Open Scope N_scope.

Module C01.
Definition case := (fmtstr * str)%type.
(* model = implementation: the model renders the same terminal string *)
Definition model_ok (c : case) : bool := str_eqb (render (fst c)) (snd c).
(* the property itself, judged on the implementation's string *)
Definition spec_ok (c : case) : bool := displays_exactly (snd c) (cells (fst c)).
End C01.
