(* Correspondence for C06: a case is one operation on concrete operands together
   with what the implementation returned: the per-character cells of the result
   and len(result), or the exception class. *)
From Curtsies Require Import Model.Base Spec.ListOps Model.Slice.
Local Open Scope Z_scope.

Module C06.
Inductive op :=
| Get (f : fmtstr) (ix : index)              (* f[ix] *)
| Add (f : fmtstr) (o : operand)             (* f + o *)
| Radd (f : fmtstr) (o : operand)            (* o + f   (f.__radd__(o)) *)
| Mul (f : fmtstr) (n : Z)                   (* f * n *)
| Join (sep : fmtstr) (items : list operand) (* sep.join(items) *).

(* cells of the result's runs, len(result), and the text as result.s reports it *)
Definition out := res (list cell * Z * str).
Definition case := (op * out)%type.

Definition model (o : op) : res fmtstr :=
  match o with
  | Get f ix => getitem f ix
  | Add f x => Ok (add f x)
  | Radd f x => Ok (radd f x)
  | Mul f n => Ok (mul f n)
  | Join sep items => Ok (join sep items)
  end.

(* model = implementation: same cells, same len(), same exception *)
Definition model_ok (c : case) : bool :=
  match model (fst c), snd c with
  | Ok r, Ok (cs, n, s) => cells_eqb (cells r) cs && (len r =? n) && str_eqb (text r) s
  | Raise e, Raise e' => exn_eqb e e'
  | _, _ => false
  end.

(* the property, on the operands' cells only.  [None] = the property says
   nothing (a slice with a step). *)
Definition spec (o : op) : option (res (list cell)) :=
  match o with
  | Get f (Idx i) =>
      Some (match pyindex (cells f) i with Some c => Ok [c] | None => Raise IndexError end)
  | Get f (Slice a b None) => Some (Ok (pyslice (cells f) a b))
  | Get f (Slice a b (Some _)) => None
  | Add f x => Some (Ok (cells f ++ op_cells x))
  | Radd f x => Some (Ok (op_cells x ++ cells f))
  | Mul f n => Some (Ok (repeat_list (cells f) (Z.to_nat n)))
  | Join sep items => Some (Ok (join_lists (cells sep) (map op_cells items)))
  end.

Definition spec_ok (c : case) : bool :=
  match spec (fst c), snd c with
  | None, _ => true
  | Some (Ok cs), Ok (cs', n, s) => cells_eqb cs cs' && (n =? Z.of_nat (length cs')) && str_eqb (map fst cs) s
  | Some (Raise e), Raise e' => exn_eqb e e'
  | _, _ => false
  end.
End C06.
