(* Correspondence for C03: each case carries an input and what the REAL
   implementation answered (events.get_key / events.decodable /
   events.could_be_unfinished_utf8 / the find_key loop of Input._send). *)
From Curtsies Require Import Model.Base Gen.Tables Model.Utf8 Model.Keys Model.KeyMap Spec.KeySpec.
Local Open Scope N_scope.

Module C03.

(* the six (naming mode, full) situations, in this order *)
Definition situations : list (keynames * bool) :=
  [(CURTSIES, false); (CURTSIES, true); (CURSES, false); (CURSES, true); (BYTES, false); (BYTES, true)].

Inductive case :=
| CGet (enc : encoding) (s : list N) (outs : list outcome)
      (* events.get_key(s, enc, keynames=m, full=f) for the six situations *)
| CStream (enc : encoding) (toks : list (list N)) (r : results)
      (* concat toks put into an Input with unget_bytes, send() until the buffer is empty, per naming mode *)
| CDecodable (enc : encoding) (s : list N) (b : bool)                (* events.decodable *)
| CUnfinished (enc : encoding) (s : list N) (r8 rc : res bool).
      (* events.could_be_unfinished_utf8(s), events.could_be_unfinished_char(s, enc) *)

Fixpoint outs_eqb (a b : list outcome) : bool :=
  match a, b with
  | [], [] => true
  | x :: a', y :: b' => outcome_eqb x y && outs_eqb a' b'
  | _, _ => false
  end.

Definition run_mode (enc : encoding) (mode : keynames) (buf : list N) : res (list str) :=
  match find_keys enc mode buf with
  | Ok (ks, _) => Ok (map fst ks)
  | Raise e => Raise e
  end.

Definition strs_eqb : list str -> list str -> bool := list_eqb str_eqb.

Definition model_ok (c : case) : bool :=
  match c with
  | CGet enc s outs =>
      outs_eqb (map (fun mf => get_key enc (fst mf) (snd mf) s) situations) outs
  | CStream enc toks (rc, rs, rb) =>
      let buf := concat toks in
      res_eqb strs_eqb (run_mode enc CURTSIES buf) rc &&
      res_eqb strs_eqb (run_mode enc CURSES buf) rs &&
      res_eqb strs_eqb (run_mode enc BYTES buf) rb
  | CDecodable enc s b => Bool.eqb (decodable enc s) b
  | CUnfinished enc s r8 rc =>
      res_eqb Bool.eqb (could_be_unfinished_utf8 s) r8 &&
      res_eqb Bool.eqb (could_be_unfinished_char enc s) rc
  end.

Fixpoint outs_prop (enc : encoding) (s : list N) (sits : list (keynames * bool)) (outs : list outcome) : bool :=
  match sits, outs with
  | [], [] => true
  | (m, f) :: sits', o :: outs' => prop_ok enc m f s o && outs_prop enc s sits' outs'
  | _, _ => false
  end.

(* the property judged on the implementation's answers *)
Definition spec_ok (c : case) : bool :=
  match c with
  | CGet enc s outs => outs_prop enc s situations outs
  | CStream enc toks r => stream_ok enc toks r
  | CDecodable _ _ _ => true          (* the codec is a trusted reference, not a property *)
  | CUnfinished _ _ _ _ => true
  end.

End C03.
