(* Correspondence for C04: a history of region assignments and reads on an FSArray;
   every step carries what the implementation did (raised or not, its rows
   afterwards / the value it returned). *)
From Curtsies Require Import Model.Base Spec.ListOps Model.Slice Model.Splice Model.FSArray Spec.Grid.
From Coq Require Import Lia.
Local Open Scope Z_scope.

Module C04.
Inductive init :=
| New (num_rows : nat) (cols : Z) (fill : atts)
| Arr (strings : list operand) (width : option Z) (fill : atts).

Inductive op :=
| OSet (ri ci : index) (v : value) (raised : bool) (rows_after : list fmtstr)
| OGet (ri ci : index) (result : res (list fmtstr))
| OGetRow (i : Z) (result : res fmtstr).

(* initial call, implementation's outcome (rows, num_columns), history *)
Definition case := (init * res (list fmtstr * Z) * list op)%type.

Definition row_cells_eqb (a b : list fmtstr) : bool := list_eqb cells_eqb (map cells a) (map cells b).
Definition same_shape {X Y} (a : res X) (b : res Y) : bool :=
  match a, b with Ok _, Ok _ | Raise _, Raise _ => true | _, _ => false end.

(* ---- model = implementation ---------------------------------------------------- *)
Fixpoint model_go (a : fsarr) (ops : list op) : bool :=
  match ops with
  | [] => true
  | OSet ri ci v raised rows' :: rest =>
      let '(a', r) := fsa_setitem a ri ci v in
      Bool.eqb (match r with Ok _ => false | Raise _ => true end) raised
      && row_cells_eqb (fa_rows a') rows' && model_go (with_rows a rows') rest
  | OGet ri ci result :: rest =>
      (match fsa_getitem a ri ci, result with
       | Ok x, Ok y => row_cells_eqb x y
       | Raise _, Raise _ => true
       | _, _ => false
       end) && model_go a rest
  | OGetRow i result :: rest =>
      (match fsa_getrow a i, result with
       | Ok x, Ok y => cells_eqb (cells x) (cells y)
       | Raise _, Raise _ => true
       | _, _ => false
       end) && model_go a rest
  end.

Definition model_ok (c : case) : bool :=
  let '(i, out, ops) := c in
  match i, out with
  | New n cols fill, Ok (rows, w) =>
      let a := fsa_new n cols fill in
      row_cells_eqb (fa_rows a) rows && (fa_cols a =? w) && model_go (with_rows a rows) ops
  | Arr strings width fill, Ok (rows, w) =>
      match fsarray_of strings width fill with
      | Ok a => row_cells_eqb (fa_rows a) rows && (fa_cols a =? w) && model_go (with_rows a rows) ops
      | Raise _ => false
      end
  | Arr strings width fill, Raise _ =>
      match fsarray_of strings width fill with Raise _ => true | Ok _ => false end
  | New _ _ _, Raise _ => false
  end.

(* ---- the property, judged on the implementation's own states ---------------------- *)
(* a simple (non-negative, explicit or defaulted) index as a half-open range *)
Definition simple_range (dflt_stop : option Z) (ix : index) : option (nat * nat) :=
  match ix with
  | Idx i => if 0 <=? i then Some (Z.to_nat i, Z.to_nat (i + 1)) else None
  | Slice a b None =>
      let lo := match a with Some x => Some x | None => Some 0 end in
      let hi := match b with Some x => Some x | None => dflt_stop end in
      match lo, hi with
      | Some x, Some y => if (0 <=? x) && (x <=? y) then Some (Z.to_nat x, Z.to_nat y) else None
      | _, _ => None
      end
  | Slice _ _ (Some _) => None
  end.

Definition grid_rows (w : Z) (rows : list fmtstr) : list (list cell) := grid_of (Z.to_nat w) (map cells rows).
Definition grid_eqb (a b : list (list cell)) : bool := list_eqb cells_eqb a b.

Definition inv_ok (w : Z) (rows : list fmtstr) : bool :=
  forallb (fun r => Z.of_nat (length (cells r)) <=? w) rows.

(* unchanged up to the old height, blank rows below *)
Definition only_grown (w : Z) (before after : list fmtstr) : bool :=
  grid_eqb (grid_rows w after)
           (grid_rows w before ++ repeat (repeat blank (Z.to_nat w)) (length after - length before)).

Definition set_spec (w : Z) (before : list fmtstr) (ri ci : index) (v : value) (raised : bool)
           (after : list fmtstr) : bool :=
  inv_ok w after &&
  (if raised then only_grown w before after else true) &&
  match simple_range None ri, simple_range (Some w) ci with
  | Some (r0, r1), Some (c0, c1) =>
      let items := map op_cells (value_items v) in
      let wn := Z.to_nat w in
      let nonempty := negb (Nat.eqb r0 r1) && negb (Nat.eqb c0 c1) in
      let in_width := Nat.leb c1 wn in
      let fits := forallb (fun x => Nat.leb (length x) (c1 - c0)) items in
      let count_ok := Nat.eqb (length items) (r1 - r0) in
      let rows_b := map cells before in
      (* a row that would reach past the array's width, or past the region into existing content *)
      let reaches := existsb (fun x => Nat.ltb wn (c0 + length x)) items in
      let spills :=
        existsb (fun p => Nat.ltb (c1 - c0) (length (snd p)) && Nat.ltb c1 (length (fst p)))
                (combine (firstn (r1 - r0) (skipn r0 (rows_b ++ repeat [] (r1 - length rows_b)))) items) in
      (* a bare str as the block of a region wider than one column is not one of the block forms the
         property speaks of (lists of str / FmtStr, FSArray); the code refuses it: only "an error changes
         nothing" (above) is demanded *)
      let str_for_wide := value_is_str v && Nat.ltb 1 (c1 - c0) in
      if negb nonempty then
        (* empty region: nothing but the downward growth happens, no error *)
        (if in_width then negb raised && only_grown w before after else true)
      else if str_for_wide then true
      else if in_width && count_ok && fits then
        negb raised &&
        grid_eqb (grid_rows w after)
                 (blit wn (grow wn (grid_rows w before) r1) items r0 r1 c0 c1)
      else if in_width && (negb count_ok || (count_ok && (reaches || spills))) then raised
      else true
  | _, _ => true
  end.

Definition get_spec (w : Z) (rows : list fmtstr) (ri ci : index) (result : res (list fmtstr)) : bool :=
  match simple_range (Some (Z.of_nat (length rows))) ri, simple_range (Some w) ci, result with
  | Some (r0, r1), Some (c0, c1), Ok got =>
      let region := map (fun row => firstn (c1 - c0) (skipn c0 row))
                        (firstn (r1 - r0) (skipn r0 (grid_rows w rows))) in
      if Nat.leb c1 (Z.to_nat w) && Nat.leb r1 (length rows) then
        list_eqb cells_eqb (map strip_blanks region) (map (fun f => strip_blanks (cells f)) got)
      else true
  | _, _, _ => true
  end.

Fixpoint spec_go (w : Z) (rows : list fmtstr) (ops : list op) : bool :=
  match ops with
  | [] => true
  | OSet ri ci v raised rows' :: rest => set_spec w rows ri ci v raised rows' && spec_go w rows' rest
  | OGet ri ci result :: rest => get_spec w rows ri ci result && spec_go w rows rest
  | OGetRow i result :: rest =>
      (match result, nth_error rows (Z.to_nat i) with
       | Ok f, Some r => if 0 <=? i then cells_eqb (cells f) (cells r) else true
       | Ok _, None => false
       | Raise _, Some _ => negb (0 <=? i)
       | Raise _, None => true
       end) && spec_go w rows rest
  end.

Definition spec_ok (c : case) : bool :=
  let '(i, out, ops) := c in
  match i, out with
  | New n cols _, Ok (rows, w) =>
      (w =? cols) && Nat.eqb (length rows) n && forallb (fun r => match cells r with [] => true | _ => false end) rows
      && spec_go w rows ops
  | Arr strings width fill, Ok (rows, w) =>
      (* the rows show the strings (a str row carries the constructor's formatting) *)
      list_eqb cells_eqb (map cells rows)
        (map (fun o => match o with OStr s => map (fun ch => (ch, eff fill)) s | OFmt f => cells f end) strings)
      && (match width with Some x => w =? x | None => w =? fold_left Z.max (map op_len strings) 0 end)
      && inv_ok w rows && spec_go w rows ops
  | Arr strings width _, Raise _ =>
      match width with Some x => existsb (fun o => op_len o >? x) strings | None => false end
  | New _ _ _, Raise _ => false
  end.
End C04.
