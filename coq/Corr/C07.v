(* Correspondence for C07: an initial terminal (scrollback, screen content, cursor),
   a history of renders and the exit of a CursorAwareWindow.  For every step the
   case carries the terminal commands the implementation wrote (tokenised bytes),
   its return value and its top_usable_row afterwards.  The commands are replayed
   on the reference terminal (Spec/Term.v); the result is compared
     - with the model's commands replayed on the same terminal (model_ok; in the
       thorough tier also with what a second, independent terminal emulator shows
       after the same bytes: a disagreement there means the tie through the
       reference terminal no longer holds),
     - with the property's reference relation Spec/Doc.v (spec_ok), which is
       computed without the model (its own top-usable-row recurrence). *)
From Curtsies Require Import Model.Base Gen.Tables Model.Render Spec.Sgr Spec.Term Spec.Show Spec.Doc
     Model.Fullscreen Model.CursorWin.
From Coq Require Import Arith.
Close Scope N_scope.
Local Open Scope nat_scope.

Module C07.
(* second opinion (thorough tier): document and cursor an independent terminal emulator
   (pyte.HistoryScreen) shows after the same bytes; None when it was not consulted *)
Definition second := option (list (list cell) * (nat * nat)).

Inductive op :=
| Render (array : list fmtstr) (cr cc : nat) (impl : list cmd) (ret top : nat) (snd_op : second).

(* base = lines already scrolled off; rows = the whole document (scrollback ++ screen,
   cells beyond the given ones blank); cursor; pending-wrap flag *)
Definition init := (nat * list (list cell) * (nat * nat) * bool)%type.

(* hide_cursor, keep_last_line, size, initial terminal, commands written by __enter__,
   the renders, commands written by __exit__ *)
Definition case := (bool * bool * (nat * nat) * init * list cmd * list op * (list cmd * second))%type.

(* literal helpers for the harness-written case files (nat arguments get nat_scope) *)
Definition Init (base : nat) (rows : list (list cell)) (r0 c0 : nat) (p : bool) : init := (base, rows, (r0, c0), p).
Definition Case (hide keep : bool) (h w : nat) (i : init) (enter : list cmd) (ops : list op) (exit : list cmd)
  (snd_op : second) : case :=
  (hide, keep, (h, w), i, enter, ops, (exit, snd_op)).
Definition Second (d : list (list cell)) (r c : nat) : second := Some (d, (r, c)).

(* the tokeniser clamps cursor addresses to 4999: row 1000000 of scroll_down arrives as 4999 *)
Definition far : nat := 4999.

Definition term0 (h w : nat) (i : init) : term :=
  let '(base, rows, (r0, c0), p) := i in
  mkTerm h w (mkBuf (doc_of_rows rows) base) (mkBuf (fun _ _ => blank) 0) false
         r0 c0 p sgr_default (0, 0, sgr_default) (0, 0, sgr_default) true.

Definition same_view (a b : term) : bool :=
  rows_eqb (doc a) (doc b) && (dbase a =? dbase b) && (t_row a =? t_row b) && (t_col a =? t_col b)
  && Bool.eqb (t_visible a) (t_visible b) && Bool.eqb (t_in_alt a) (t_in_alt b).

(* pyte does not track the faint attribute (SGR 2): it is masked on both sides *)
Definition undark (x : cell) : cell :=
  let g := snd x in
  (fst x, mkSgr (s_fg g) (s_bg g) (s_bold g) false (s_italic g) (s_underline g) (s_blink g) (s_invert g)).

(* the reference terminal and the second emulator show the same document and cursor *)
Definition agrees (t : term) (s : second) : bool :=
  match s with
  | None => true
  | Some (d, (r, c)) =>
      rows_eqb (map (map undark) (doc t)) (map (map undark) d) && (t_row t =? r) && (t_col t =? c)
  end.

(* what the window writes is itself compared, command by command (a row whose terminal
   string is empty leaves no token in the byte stream) *)
Definition cmd_eqb (a b : cmd) : bool :=
  match a, b with
  | Str x, Str y => str_eqb x y
  | Cup r c, Cup r' c' => (r =? r') && (c =? c')
  | Cha c, Cha c' => c =? c'
  | El0, El0 | El1, El1 | Ed0, Ed0 | Lf, Lf | Sc, Sc | Rc, Rc | Hide, Hide | Show, Show
  | AltOn, AltOn | AltOff, AltOff | Dsr, Dsr => true
  | _, _ => false
  end.
Definition norm (ks : list cmd) : list cmd :=
  filter (fun k => match k with Str [] => false | _ => true end) ks.
Definition same_cmds (a b : list cmd) : bool := list_eqb cmd_eqb (norm a) (norm b).

Definition blank_row (w : nat) (r : list cell) : bool := cells_eqb r (repeat blank w).

(* returns (model_ok, spec_ok, terminal after the last render, model window) ;
   [top] is the spec's own top usable row *)
Fixpoint go (hide : bool) (ws : cwwin) (top : nat) (t : term) (ops : list op) : bool * bool * term * cwwin :=
  match ops with
  | [] => (true, true, t, ws)
  | Render a cr cc impl ret_i top_i sec :: rest =>
      let '(mk, ws', ret_m) := cw_render far ws (t_h t) (t_w t) a (cr, cc) in
      match execs t impl with
      | None => (false, false, t, ws)
      | Some ti =>
          let m := match execs t mk with Some tm => same_view tm ti | None => false end
                   && same_cmds mk impl
                   && (ret_m =? ret_i) && (cw_top ws' =? top_i) && agrees ti sec in
          let n := length a in
          let h := t_h t in
          let s := rows_eqb (doc ti) (doc_after t top a)
                   && (dbase ti =? dbase t + surplus h top n)
                   && (ret_i =? pushed_off h top n)
                   && (top_i =? top_after h top n)
                   && (t_row ti =? cursor_row_after h top n cr) && (t_col ti =? cc)
                   && negb (t_in_alt ti) && Bool.eqb (t_visible ti) (negb hide)
                   && (t_h ti =? t_h t) && (t_w ti =? t_w t) in
          let '(m', s', tl, wl) := go hide ws' (top_after h top n) ti rest in
          (m && m', s && s', tl, wl)
      end
  end.

Definition exit_ok (keep : bool) (t te : term) : bool :=
  let kl := keep_lines keep t in
  rows_eqb (firstn kl (doc te)) (firstn kl (doc t))
  && forallb (blank_row (t_w t)) (skipn kl (doc te))
  && (dbase te =? dbase t + (if keep && (S (t_row t) =? t_h t) then 1 else 0))
  && t_visible te && negb (t_in_alt te).

Definition run_case (c : case) : bool * bool :=
  let '(hide, keep, (h, w), i, enter, ops, (exit, sec)) := c in
  let t0 := term0 h w i in
  let '(mk0, ws) := cw_enter hide keep (t_row t0) in
  match execs t0 enter, execs t0 mk0 with
  | Some ti, Some tm =>
      let s0 := same_view (with_visible (negb hide) t0) ti in    (* entering changes nothing but the cursor's visibility *)
      let '(m, s, tl, wl) := go hide ws (t_row t0) ti ops in
      match execs tl exit, execs tl (cw_exit wl) with
      | Some te, Some tme => (same_view tm ti && same_cmds mk0 enter && m && same_view tme te && same_cmds (cw_exit wl) exit
                                      && agrees te sec, s0 && s && exit_ok keep tl te)
      | _, _ => (false, false)
      end
  | _, _ => (false, false)
  end.

Definition model_ok (c : case) : bool := fst (run_case c).
Definition spec_ok (c : case) : bool := snd (run_case c).
End C07.
