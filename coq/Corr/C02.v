(* Correspondence for C02: a history of renders and resizes; for every render the
   case carries the terminal commands the implementation wrote. *)
From Curtsies Require Import Model.Base Gen.Tables Model.Render Spec.Sgr Spec.Term Spec.Show Model.Fullscreen.
From Coq Require Import Arith.
Close Scope N_scope.
Open Scope nat_scope.

Module C02.
Inductive op :=
| Render (array : list fmtstr) (cr cc : nat) (impl : list cmd)
| Resize (h w : nat) (junk : list (list cell)) (cr cc : nat) (pending : bool).

(* hide_cursor, initial size, commands written by __enter__, the history *)
Definition case := (bool * (nat * nat) * list cmd * list op)%type.

Definition term0 (h w : nat) : term :=
  mkTerm h w (mkBuf (fun _ _ => (120%N, sgr_default)) 3) (mkBuf (fun _ _ => blank) 0) false
         0 0 false sgr_default (0, 0, sgr_default) (0, 0, sgr_default) true.

Definition same_view (a b : term) : bool :=
  rows_eqb (screen_rows a) (screen_rows b) && (t_row a =? t_row b) && (t_col a =? t_col b)
  && Bool.eqb (t_visible a) (t_visible b) && (scrolled a =? scrolled b) && Bool.eqb (t_in_alt a) (t_in_alt b).

Definition resize (h w : nat) (junk : list (list cell)) (cr cc : nat) (p : bool) (t : term) : term :=
  let b := abuf t in
  let t1 := mkTerm h w (t_main t) (t_alt t) (t_in_alt t) (Nat.min cr (h - 1)) (Nat.min cc (w - 1)) p
                   (t_sgr t) (t_saved t) (t_saved_alt t) (t_visible t) in
  with_abuf (mkBuf (fun r c => if b_base b <=? r then doc_of_rows junk (r - b_base b) c else b_doc b r c) (b_base b)) t1.

(* returns (model_ok, spec_ok) *)
Fixpoint go (ws : fswin) (t : term) (ops : list op) : bool * bool :=
  match ops with
  | [] => (true, true)
  | Resize h w junk cr cc p :: rest => go ws (resize h w junk cr cc p t) rest
  | Render a cr cc impl :: rest =>
      let '(mk, ws') := fs_render ws (t_h t) (t_w t) a (cr, cc) in
      match execs t impl with
      | None => (false, false)
      | Some ti =>
          let m := match execs t mk with Some tm => same_view tm ti | None => false end in
          let s := rows_eqb (screen_rows ti) (show_rows (t_h t) (t_w t) a)
                   && (t_row ti =? cr) && (t_col ti =? cc) && (scrolled ti =? scrolled t)
                   && t_in_alt ti in
          let '(m', s') := go ws' ti rest in
          (m && m', s && s')
      end
  end.

Definition run_case (c : case) : bool * bool :=
  let '(hide, (h, w), enter, ops) := c in
  let ws := fs_init hide in
  match execs (term0 h w) enter, execs (term0 h w) (fs_enter ws) with
  | Some ti, Some tm =>
      let '(m, s) := go ws ti ops in (same_view tm ti && m, t_in_alt ti && s)
  | _, _ => (false, false)
  end.

Definition model_ok (c : case) : bool := fst (run_case c).
Definition spec_ok (c : case) : bool := snd (run_case c).
End C02.
