(* Correspondence for C10.  A case carries: the widths cwcwidth reports for the
   characters involved (association list, read at run time), the FmtStr (its
   runs), and a list of queries each with what the implementation returned. *)
From Curtsies Require Import Model.Base Model.Width Spec.Columns.
Local Open Scope Z_scope.

Module C10.

Inductive query :=
| QWidth (out : res Z)                      (* f.width *)
| QAt (n : Z) (out : res Z)                 (* f.width_at_offset(n) *)
| QSlice (ix : index) (out : res fmtstr).   (* f.width_aware_slice(ix) *)

Definition case := (list (char * Z) * fmtstr * list query)%type.

(* shorthands that keep the harness-written literals small *)
Definition QS (a b : Z) (out : res fmtstr) : query := QSlice (IxSlice (Some a) (Some b)) out.
Definition QK (a b : Z) (r : fmtstr) : query := QSlice (IxSlice (Some a) (Some b)) (Ok r).
Definition QA (n w : Z) : query := QAt n (Ok w).

Definition fs_cells_eqb (a b : fmtstr) : bool := cells_eqb (cells a) (cells b).

(* model = implementation, observed per character (cells) / as numbers / exception class *)
Definition model_ok (c : case) : bool :=
  let '(al, f, qs) := c in
  let wc := wc_of al in
  forallb (fun q =>
    match q with
    | QWidth out => res_eqb Z.eqb (fs_width wc f) out
    | QAt n out => res_eqb Z.eqb (width_at_offset wc f n) out
    | QSlice ix out => res_eqb fs_cells_eqb (fs_was wc f ix) out
    end) qs.

(* the property, judged on the implementation's answers.  Queries outside the
   property's quantifier (characters of negative width, negative or int indices,
   a > b) are not judged.  A slice is judged (1) by columns ([col_slice]: what each
   requested column shows), and (2) character by character ([slice_ref],
   [marks_in_range] of Spec/Columns.v: which characters, zero-width ones
   included, with which formatting) - a zero-width character that is dropped from
   the middle of the range, or kept at its start, changes no column and is only
   seen by (2). *)
Definition spec_ok (c : case) : bool :=
  let '(al, f, qs) := c in
  let wc := wc_of al in
  if negb (all_widths_012 wc (cells f) && (wc 32%N =? 1)) then true
  else
    let cc := colcells wc f in
    let W := Z.of_nat (length cc) in
    forallb (fun q =>
      match q with
      | QWidth out => res_eqb Z.eqb out (Ok W)
      | QAt n out =>
          if n <? 0 then true
          else res_eqb Z.eqb out
                 (Ok (Z.of_nat (length (colcells_of wc (firstn (Z.to_nat n) (cells f))))))
      | QSlice (IxSlice a b) out =>
          let a := match a with None => 0 | Some a => a end in
          let b := match b with None => W | Some b => b end in
          if (0 <=? a) && (a <=? b) then
            match out with
            | Ok r =>
                list_eqb col_eqb (colcells wc r) (col_slice a b cc)
                && (Z.of_nat (length (colcells wc r)) =? Z.min b W - Z.min a W)
                && subseqb (zw_cells wc (cells r)) (zw_cells wc (cells f))
                (* character by character, zero-width characters and formatting included:
                   the reference on the cells of f, whatever the run layout ... *)
                && cells_eqb (cells r) (slice_ref wc a b (cells f))
                (* ... hence exactly the zero-width characters with a < column <= b *)
                && cells_eqb (zw_cells wc (cells r)) (marks_in_range wc a b (cells f))
            | Raise _ => false
            end
          else true
      | QSlice (IxInt _) _ => true
      end) qs.

End C10.
