(* Correspondence for C20: naming modes side by side, and KeyMap.__getitem__. *)
From Curtsies Require Import Model.Base Gen.Tables Model.Utf8 Model.Keys Model.KeyMap Spec.KeySpec.
Local Open Scope N_scope.

Module C20.

Inductive case :=
| CModes (enc : encoding) (full : bool) (s : list N) (oc os ob : outcome)
      (* events.get_key(s, enc, keynames=curtsies / curses / bytes, full) *)
| CStreamModes (enc : encoding) (buf : list N) (r : results)
      (* the same buffer decoded by a real Input in the three naming modes *)
| CKeymap (name : str) (r : res (list str))                      (* configfile_keynames.keymap[name] *)
| CTables (term : str) (curtsies curses : list (list N * str)).
      (* events.CURTSIES_NAMES / CURSES_NAMES (sorted by key) of a fresh interpreter started with TERM=term *)

Definition row_eqb (a b : list N * str) : bool := str_eqb (fst a) (fst b) && str_eqb (snd a) (snd b).

Definition strs_eqb : list str -> list str -> bool := list_eqb str_eqb.

Definition run_mode (enc : encoding) (mode : keynames) (buf : list N) : res (list str) :=
  match find_keys enc mode buf with
  | Ok (ks, _) => Ok (map fst ks)
  | Raise e => Raise e
  end.

Definition model_ok (c : case) : bool :=
  match c with
  | CModes enc full s oc os ob =>
      outcome_eqb (get_key enc CURTSIES full s) oc &&
      outcome_eqb (get_key enc CURSES full s) os &&
      outcome_eqb (get_key enc BYTES full s) ob
  | CStreamModes enc buf (rc, rs, rb) =>
      res_eqb strs_eqb (run_mode enc CURTSIES buf) rc &&
      res_eqb strs_eqb (run_mode enc CURSES buf) rs &&
      res_eqb strs_eqb (run_mode enc BYTES buf) rb
  | CKeymap name r => res_eqb strs_eqb (keymap_get name) r
  | CTables _ curtsies curses =>
      (* the tables the theorems are about (Gen/Tables.v) are the tables under every TERM *)
      list_eqb row_eqb curtsies curtsies_names && list_eqb row_eqb curses curses_names
  end.

Definition key_ok (enc : encoding) (mode : keynames) (s : list N) (o : outcome) : bool :=
  match o with Key n => name_ok enc mode s n | _ => true end.

Definition spec_ok (c : case) : bool :=
  match c with
  | CModes enc full s oc os ob =>
      (* same shape in the three modes; bytes naming returns the bytes; names are that mode's names *)
      shape_eqb (shape_of oc) (shape_of ob) && shape_eqb (shape_of os) (shape_of ob) &&
      key_ok enc BYTES s ob && key_ok enc CURTSIES s oc && key_ok enc CURSES s os
  | CStreamModes enc buf (rc, rs, rb) =>
      match rb with
      | Ok ks =>
          str_eqb (concat ks) buf &&
          match rc with Ok ns => names_ok enc CURTSIES ks ns | Raise _ => false end &&
          match rs with Ok ns => names_ok enc CURSES ks ns | Raise _ => false end
      | Raise e => res_eqb (fun _ _ => false) rc (Raise e) && res_eqb (fun _ _ => false) rs (Raise e)
      end
  | CKeymap name r =>
      if is_nil name then res_eqb strs_eqb r (Ok [])                 (* unbound key -> nothing *)
      else if existsb (str_eqb name) valid_config_names then config_ok r
      else config_loose_ok r
  | CTables _ curtsies curses =>
      (* every sequence that has a curses-style name also has a curtsies name *)
      forallb (fun kv => existsb (fun kv' => str_eqb (fst kv) (fst kv')) curtsies) curses
  end.

End C20.
