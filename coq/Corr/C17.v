(* Correspondence for C17.  A case carries the input string and the outcomes of
   FmtStr.from_str(s) and fmtstr(s) of the implementation. *)
From Curtsies Require Import Model.Base Gen.Tables Model.Parse Spec.EscScan.
Local Open Scope N_scope.

Module C17.
Definition case := (str * res fmtstr * res fmtstr)%type.

Definition model_ok (c : case) : bool :=
  let '(s, r1, r2) := c in
  res_eqb fmtstr_eqb (from_str s) r1 && res_eqb fmtstr_eqb (fmtstr0 s) r2.

(* the property for one result, judged with the independent escape-sequence scanner *)
Definition good (s : str) (f : fmtstr) : bool :=
  let mask := esc_mask s in
  (* the text is s with characters removed, all of them inside escape sequences *)
  removes_only mask s (text f) &&
  (* no escape sequence at all: verbatim and unformatted *)
  (if forallb negb mask then cells_eqb (cells f) (plain_cells s) else true) &&
  (* only numeric control sequences: exactly s without them *)
  (if all_numeric s then str_eqb (text f) (outside s) else true).

Definition spec_ok (c : case) : bool :=
  let '(s, r1, r2) := c in
  match r1, r2 with
  | Ok f1, Ok f2 => good s f1 && good s f2
  | _, _ => false                                   (* never raises *)
  end.
End C17.
