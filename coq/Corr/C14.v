(* Correspondence for C14.  A case carries the input AND what the implementation
   returned (canonicalised by harness/props/c14.py):
   * Prog start ops impl obs : start value (str / FmtStr / something else; a FmtStr start may
     have been derived through the API with its memoised str/len/s/width already
     filled, the case carries its actual runs), a chain of formatting calls applied
     one after the other, the final outcome, and (str(result), result.s) as the
     implementation reports them;
   * Parse args kw impl  : parse_args called directly, the returned dict;
   * NewStr f s impl     : f.copy_with_new_str(s);
   * Shared f impl       : f.shared_atts.
   [impl = None] means: the implementation returned attributes outside the
   canonical form (e.g. bold=None); the model must then say "outside" too. *)
From Curtsies Require Import Model.Base Gen.Tables Model.Render Model.Atts Spec.Sgr Spec.AttSpec.
Local Open Scope N_scope.

Module C14.

Inductive op :=
| OFmt (args : list value) (kw : dict)                  (* fmtstr(x, *args, **kw) *)
| OFunc (name : str) (args : list value) (kw : dict)    (* fmtfuncs.<name>(x, *args, **kw) *)
| OCopy (a : atts)                                      (* x.copy_with_new_atts( **a) *)
| ORemove (keys : list str).                            (* x.new_with_atts_removed( *keys) *)

Inductive case :=
| Prog (start : strarg) (ops : list op) (impl : option (res fmtstr)) (obs : option (str * str))
| Parse (args : list value) (kw : dict) (impl : option (res atts))
| NewStr (f : fmtstr) (s : str) (impl : fmtstr)
| Shared (f : fmtstr) (impl : res atts).

(* ---- the model ------------------------------------------------------------------- *)
Definition run_op (x : strarg) (o : op) : option (res fmtstr) :=
  match o, x with
  | OFmt args kw, _ => fmtstr_fn x args kw
  | OFunc n args kw, _ => fmtfunc n x args kw
  | OCopy a, SFmt f => Some (Ok (copy_with_new_atts f a))
  | ORemove ks, SFmt f => Some (Ok (new_with_atts_removed f ks))
  | _, _ => None
  end.
Fixpoint run_ops (x : strarg) (ops : list op) : option (res fmtstr) :=
  match ops with
  | [] => match x with SFmt f => Some (Ok f) | _ => None end
  | o :: r =>
      match run_op x o with
      | Some (Ok f) => run_ops (SFmt f) r
      | other => other
      end
  end.

Definition same_cells (f g : fmtstr) : bool := cells_eqb (cells f) (cells g).
Definition opt_res_eqb {X} (eqb : X -> X -> bool) (a b : option (res X)) : bool :=
  match a, b with
  | Some x, Some y => res_eqb eqb x y
  | None, None => true
  | _, _ => false
  end.

Definition model_ok (c : case) : bool :=
  match c with
  | Prog start ops impl obs =>
      opt_res_eqb same_cells (run_ops start ops) impl &&
      match impl, obs with
      | Some (Ok g), Some (sg, tg) => str_eqb (render g) sg && str_eqb (text g) tg
      | _, _ => true
      end
  | Parse args kw impl =>
      opt_res_eqb atts_eqb
        (match parse_args args kw with
         | Ok d => match atts_of_dict d with Some a => Some (Ok a) | None => None end
         | Raise e => Some (Raise e)
         end) impl
  | NewStr f s impl => same_cells (copy_with_new_str f s) impl
  | Shared f impl => res_eqb atts_eqb (shared_atts f) impl
  end.

(* ---- the property, judged on the implementation's output ----------------------------- *)
(* reference reading of one call on the displayed cells;
   None = the property as read says nothing about this call *)
Definition spec_fmt (args : list value) (kw : dict) (cs : list cell) : option (res (list cell)) :=
  if valid args kw then Some (Ok (override_cells (named args kw) cs))
  else if distinct_keywords kw && invalidb args kw then Some (Raise ValueError)
  else None.
Definition has_key (k : str) (kw : dict) : bool := existsb (fun kv => str_eqb (fst kv) k) kw.
Definition spec_op (o : op) (cs : list cell) : option (res (list cell)) :=
  match o with
  | OFmt args kw => spec_fmt args kw cs
  | OFunc n args kw =>
      match func_args n with
      | Some pa => if has_key n_style kw then None else spec_fmt (args ++ pa) kw cs
      | None => None
      end
  | OCopy a => Some (Ok (override_cells a cs))
  | ORemove ks => Some (Ok (clear_cells ks cs))
  end.
Fixpoint spec_ops (cs : list cell) (ops : list op) : option (res (list cell)) :=
  match ops with
  | [] => Some (Ok cs)
  | o :: r =>
      match spec_op o cs with
      | Some (Ok cs') => spec_ops cs' r
      | other => other
      end
  end.
Definition no_esc_csi (s : str) : bool := negb (has_esc_csi s).
Definition spec_prog (start : strarg) (ops : list op) : option (res (list cell)) :=
  match start with
  | SStr s => if no_esc_csi s then spec_ops (plain_cells s) ops else None
  | SFmt f => spec_ops (cells f) ops
  | SOther =>                     (* a mis-typed first argument: ValueError whatever the rest is *)
      match ops with
      | OFmt args kw :: _ => if distinct_keywords kw then Some (Raise ValueError) else None
      | _ => None
      end
  end.

Definition spec_ok (c : case) : bool :=
  match c with
  | Prog start ops impl obs =>
      match spec_prog start ops with
      | None => true
      | Some expected =>
          match impl with
          | Some got => res_eqb cells_eqb expected
                          (match got with Ok f => Ok (cells f) | Raise e => Raise e end)
          | None => false
          end &&
          (* what the result reports about itself: it displays the expected cells, its text is theirs *)
          match expected, obs with
          | Ok cs, Some (sg, tg) =>
              str_eqb tg (map fst cs) &&
              (if forallb clean_char tg then displays_exactly sg cs else true)
          | _, _ => true
          end
      end
  | Parse args kw impl =>
      if valid args kw then opt_res_eqb atts_eqb (Some (Ok (named args kw))) impl
      else if distinct_keywords kw && invalidb args kw then opt_res_eqb atts_eqb (Some (Raise ValueError)) impl
      else true
  | NewStr f s impl =>
      match f with
      | [] => true
      | c0 :: _ =>
          let st := eff (c_a c0) in
          if uniform f st then cells_eqb (cells impl) (map (fun x => (x, st)) s) else true
      end
  | Shared f impl =>
      match impl with
      | Ok a => all_cells_have a (cells f)
      | Raise _ => true             (* reports nothing *)
      end
  end.

End C14.
