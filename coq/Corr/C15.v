(* Correspondence for C15: one method call on one FmtStr.  The case carries the run
   list, the call, PYTHON'S OWN ANSWER of the str method on f.s (as data) and what
   the FmtStr method returned.
   model_ok: the model computes the implementation's result (cells / plain answer /
             exception class).
   spec_ok : the implementation's result satisfies the property, judged by the
             independent references of Spec/StrSpec.v and Spec/ListOps.v AND by
             Python's own answer; the references themselves are compared with
             Python's answer on the way. *)
From Curtsies Require Import Model.Base Spec.ListOps Model.Slice Spec.StrSpec Model.StrMeth.
Local Close Scope N_scope.

Module C15.

(* a non-text answer (int, bool, tuple, None) is carried as the text of its repr *)
Definition plain := str.

Inductive call :=
| KSplit (sep : str)                        (* f.split(sep), explicit separator *)
| KSplitRe (matches : list span)            (* f.split(pattern, regex=True); the engine's matches on f.s *)
| KSplitNone (ws : list char)               (* f.split(): outside the property, model only; ws = the \s characters of f.s *)
| KSplitMax (sep : str) (k : Z)             (* maxsplit given: NotImplementedError; outside the property, model only *)
| KSplitlines (keepends : bool)
| KJoin (items : list operand)
| KJust (left : bool) (width : Z) (fill : option str)
| KDeleg.                                   (* any method reached through __getattr__ *)

Definition pyanswer := mres plain.          (* str method on f.s *)
Definition answer := res (dval plain).      (* FmtStr method on f *)
Definition case := (fmtstr * call * pyanswer * answer)%type.

Definition memb (ws : list char) (c : char) : bool := existsb (N.eqb c) ws.

Definition fs_eqb (a b : fmtstr) : bool := cells_eqb (cells a) (cells b).
Definition dval_eqb (a b : dval plain) : bool :=
  match a, b with
  | DFmt x, DFmt y => fs_eqb x y
  | DList x, DList y => list_eqb fs_eqb x y
  | DOther x, DOther y => str_eqb x y
  | _, _ => false
  end.

Definition lift_list (r : res (list fmtstr)) : answer :=
  match r with Ok l => Ok (DList l) | Raise e => Raise e end.
Definition lift_fmt (r : res fmtstr) : answer :=
  match r with Ok l => Ok (DFmt l) | Raise e => Raise e end.

Definition model (f : fmtstr) (k : call) (py : pyanswer) : answer :=
  match k with
  | KSplit sep => lift_list (split (fun _ => false) f (SepLit sep) None)
  | KSplitRe ms => lift_list (split (fun _ => false) f (SepRegex ms) None)
  | KSplitNone ws => lift_list (split (memb ws) f SepNone None)
  | KSplitMax sep k => lift_list (split (fun _ => false) f (SepLit sep) (Some k))
  | KSplitlines keep => lift_list (splitlines f keep)
  | KJoin items => Ok (DFmt (join f items))
  | KJust lft w fill => lift_fmt (just lft f w fill)
  | KDeleg => delegate (fun _ => py) f
  end.

Definition model_ok (c : case) : bool :=
  let '(f, k, py, got) := c in res_eqb dval_eqb (model f k py) got.

(* ---- the property ------------------------------------------------------------------- *)
(* same text / same plain answer / same exception class as str *)
Definition text_agrees (py : pyanswer) (got : answer) : bool :=
  match py, got with
  | MStr s, Ok (DFmt r) => str_eqb (text r) s
  | MList l, Ok (DList rs) => list_eqb str_eqb (map text rs) l
  | MOther x, Ok (DOther y) => str_eqb x y
  | MRaise e, Raise e' => exn_eqb e e'
  | _, _ => false
  end.

Definition states (l : list cell) : list sgr := map snd l.

(* each piece is the sub-list of [l] at its offset; consecutive pieces are [gap] apart;
   [sep]: what the text between two pieces must be (None: not checked) *)
Fixpoint pieces_at (l : list cell) (off : nat) (gap : nat) (sep : option str) (pieces : list (list cell)) : bool :=
  match pieces with
  | [] => true
  | p :: r =>
      let e := off + length p in
      cells_eqb p (sub l off e) &&
      match r with
      | [] => Nat.leb e (length l)
      | _ :: _ =>
          (match sep with
           | Some s => str_eqb (map fst (sub l e (e + gap))) s
           | None => true
           end) && pieces_at l (e + gap) gap sep r
      end
  end.
Definition total_length (gap : nat) (pieces : list (list cell)) : nat :=
  fold_right (fun p acc => length p + acc) 0 pieces + gap * (length pieces - 1).

Definition nat_spans (ms : list span) : list (nat * nat) :=
  map (fun m => (Z.to_nat (fst m), Z.to_nat (snd m))) ms.

Definition all_states (p : sgr -> bool) (l : list cell) : bool := forallb (fun cl => p (snd cl)) l.

Definition only_bg (bg : option color) : sgr := mkSgr None bg false false false false false false.

(* the same characters in the same order, each showing at most what it showed before *)
Fixpoint chars_within (res orig : list cell) : bool :=
  match res, orig with
  | [], [] => true
  | r :: res', o :: orig' => N.eqb (fst r) (fst o) && sgr_le (snd r) (snd o) && chars_within res' orig'
  | _, _ => false
  end.

Definition spec_ok (c : case) : bool :=
  let '(f, k, py, got) := c in
  let l := cells f in
  let m := meet_sgr (states l) in
  let has_chars := match l with [] => false | _ :: _ => true end in
  match k with
  | KSplitNone _ | KSplitMax _ _ => true                      (* not claimed *)
  | KSplit [] => true                                          (* empty separator: not claimed *)
  | KSplit sep =>
      text_agrees py got &&
      match sep, got with
      | _ :: _, Ok (DList rs) =>
          let ps := map cells rs in
          text_agrees (MList (str_split (text f) sep)) got &&          (* the reference agrees too *)
          pieces_at l 0 (length sep) (Some sep) ps &&
          Nat.eqb (total_length (length sep) ps) (length l)
      | _, _ => false
      end
  | KSplitRe ms =>
      text_agrees py got &&
      match got with
      | Ok (DList rs) =>
          spans_okb 0 (length l) (nat_spans ms) &&
          list_eqb cells_eqb (map cells rs) (cut_spans l (nat_spans ms))
      | _ => false
      end
  | KSplitlines keep =>
      text_agrees py got &&
      match got with
      | Ok (DList rs) =>
          text_agrees (MList (str_splitlines keep (text f))) got &&
          pieces_at l 0 (if keep then 0 else 1) (if keep then None else Some newline) (map cells rs)
      | _ => false
      end
  | KJoin items =>
      text_agrees py got &&
      match got with
      | Ok (DFmt r) => cells_eqb (cells r) (join_lists l (map op_cells items))
      | _ => false
      end
  | KJust lft w fill =>
      text_agrees py got &&
      match got with
      | Raise _ => true
      | Ok (DFmt r) =>
          (match fill with
           | Some [ch] => str_eqb (text r) (if lft then py_ljust (text f) w ch else py_rjust (text f) w ch)
           | Some _ => false
           | None => str_eqb (text r) (if lft then py_ljust (text f) w 32%N else py_rjust (text f) w 32%N)
           end) &&
          (if has_chars then
             let rc := cells r in
             let n := length l in
             let k := length rc - n in
             let orig := if lft then firstn n rc else skipn k rc in
             let pad := if lft then skipn n rc else firstn k rc in
             all_states (fun st => shown_by_some st (states l)) rc &&
             (* the original characters, in order, each with at most its own formatting;
                a padding cell shows only what EVERY character of f shows *)
             chars_within orig l &&
             all_states (fun st => sgr_le st m) pad &&
             match fill with
             | Some _ => all_states (fun st => sgr_eqb st m) rc
             | None =>
                 all_states (fun st => sgr_le m st) orig &&
                 match s_bg m with
                 | Some _ => all_states (fun st => sgr_le (only_bg (s_bg m)) st) pad
                 | None => all_states (fun st => sgr_le m st) pad
                 end
             end
           else true)
      | Ok _ => false
      end
  | KDeleg =>
      text_agrees py got &&
      match got with
      | Ok (DFmt r) => if has_chars then all_states (fun st => sgr_eqb st m) (cells r) else true
      | Ok (DList rs) => if has_chars then forallb (fun r => all_states (fun st => sgr_eqb st m) (cells r)) rs else true
      | _ => true
      end
  end.
End C15.
