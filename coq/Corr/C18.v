(* Correspondence for C18.  A case carries the input AND what the real
   CursorAwareWindow did with it (driven through a scripted in_stream).
   Imports Model/Spec only. *)
From Curtsies Require Import Model.Base Model.CursorQuery Spec.CursorSpec.
Local Open Scope N_scope.

Module C18.

(* compact stream literal: code points are themselves; 2000001 = the read raises
   OSError, 2000002 = the read returns '', 2000003 = a nested
   get_cursor_vertical_diff call arrives during the read *)
Definition item_of (n : N) : item :=
  if n =? 2000001 then Rd OsError
  else if n =? 2000002 then Rd Eof
  else if n =? 2000003 then Nest
  else Rd (Char n).
Definition St (l : list N) : list item := map item_of l.

Definition W (t : Z) (l : option Z) (i a : bool) : wstate := mkW t l i a.
Definition Ob (r : res (list Z)) (w : wstate) (unread : N) (cbs : list str) (rows : list Z) : obs :=
  mkObs r w (N.to_nat unread) cbs rows.
Definition Render (n : N) (c h : Z) : op := OpRender (N.to_nat n) c h.
Definition Diff (cb : bool) (l : list N) : op := OpDiff cb (St l).
Definition Pos (cb : bool) (l : list N) : op := OpPos cb (St l).

Inductive case :=
| CRegex (src : str)
    (* the pattern text and flags found in the current get_cursor_position *)
| CHist (ops : list op) (impl : list obs)
    (* a history of operations on one window and what was observed after each *)
| CParse (cb : bool) (extra csi rs cs : str) (pre trail : list N) (impl : obs).
    (* one direct get_cursor_position on the stream pre ++ trail, where pre
       delivers extra ++ CSI rs ; cs R (with OSErrors woven in) *)

Definition obs_eqb (a b : obs) : bool :=
  res_eqb listZ_eqb (ob_ret a) (ob_ret b) && wstate_eqb (ob_w a) (ob_w b) &&
  Nat.eqb (ob_unread a) (ob_unread b) && list_eqb str_eqb (ob_cb a) (ob_cb b) &&
  listZ_eqb (ob_rows a) (ob_rows b).

Definition w_init : wstate := mkW 0 None false false.

(* ---- model = implementation ---------------------------------------------------- *)
(* the brute-force decision of "no complete report in s" (Spec, used by spec_ok) agrees with the
   scanner's, which theorem C18_no_report_decidable proves equivalent to no_report *)
Definition decide_agree (s : str) : bool :=
  Bool.eqb (match first_report s with None => true | Some _ => false end)
           (match search s with None => true | Some _ => false end).

Definition model_ok (c : case) : bool :=
  match c with
  | CRegex src => str_eqb src (cursor_regex_src ++ [32; 114; 101; 46; 68; 79; 84; 65; 76; 76])  (* " re.DOTALL" *)
  | CHist ops impl =>
      list_eqb obs_eqb (run_ops w_init [] ops) impl &&
      (* the two deciders of "contains a complete report" agree on every stream offered *)
      forallb (fun o => match o with
                        | OpPos _ s | OpDiff _ s => decide_agree (chars_of s)
                        | _ => true
                        end) ops
  | CParse cb extra _ _ _ pre trail impl =>
      list_eqb obs_eqb (run_ops w_init [] [OpPos cb (St (pre ++ trail))]) [impl] &&
      decide_agree extra
  end.

(* ---- the property, judged on the implementation's observations ------------------ *)
Definition res_pos_eqb (a : res (Z * Z)) (b : res (list Z)) : bool :=
  match a, b with
  | Ok (r, c), Ok [r'; c'] => Z.eqb r r' && Z.eqb c c'
  | Raise e, Raise e' => exn_eqb e e'
  | _, _ => false
  end.

Definition step_ok (w : wstate) (pending : list item) (o : op) (ob : obs) : bool :=
  step_rel w o ob &&
  match o with
  | OpPos cb s =>
      let st := filter (fun i => negb (is_nest i)) (pending ++ s) in
      let '(r, cbs, unread) := spec_position cb st in
      res_pos_eqb r (ob_ret ob) && list_eqb str_eqb cbs (ob_cb ob) && Nat.eqb unread (ob_unread ob)
  | _ => true
  end.

(* the pending stream after an operation is the suffix of the given length *)
Definition suffix (n : nat) (s : list item) : list item := skipn (length s - n) s.

Fixpoint hist_ok (w : wstate) (pending : list item) (ops : list op) (impl : list obs) : bool :=
  match ops, impl with
  | [], [] => true
  | o :: ops', ob :: impl' =>
      let avail := match o with
                   | OpDiff _ s => pending ++ s
                   | OpPos _ s => filter (fun i => negb (is_nest i)) (pending ++ s)
                   | _ => pending
                   end in
      step_ok w pending o ob && hist_ok (ob_w ob) (suffix (ob_unread ob) avail) ops' impl'
  | _, _ => false
  end.

Definition ends_with_char (s : list item) : bool :=
  match rev s with Rd (Char _) :: _ => true | _ => false end.
Definition plain (i : item) : bool := match i with Rd (Char _) | Rd OsError => true | _ => false end.

Definition spec_ok (c : case) : bool :=
  match c with
  | CRegex _ => true
  | CHist ops impl => hist_ok w_init [] ops impl
  | CParse cb extra csi rs cs pre trail impl =>
      (* hypotheses of theorem C18_parse, decided *)
      (str_eqb csi csi7 || str_eqb csi csi8) && digits rs && digits cs &&
      match first_report extra with None => true | Some _ => false end &&
      forallb plain (St pre) && ends_with_char (St pre) &&
      str_eqb (chars_of (St pre)) (extra ++ report csi rs cs) &&
      (* its conclusion, on the implementation's observation *)
      let pos := [(Z.of_N (value rs) - 1)%Z; (Z.of_N (value cs) - 1)%Z] in
      Nat.eqb (ob_unread impl) (length trail) &&
      match extra with
      | [] => res_eqb listZ_eqb (ob_ret impl) (Ok pos) && list_eqb str_eqb (ob_cb impl) []
      | _ :: _ =>
          if cb then res_eqb listZ_eqb (ob_ret impl) (Ok pos) && list_eqb str_eqb (ob_cb impl) [extra]
          else res_eqb listZ_eqb (ob_ret impl) (Raise ValueError) && list_eqb str_eqb (ob_cb impl) []
      end
  end.

End C18.
