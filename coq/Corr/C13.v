(* Correspondence for C13.  A case is a straight-line program over a pool of FmtStr objects
   together with what the REAL implementation did: the outcome of every step and, after EVERY
   step, a snapshot of EVERY pool object taken without touching its getters (runs read from
   .chunks, the four memo slots and each run's cached color_str read raw from __dict__, which
   runs are the same Python objects, which pool entries are the same object), plus a final sweep
   through the real getters of every object and of a fresh copy rebuilt from the same runs.

   spec_ok (the property, judged on the implementation's data only):
     - the runs of every pool object are, after every step, exactly those of its first snapshot;
     - every FILLED memo slot equals the value recomputed here from the runs
       (render / text / flen / spec_width, Chunk.color_str = render_chunk);
     - every observation returned what is recomputed here from the runs;
     - item assignment and every mutating dict method on a run's attributes raised;
     - in the final sweep the real getters agree with the recomputed values and with the fresh
       copy (repr: with the fresh copy only);
     - the Python-side comparison of every raw slot with the getters of a fresh copy, made
       after every step, found no difference ([sn_fresh]).
   model_ok (heap model = implementation): running the program in Model/Heap.v gives, after
   every step, the same outcome class / observation value and the same snapshot: values, which
   memo slots are filled and with what, the run-sharing pattern across the whole pool, object
   identities (results that ARE an operand), which runs have a cached color_str. *)
From Curtsies Require Import Model.Base Gen.Tables Model.Render Model.Heap Spec.HeapSpec.
Local Open Scope nat_scope.

Module C13.

Record osnap := mkSnap {
  sn_same : nat;                 (* first pool index holding the same Python object *)
  sn_runs : fmtstr;
  sn_unicode : option str; sn_len : option nat; sn_s : option str; sn_width : option Z;
  sn_labels : list nat;          (* identity of each run object, numbered by first occurrence over the pool *)
  sn_ckmemo : list (option str); (* each run's cached color_str *)
  sn_fresh : bool }.             (* Python side: raw slots agree with the getters of a fresh copy *)

Inductive obs := XRaise (e : exn) | XObjs (n : nat) | XStr (s : str) | XNat (n : nat) | XZ (z : Z)
               | XBool (b : bool) | XUnit.

(* a snapshot entry [None] = identical to the entry of the same pool index one step earlier *)
Record step := mkStep { st_op : op; st_out : obs; st_snap : list (option osnap) }.

Record fin := mkFin {
  fi_runs : fmtstr;
  fi_str : str; fi_len : nat; fi_s : str; fi_width : res Z; fi_repr : str;            (* the object, twice *)
  fi_again : bool;                                                                     (* second reading equal *)
  fr_str : str; fr_len : nat; fr_s : str; fr_width : res Z; fr_repr : str }.          (* the fresh copy *)

Record case := mkCase { c_wc : list (N * Z); c_steps : list step; c_final : list fin }.

Definition wc_of (tab : list (N * Z)) (c : char) : Z :=
  match find (fun p => N.eqb (fst p) c) tab with Some p => snd p | None => 1%Z end.

(* ---- decompression of the snapshots -------------------------------------------------- *)
Fixpoint expand (prev : list osnap) (cur : list (option osnap)) : option (list osnap) :=
  match cur with
  | [] => Some []
  | Some s :: r => match expand (tl prev) r with Some l => Some (s :: l) | None => None end
  | None :: r =>
      match prev with
      | p :: _ => match expand (tl prev) r with Some l => Some (p :: l) | None => None end
      | [] => None
      end
  end.

(* ---- comparisons ------------------------------------------------------------------------ *)
Definition ostr_eqb := opt_eqb str_eqb.
Definition osnap_eqb (a b : osnap) : bool :=
  (sn_same a =? sn_same b) && fmtstr_eqb (sn_runs a) (sn_runs b) &&
  ostr_eqb (sn_unicode a) (sn_unicode b) && opt_eqb Nat.eqb (sn_len a) (sn_len b) &&
  ostr_eqb (sn_s a) (sn_s b) && opt_eqb Z.eqb (sn_width a) (sn_width b) &&
  list_eqb Nat.eqb (sn_labels a) (sn_labels b) && list_eqb ostr_eqb (sn_ckmemo a) (sn_ckmemo b).

(* ---- the model's snapshot of a pool -------------------------------------------------------- *)
Fixpoint index_of (x : nat) (l : list nat) (i : nat) : nat :=
  match l with [] => i | y :: r => if x =? y then i else index_of x r (S i) end.

Fixpoint assoc (x : nat) (m : list (nat * nat)) : option nat :=
  match m with [] => None | (k, v) :: r => if x =? k then Some v else assoc x r end.

Fixpoint label_refs (refs : list nat) (m : list (nat * nat)) : list nat * list (nat * nat) :=
  match refs with
  | [] => ([], m)
  | c :: r =>
      match assoc c m with
      | Some v => let '(ls, m') := label_refs r m in (v :: ls, m')
      | None => let v := length m in let '(ls, m') := label_refs r ((c, v) :: m) in (v :: ls, m')
      end
  end.

Fixpoint model_snaps (h : heap) (pool todo : list nat) (m : list (nat * nat)) : list osnap :=
  match todo with
  | [] => []
  | o :: rest =>
      match nth_error (h_fs h) o with
      | None => []
      | Some f =>
          let refs := nth (f_list f) (h_ls h) [] in
          let '(labs, m') := label_refs refs m in
          mkSnap (index_of o pool 0) (value h o) (f_unicode f) (f_len f) (f_s f) (f_width f) labs
                 (map (fun c => k_str (nth c (h_ck h) dummy_ck)) refs) true
          :: model_snaps h pool rest m'
      end
  end.

Definition out_eqb (x : op) (r : res outcome) (o : obs) : bool :=
  match r, o with
  | Raise e, XRaise e' => exn_eqb e e'
  | Ok (RObjs l), XObjs n => length l =? n
  | Ok (RStr s), XStr s' => str_eqb s s'
  | Ok (RNat n), XNat n' => n =? n'
  | Ok (RZ z), XZ z' => Z.eqb z z'
  | Ok (RBool b), XBool b' => Bool.eqb b b'
  | Ok RUnit, XUnit => true
  | Ok (RObjs []), XRaise _ => match x with OGeneric _ [] => true | _ => false end
  | _, _ => false
  end.

Fixpoint model_steps (wc : char -> Z) (steps : list step) (pool : list nat) (h : heap) (prev : list osnap) : bool :=
  match steps with
  | [] => true
  | st :: rest =>
      let '(r, h1) := exec wc pool (st_op st) h in
      let pool1 := pool_after pool r in
      match expand prev (st_snap st) with
      | None => false
      | Some snap =>
          out_eqb (st_op st) r (st_out st) &&
          list_eqb osnap_eqb (model_snaps h1 pool1 pool1 []) snap &&
          model_steps wc rest pool1 h1 snap
      end
  end.

Definition model_ok (c : case) : bool := model_steps (wc_of (c_wc c)) (c_steps c) [] empty_heap [].

(* ---- the property on the implementation's data ------------------------------------------------ *)
Definition resZ_eqb := res_eqb Z.eqb.

Definition memo_snap_ok (wc : char -> Z) (s : osnap) : bool :=
  match sn_unicode s with Some u => str_eqb u (render (sn_runs s)) | None => true end &&
  match sn_len s with Some n => n =? flen (sn_runs s) | None => true end &&
  match sn_s s with Some t => str_eqb t (text (sn_runs s)) | None => true end &&
  match sn_width s with Some w => resZ_eqb (spec_width wc (sn_runs s)) (Ok w) | None => true end &&
  (length (sn_ckmemo s) =? length (sn_runs s)) &&
  forallb (fun p => match fst p with Some u => str_eqb u (render_chunk (snd p)) | None => true end)
          (combine (sn_ckmemo s) (sn_runs s)) &&
  sn_fresh s.

(* every entry that has a first snapshot equals it (run for run) *)
Fixpoint same_as_first (firsts : list fmtstr) (snap : list osnap) : bool :=
  match firsts, snap with
  | [], _ => true
  | _ :: _, [] => false                         (* the pool never shrinks *)
  | f :: fr, s :: sr => fmtstr_eqb f (sn_runs s) && same_as_first fr sr
  end.

Definition runs_at (snap : list osnap) (p : nat) : option fmtstr := option_map sn_runs (nth_error snap p).

(* the outcome of an observation / of a forbidden mutation, judged against the runs *)
Definition obs_ok (wc : char -> Z) (x : op) (o : obs) (snap : list osnap) : bool :=
  match x with
  | OStr p => match runs_at snap p, o with Some f, XStr s => str_eqb s (render f) | None, XRaise _ => true | _, _ => false end
  | OS p => match runs_at snap p, o with Some f, XStr s => str_eqb s (text f) | None, XRaise _ => true | _, _ => false end
  | OLen p => match runs_at snap p, o with Some f, XNat n => n =? flen f | None, XRaise _ => true | _, _ => false end
  | OWidth p =>
      match runs_at snap p, o with
      | Some f, XZ w => resZ_eqb (spec_width wc f) (Ok w)
      | Some f, XRaise e => resZ_eqb (spec_width wc f) (Raise e)
      | None, XRaise _ => true
      | _, _ => false
      end
  | OEq p q =>
      match runs_at snap p, runs_at snap q, o with
      | Some f, Some g, XBool b => Bool.eqb b (str_eqb (render f) (render g))
      | None, _, XRaise _ | _, None, XRaise _ => true
      | _, _, _ => false
      end
  | OSetitem _ | OAttsMutate _ _ _ => match o with XRaise _ => true | _ => false end
  | _ => true
  end.

(* returns the first snapshots of all pool objects, or None when a check fails *)
Fixpoint spec_steps (wc : char -> Z) (steps : list step) (firsts : list fmtstr) (prev : list osnap)
  : option (list fmtstr) :=
  match steps with
  | [] => Some firsts
  | st :: rest =>
      match expand prev (st_snap st) with
      | None => None
      | Some snap =>
          if same_as_first firsts snap && forallb (memo_snap_ok wc) snap &&
             obs_ok wc (st_op st) (st_out st) snap
          then spec_steps wc rest (firsts ++ map sn_runs (skipn (length firsts) snap)) snap
          else None
      end
  end.

Definition fin_ok (wc : char -> Z) (f : fin) : bool :=
  str_eqb (fi_str f) (render (fi_runs f)) && (fi_len f =? flen (fi_runs f)) &&
  str_eqb (fi_s f) (text (fi_runs f)) && resZ_eqb (fi_width f) (spec_width wc (fi_runs f)) &&
  fi_again f &&
  str_eqb (fi_str f) (fr_str f) && (fi_len f =? fr_len f) && str_eqb (fi_s f) (fr_s f) &&
  resZ_eqb (fi_width f) (fr_width f) && str_eqb (fi_repr f) (fr_repr f).

Definition spec_ok (c : case) : bool :=
  match spec_steps (wc_of (c_wc c)) (c_steps c) [] [] with
  | None => false
  | Some firsts =>
      (* the runs read after the final sweep are still the first snapshots *)
      list_eqb fmtstr_eqb firsts (map fi_runs (c_final c)) &&
      forallb (fin_ok (wc_of (c_wc c))) (c_final c)
  end.

End C13.
