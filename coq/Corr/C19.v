(* Correspondence for C19.  A case carries the inputs AND what the implementation
   answered (harness/props/c19.py):
   * Pair f g sf sg ...   : two FmtStrs, their str(), and the booleans f == g, f != g,
                            g == f, hash(f) == hash(g), f in {g}, f in {g: 0};
   * WithStr f s sf ...   : a FmtStr and a plain str: f == s, s == f, f != s, s != f,
                            hash(f) == hash(s), f in {s}, s in {f};
   * Repr f lits r ev     : repr(f) as a string, Python's repr() of every run's text
                            (string literals are outside the model), and the value of
                            eval(repr(f), vars(curtsies.fmtfuncs)) (None: eval raised). *)
From Curtsies Require Import Model.Base Gen.Tables Model.Render Model.Atts Spec.Sgr Spec.AttSpec.
Local Open Scope N_scope.

Module C19.

Inductive case :=
| Pair (f g : fmtstr) (sf sg : str) (eq ne eq_rev hash_eq in_set in_dict : bool)
| WithStr (f : fmtstr) (s : str) (sf : str) (eq eq_rev ne ne_rev hash_eq f_in_s s_in_f : bool)
| Repr (f : fmtstr) (lits : list str) (r : str) (ev : option pyval).

Definition implb (a b : bool) : bool := negb a || b.

(* print the model's repr tree, the i-th literal text supplied by the i-th run *)
Fixpoint print_sum_with (lits : list str) (es : list expr) : str :=
  match es, lits with
  | [], _ => []
  | [e], l :: _ => print_expr (fun _ => l) e
  | e :: r, l :: ls => print_expr (fun _ => l) e ++ [43] ++ print_sum_with ls r
  | _ :: _, [] => [0]
  end.

Definition same_val (a b : pyval) : bool :=
  match a, b with
  | PStr x, PStr y => str_eqb x y
  | PFmt f, PFmt g => cells_eqb (cells f) (cells g) && str_eqb (render f) (render g)
  | _, _ => false
  end.

Definition model_ok (c : case) : bool :=
  match c with
  | Pair f g sf sg eq ne eq_rev hash_eq in_set in_dict =>
      Bool.eqb (py_eq f g) eq && Bool.eqb (negb (py_eq f g)) ne && Bool.eqb (py_eq g f) eq_rev &&
      implb (py_eq f g) hash_eq && Bool.eqb in_set (py_eq f g) && Bool.eqb in_dict (py_eq f g) &&
      str_eqb (render f) sf && str_eqb (render g) sg
  | WithStr f s sf eq eq_rev ne ne_rev hash_eq f_in_s s_in_f =>
      Bool.eqb (py_eq_str f s) eq && Bool.eqb (py_str_eq s f) eq_rev &&
      Bool.eqb (negb (py_eq_str f s)) ne && Bool.eqb (negb (py_str_eq s f)) ne_rev &&
      implb (py_eq_str f s) hash_eq && Bool.eqb f_in_s (py_eq_str f s) && Bool.eqb s_in_f (py_eq_str f s) &&
      str_eqb (render f) sf
  | Repr f lits r ev =>
      match py_repr f with
      | Ok es =>
          str_eqb (print_sum_with lits es) r &&
          match eval_sum es, ev with
          | Some (Ok v), Some w => same_val v w
          | None, None => true
          | Some (Raise _), None => true
          | _, _ => false
          end
      | Raise _ => false
      end
  end.

(* the property, judged on the implementation's answers: equality is equality of the
   terminal strings the implementation itself produced, it is symmetric, != is its
   negation, equal values hash equal and find each other in sets and dicts, equal
   values display the same cells (reference SGR interpreter on the implementation's
   strings), and eval(repr(f)) shows the cells of f *)
Definition shows_same (sf sg : str) : bool :=
  match display sf, display sg with
  | Some (o1, st1, Ground), Some (o2, st2, Ground) => cells_eqb o1 o2
  | _, _ => false
  end.
Definition no_esc (f : fmtstr) : bool := forallb (fun c => negb (has_esc_csi (c_s c))) f.

Definition spec_ok (c : case) : bool :=
  match c with
  | Pair f g sf sg eq ne eq_rev hash_eq in_set in_dict =>
      Bool.eqb eq (str_eqb sf sg) && Bool.eqb ne (negb eq) && Bool.eqb eq_rev eq &&
      implb eq hash_eq && Bool.eqb in_set eq && Bool.eqb in_dict eq &&
      implb (eq && clean f && clean g) (shows_same sf sg && cells_eqb (cells f) (cells g))
  | WithStr f s sf eq eq_rev ne ne_rev hash_eq f_in_s s_in_f =>
      Bool.eqb eq (str_eqb sf s) && Bool.eqb eq_rev eq && Bool.eqb ne (negb eq) && Bool.eqb ne_rev (negb eq) &&
      implb eq hash_eq && Bool.eqb f_in_s eq && Bool.eqb s_in_f eq &&
      implb (eq && clean f && clean_str s) (cells_eqb (cells f) (plain_cells s))
  | Repr f lits r ev =>
      match f with
      | [] => true                        (* the property speaks of FmtStrs with at least one run *)
      | _ :: _ =>
          if no_esc f then
            match ev with
            | Some v => cells_eqb (val_cells v) (cells f)
            | None => false
            end
          else true
      end
  end.

End C19.
