(* Correspondence for C16: one call linesplit(string, columns).  The case carries the
   argument (a str or the runs of a FmtStr), columns, the whitespace characters
   (Python's `\s`) occurring in the text -- the regex engine's verdict, as data --
   and what the implementation returned.
   model_ok: Model/LineSplit.linesplit computes the implementation's lines (cells).
   spec_ok : the implementation's lines are the greedy reference wrap
             (Spec/StrSpec.greedy_wrap) of the words of the per-character list, the
             joining space formatted with what all cells of the replaced gap share;
             and, stated separately and independently of that reference: no line is
             longer than columns, the non-space cells are conserved in order, no line
             starts or ends with whitespace, no words give no lines. *)
From Curtsies Require Import Model.Base Spec.ListOps Model.Slice Spec.StrSpec Model.StrMeth Model.LineSplit.
Local Close Scope N_scope.

Module C16.
Definition case := (operand * Z * list char * res (list fmtstr))%type.

Definition memb (ws : list char) (c : char) : bool := existsb (N.eqb c) ws.
Definition fs_eqb (a b : fmtstr) : bool := cells_eqb (cells a) (cells b).

Definition model_ok (c : case) : bool :=
  let '(inp, cols, ws, got) := c in
  res_eqb (list_eqb fs_eqb) (linesplit (memb ws) inp cols) got.

Definition joiner (gap : list cell) : cell := (32%N, meet_sgr (map snd gap)).

Definition spec_ok (c : case) : bool :=
  let '(inp, cols, ws, got) := c in
  if (cols <? 1)%Z then true else
  match got with
  | Raise _ => false
  | Ok lines =>
      let l := op_cells inp in
      let sp := fun cl : cell => memb (32%N :: ws) (fst cl) in
      let out := map cells lines in
      let n := Z.to_nat cols in
      (* the greedy reference, cell by cell *)
      list_eqb cells_eqb out (greedy_wrap n joiner (blocks sp l) (inner_gaps sp l)) &&
      (* ... and on the text alone *)
      list_eqb str_eqb (map text lines)
               (greedy_wrap n (fun _ => 32%N) (blocks (memb (32%N :: ws)) (map fst l))
                            (inner_gaps (memb (32%N :: ws)) (map fst l))) &&
      (* the clauses of the property, one by one *)
      forallb (fun ln => Nat.leb (length ln) n) out &&
      cells_eqb (filter (fun cl => negb (sp cl)) (concat out)) (filter (fun cl => negb (sp cl)) l) &&
      forallb (fun ln => match ln with
                         | [] => false
                         | x :: _ => negb (sp x) && negb (sp (last ln x))
                         end) out &&
      (match filter (fun cl => negb (sp cl)) l with [] => match out with [] => true | _ => false end | _ => true end)
  end.
End C16.
