(* Correspondence for C08.  A case is a configuration (encoding, key naming,
   paste_threshold, number of threadsafe triggers), a history, and what the real
   Input returned request by request (with the patched clock before and after
   each request), plus, per unget_bytes call, the number of bytes the kernel
   still held at that moment (environment-side observation used by the
   reference only).

   The decoder parameter of Model/InputQ.v is instantiated with the model of
   events.get_key from Model/Keys.v (C03), driven over the buffer exactly like
   Keys.find_key_go but also reporting what stays in the buffer when it raises:
   [find_key_real] of Model/InputKeys.v. *)
From Curtsies Require Import Model.Base Gen.Tables Model.Utf8 Model.Keys Model.InputQ Model.InputKeys Spec.QueueSpec.
Close Scope N_scope.
Local Open Scope Z_scope.

Module C08.

Record case := mkCase {
  c_enc : encoding; c_mode : keynames; c_th : option Z; c_ntrig : nat;
  c_hist : list item; c_nk : list nat; c_out : list entry }.

Definition erase (o : outcome) : obs :=
  match o with
  | OKey k _ => BKey k
  | OPaste ks => BPaste (map fst ks)
  | OEvent _ id => BEvent id
  | OSched _ id => BEvent id
  | OSigint _ => BSigint
  | ONone => BNone
  | ORaise e _ => BRaise e
  | OBlocked => BBlocked
  | OFuel => BRaise OtherError
  end.

Definition entry_eqb (a b : entry) : bool :=
  let '(o1, x1, y1) := a in let '(o2, x2, y2) := b in
  obs_eqb o1 o2 && (x1 =? x2) && (y1 =? y2).

Definition model_trace (c : case) : list entry :=
  map (fun e => let '(o, t0, t1) := e in (erase o, t0, t1))
      (fst (run (find_key_real (c_enc c) (c_mode c)) (c_th c) (init (c_ntrig c)) (c_hist c))).

(* the model returns, request by request, what the implementation returned *)
Definition model_ok (c : case) : bool := list_eqb entry_eqb (model_trace c) (c_out c).

(* the property's reference relation on the implementation's own trace *)
Definition spec_ok (c : case) : bool :=
  ref_check (keynames_eqb (c_mode c) BYTES) (c_th c) (c_nk c) (c_hist c) (c_out c).
Definition spec_where (c : case) : option nat :=
  ref_walk (keynames_eqb (c_mode c) BYTES) (c_th c) true (r_init (c_nk c)) O (c_hist c) (c_out c).

(* compact constructors for the case files *)
Definition T (t : Z) : option Z := Some t.
Definition Tn : option Z := None.
Definition case_of (enc mode : N) (th : option Z) (ntrig : nat) (h : list item) (nk : list nat) (out : list entry) : case :=
  mkCase (match enc with 1%N => Ascii | 2%N => Latin1 | _ => Utf8 end)
         (match mode with 1%N => CURSES | 2%N => BYTES | _ => CURTSIES end) th ntrig h nk out.

End C08.
