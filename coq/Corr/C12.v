(* Correspondence for C12.  A case is one scenario run on a real pty with the real
   managers: thread kind, the observed environment before, the scripted program
   (with what the harness observed of its shape: how many reads a request made, what
   a render wrote), the step at which an exception was injected, the observed
   environment after, everything written to the output stream (tokenised), and
   the environments observed at labelled steps in between.

   model_ok: Model/Ctx.v, started from the observed initial environment, predicts
             the observed final environment (descriptor numbers included), the
             observed outcome, exactly the observed output, and every intermediate
             observation.
   spec_ok : Spec/CtxSpec.v holds of the OBSERVED values: restore_eqb before/after, the same between the
             sites before and after every `with` region of the script (regions_ok),
             the reference terminal after replaying the real output (cursor visible,
             main screen active and - unless a CursorAwareWindow drew on it -
             untouched), and flags unchanged at every observation outside a
             Nonblocking region. *)
From Curtsies Require Import Model.Base Spec.Sgr Spec.Term Model.Ctx Spec.CtxSpec.
From Coq Require Import Arith.
Close Scope N_scope.
Local Open Scope nat_scope.

Module C12.

Inductive sop :=
| SSite (id : nat)                                   (* a statement of the body where the harness observes / raises *)
| SRender (hide : bool) (body : list (list cmd))     (* a complete render: the writes between the cursor bracket *)
| SRenderCut (hide : bool) (body : list (list cmd)) (id : nat)   (* a render that raised after these writes *)
| SRequest (c : icfg) (id : nat) (early : bool) (reads : nat)
| STrigCreate (c : icfg)
| STrigCall (id : nat)
| SRepeat (k : nat) (body : list sop)
| SWith (m : mgr) (body : list sop).

Definition wsteps (ws : list (list cmd)) : list prog := map (fun ks => Step (Write ks)) ws.

Fixpoint compile (main : bool) (s : sop) : list prog :=
  match s with
  | SSite id => [Step (Pure NUser id 0)]
  | SRender hide body => render_prog hide body
  | SRenderCut hide body id =>
      (* render_prog with the place of the exception marked *)
      wsteps ((if hide then [] else [[Hide]]) ++ body) ++ [Step (Pure NUser id 0)]
      ++ wsteps (if hide then [] else [[Show]])
  | SRequest c id early reads => request_prog main c id early reads
  | STrigCreate c => trigger_create c
  | STrigCall id => trigger_call id
  | SRepeat k body => concat (repeat (flat_map (compile main) body) k)
  | SWith m body => [With m (flat_map (compile main) body)]
  end.

Fixpoint has_cursor_aware (s : sop) : bool :=
  match s with
  | SRepeat _ body => existsb has_cursor_aware body
  | SWith m body => (match m with MCursorAware _ _ _ => true | _ => false end) || existsb has_cursor_aware body
  | _ => false
  end.

Definition lbl := (note * nat * nat)%type.

Record snap := mkSnap {
  sn_lbl : lbl;
  sn_partial : bool;          (* taken from a helper thread: the wake-up descriptor could not be probed *)
  sn_outside_nb : bool;       (* by the script: not inside any Nonblocking region *)
  sn_obs : obs }.

Record case := mkCase {
  c_main : bool;
  c_h : nat; c_w : nat;
  c_before : obs;
  c_prog : list sop;
  c_cut : option lbl;
  c_raised : bool;
  c_after : obs;
  c_out : list cmd;
  c_snaps : list snap;
  c_ntrig : nat }.

(* ---- literals for the harness (numbers arrive as N) -------------------------------- *)
Definition nn := N.to_nat.
Definition Obs (a : tty) (nb : bool) (flrest : N) (h : handler) (wk : option N) (fds : list N) : obs :=
  mkObs a (mkFl nb flrest) h (option_map nn wk) (map nn fds).
Definition Lbl (n : note) (id sub : N) : lbl := (n, nn id, nn sub).

(* ---- helpers -------------------------------------------------------------------------- *)
Definition note_eqb (a b : note) : bool :=
  match a, b with
  | NQueue, NQueue | NSelect, NSelect | NRead, NRead | NDecode, NDecode | NCall, NCall | NUser, NUser => true
  | _, _ => false
  end.

Definition lbl_eqb (a b : lbl) : bool :=
  let '(n1, i1, s1) := a in let '(n2, i2, s2) := b in note_eqb n1 n2 && (i1 =? i2) && (s1 =? s2).

Definition entry_has (l : lbl) (x : entry) : bool :=
  match x with
  | (_, LStep (Pure n id sub), _) => lbl_eqb l (n, id, sub)
  | _ => false
  end.

Fixpoint index_of {A} (p : A -> bool) (l : list A) : option nat :=
  match l with
  | [] => None
  | x :: r => if p x then Some 0 else option_map S (index_of p r)
  end.

Definition cmd_eqb (a b : cmd) : bool :=
  match a, b with
  | Str s, Str s' => str_eqb s s'
  | Cup r c, Cup r' c' => (r =? r') && (c =? c')
  | Cha c, Cha c' => c =? c'
  | El0, El0 | El1, El1 | Ed0, Ed0 | Lf, Lf | Sc, Sc | Rc, Rc | Hide, Hide | Show, Show
  | AltOn, AltOn | AltOff, AltOff | Dsr, Dsr => true
  | _, _ => false
  end.

(* the terminal the output stream is imagined to be connected to: a main screen full of
   text with three lines of scrollback, cursor on the second row (where the harness says it is
   when a CursorAwareWindow asks) *)
Definition term0 (h w : nat) : term :=
  mkTerm h w (mkBuf (fun r c => (N.of_nat (97 + (r + c) mod 26), sgr_default)) 3) (mkBuf (fun _ _ => blank) 0) false
         (Nat.min 1 (h - 1)) 0 false sgr_default (0, 0, sgr_default) (0, 0, sgr_default) true.

Definition env0 (c : case) : env :=
  let o := c_before c in
  mkEnv (o_tty o) (o_flags o) (o_handler o) (o_wakeup o) (map (fun n => (n, OEnv)) (o_fds o))
        (term0 (c_h c) (c_w c)) [].

Definition program (c : case) : list prog := flat_map (compile (c_main c)) (c_prog c).

(* the number of ticks before the labelled step = the budget that raises there *)
Definition budget (c : case) : option (option nat) :=
  match c_cut c with
  | None => Some None
  | Some l =>
      match index_of (entry_has l) (r_trace (prun_list (c_main c) 0 (program c) None (env0 c))) with
      | Some k => Some (Some k)
      | None => None
      end
  end.

Definition obs_matches (partial : bool) (model observed : obs) : bool :=
  tty_eqb (o_tty model) (o_tty observed) && flags_eqb (o_flags model) (o_flags observed)
  && handler_eqb (o_handler model) (o_handler observed)
  && (partial || opt_eqb Nat.eqb (o_wakeup model) (o_wakeup observed))
  && same_set (o_fds model) (o_fds observed).

Definition snap_ok (tr : list entry) (s : snap) : bool :=
  existsb (fun x => entry_has (sn_lbl s) x
                    && obs_matches (sn_partial s) (observe (snd x)) (sn_obs s)
                    && Bool.eqb (sn_outside_nb s) (fst (fst x) =? 0)) tr.

Definition model_ok (c : case) : bool :=
  match budget c with
  | None => false
  | Some b =>
      let r := prun_list (c_main c) 0 (program c) b (env0 c) in
      obs_matches false (observe (r_env r)) (c_after c)
      && Bool.eqb (c_raised c) (match r_out r with Raised => true | Done _ => false end)
      && list_eqb cmd_eqb (concat (rev (e_out (r_env r)))) (c_out c)
      && forallb (snap_ok (r_trace r)) (c_snaps c)
      && match execs (term0 (c_h c) (c_w c)) (c_out c) with Some _ => true | None => false end
  end.

(* ---- per-region restoration, judged on the observations --------------------------------
   Wherever the script has  site a ; with M: body ; site b  (in any body that is not
   repeated), the environment observed at b must be the one observed at a, up to the trigger
   pipes created inside the region: leaving M restored what entering M changed, whatever
   happened around it (re-entered objects, regions nested in other regions). *)
Fixpoint trig_count (s : sop) : nat :=
  match s with
  | STrigCreate _ => 1
  | SRepeat k body => k * fold_right (fun x n => trig_count x + n) 0 body
  | SWith _ body => fold_right (fun x n => trig_count x + n) 0 body
  | _ => 0
  end.

Fixpoint brackets (s : sop) : list (nat * nat * nat) :=
  match s with
  | SWith _ body =>
      (fix go (l : list sop) : list (nat * nat * nat) :=
         match l with
         | [] => []
         | x :: rest =>
             (match x, rest with
              | SSite a, SWith _ inner :: SSite b :: _ =>
                  [(a, b, fold_right (fun y n => trig_count y + n) 0 inner)]
              | _, _ => []
              end) ++ brackets x ++ go rest
         end) body
  | _ => []
  end.

Definition top_brackets (l : list sop) : list (nat * nat * nat) := brackets (SWith MCbreak l).

Definition site_snaps (id : nat) (snaps : list snap) : list snap :=
  filter (fun s => lbl_eqb (sn_lbl s) (NUser, id, 0)) snaps.

Definition region_restored (ntrig : nat) (a b : snap) : bool :=
  let x := sn_obs a in let y := sn_obs b in
  tty_eqb (o_tty x) (o_tty y) && flags_eqb (o_flags x) (o_flags y) && handler_eqb (o_handler x) (o_handler y)
  && (sn_partial a || sn_partial b || opt_eqb Nat.eqb (o_wakeup x) (o_wakeup y))
  && subset (o_fds x) (o_fds y) && (length (o_fds y) =? length (o_fds x) + 2 * ntrig).

Definition regions_ok (c : case) : bool :=
  forallb (fun '(a, b, n) =>
             match site_snaps a (c_snaps c), site_snaps b (c_snaps c) with
             | [sa], [sb] => region_restored n sa sb
             | _, _ => true                     (* not reached (cut before), or ambiguous *)
             end) (top_brackets (c_prog c)).

Definition spec_ok (c : case) : bool :=
  regions_ok c &&
  restore_eqb (c_ntrig c) (c_before c) (c_after c)
  && match execs (term0 (c_h c) (c_w c)) (c_out c) with
     | Some t' => term_restoredb (negb (existsb has_cursor_aware (c_prog c))) (term0 (c_h c) (c_w c)) t'
     | None => false
     end
  && forallb (fun s => negb (sn_outside_nb s) || flags_eqb (o_flags (sn_obs s)) (o_flags (c_before c))) (c_snaps c).

End C12.
