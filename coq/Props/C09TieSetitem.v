(* C09 -- the model of FmtStr.setitem IS the method text in the repository (a file of its own) *)
(* `return self.setslice_with_length(startindex, startindex + 1, fs, len(self))`, run by [PyMini.call_in]
   in the context Spec/PyEnvFmt.v [ctxF5], where self.setslice_with_length is the generated tree of that
   method (tied in Props/C09TieSetslice.v) and len(self) the named oracle for the memoised __len__. *)
From Curtsies Require Import Model.Base Model.Slice Model.Splice.
From Curtsies Require Spec.PyMini Gen.PureFmt Spec.PyEnvFmt Proofs.PureTieFmtBase Proofs.PureTieSetitem.
Local Open Scope Z_scope.
Theorem C09_setitem_is_the_repository_method :
  forall (f : fmtstr) (startindex : Z) (fs : operand),
    operand_plain fs = true ->
    PyMini.call_in PyEnvFmt.ctxF5 PureFmt.py_FmtStr_setitem
      [PyEnvFmt.embed_fmtstr f; PyMini.VInt startindex; PyEnvFmt.embed_operand fs]
    = PureTieFmtBase.embed_fs_res (setitem f startindex fs).
Proof. exact PureTieSetitem.setitem_tie. Qed.
Print Assumptions C09_setitem_is_the_repository_method.
