(* C10 -- the model of the module-level width_aware_slice IS the function text in the repository
   (a file of its own, so that an edit of that one function un-discharges this obligation only;
   the method FmtStr.width_aware_slice, which calls it, is in Props/C10TieFsWas.v) *)
From Curtsies Require Import Model.Base Model.Width.
From Curtsies Require Spec.PyMini Gen.Pure.
Local Open Scope Z_scope.
(* ---- ties of the slicing-by-columns algorithms to their text in the repository ---------------
   Gen/PureFmt.v holds the syntax trees of the module-level width_aware_slice(s, start, end)
   and of the method FmtStr.width_aware_slice(index), dumped from the Python AST of the working
   tree on every run; [PyMini.call_in] runs them -- both `for` loops of the helper (the list
   `divides` built with append and read with [-1], the zip over s, divides[:-1], divides[1:]
   with its tuple target, `continue`, append / extend of `" " * interval_overlap(...)`,
   "".join), and the loop of the method with its `break` -- in the contexts of
   Spec/PyEnvFmt.v.  interval_overlap and normalize_slice are the generated functions tied
   elsewhere; the method calls the generated helper.  ORACLES (named and stated in
   Spec/PyEnvFmt.v, validated against CPython on every run): wcwidth(c) = wc c for an ARBITRARY
   function wc (the theorems hold for every wc), wcswidth(s) = Model/Width.v [wcswidth wc]
   (the sum, or -1 after a negative width), chunk.width / fs.width / fs.s, Chunk(s, atts),
   FmtStr( *parts), fmtstr("").
   For every wc, every str s and all ints start, end: the helper's text computes [was_str];
   for every wc, every FmtStr f and every index (int, or slice with int / None bounds): the
   method's text computes [fs_was] -- the same runs, text AND attributes, as a FmtStr object, or
   ValueError / IndexError. *)
From Curtsies Require Gen.PureFmt Spec.PyEnvFmt Proofs.PureTieFmtBase Proofs.PureTieWas.
Theorem C10_width_aware_slice_is_the_repository_function :
  forall (wc : char -> Z) (s : str) (start end_ : Z),
    PyMini.call_in (PyEnvFmt.ctxF1 wc) PureFmt.py_width_aware_slice
      [PyMini.VStr s; PyMini.VInt start; PyMini.VInt end_]
    = Ok (PyMini.VStr (was_str wc s start end_)).
Proof. exact PureTieWas.width_aware_slice_tie. Qed.
Print Assumptions C10_width_aware_slice_is_the_repository_function.

