(* C10 -- the model of the method FmtStr.width_aware_slice IS the method text in the repository
   (a file of its own; the comment on the oracles and on what is generated is in
   Props/C10TieWas.v.  The method calls the generated module-level helper: an edit of the helper
   un-discharges this obligation too, an edit of the method only this one) *)
From Curtsies Require Import Model.Base Model.Width.
From Curtsies Require Spec.PyMini Gen.Pure Gen.PureFmt Spec.PyEnvFmt Proofs.PureTieFmtBase Proofs.PureTieFsWas.
Local Open Scope Z_scope.
Theorem C10_FmtStr_width_aware_slice_is_the_repository_method :
  forall (wc : char -> Z) (f : fmtstr) (ix : index),
    PyMini.call_in (PyEnvFmt.ctxF2 wc) PureFmt.py_FmtStr_width_aware_slice
      [PyEnvFmt.embed_fmtstr f; PureTieFmtBase.embed_windex ix]
    = PureTieFmtBase.embed_fs_res (fs_was wc f ix).
Proof. exact PureTieFsWas.fs_width_aware_slice_tie. Qed.
Print Assumptions C10_FmtStr_width_aware_slice_is_the_repository_method.
