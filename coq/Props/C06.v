(* C06 -- indexing, slicing, +, * and join act like str and carry formatting along.
   Observation: [cells f], the per-character (character, attributes) list; [text f]
   is its first projection.  All theorems are for arbitrary FmtStrs (any number
   of runs, empty runs, no runs).  Reference operations: Spec/ListOps.v. *)
From Curtsies Require Import Model.Base Spec.ListOps Model.Slice Proofs.Slice.
Local Close Scope N_scope.
Local Open Scope Z_scope.

(* ---- slicing: every pair of bounds, any integer or omitted ---------------- *)
Theorem C06_slice_cells :
  forall (f : fmtstr) (a b : option Z),
    exists r, getitem_slice f a b = Ok r /\ cells r = pyslice (cells f) a b.
Proof. exact getitem_slice_cells. Qed.
Print Assumptions C06_slice_cells.

Theorem C06_slice_text :
  forall (f : fmtstr) (a b : option Z),
    exists r, getitem_slice f a b = Ok r /\ text r = pyslice (text f) a b.
Proof. exact getitem_slice_text. Qed.
Print Assumptions C06_slice_text.

(* ---- indexing ------------------------------------------------------------------ *)
Theorem C06_index_error_iff :
  forall (f : fmtstr) (i : Z),
    getitem_int f i = Raise IndexError <-> (i < - len f \/ i >= len f).
Proof. exact getitem_int_error. Qed.
Print Assumptions C06_index_error_iff.

Theorem C06_index_in_range :
  forall (f : fmtstr) (i : Z), - len f <= i < len f ->
    exists r c, getitem_int f i = Ok r /\
                nth_error (cells f) (Z.to_nat (i mod len f)) = Some c /\ cells r = [c].
Proof. exact getitem_int_ok. Qed.
Print Assumptions C06_index_in_range.

Theorem C06_index_cells :
  forall (f : fmtstr) (i : Z),
    res_map cells (getitem_int f i) =
    match pyindex (cells f) i with Some c => Ok [c] | None => Raise IndexError end.
Proof. exact getitem_int_cells. Qed.
Print Assumptions C06_index_cells.

Theorem C06_index_text :
  forall (f : fmtstr) (i : Z),
    res_map text (getitem_int f i) =
    match pyindex (text f) i with Some c => Ok [c] | None => Raise IndexError end.
Proof. exact getitem_int_text. Qed.
Print Assumptions C06_index_text.

(* ---- concatenation, a str or a FmtStr on either side --------------------------- *)
Theorem C06_add_cells :
  forall (f : fmtstr) (o : operand), cells (add f o) = cells f ++ op_cells o.
Proof. exact add_cells. Qed.
Print Assumptions C06_add_cells.

Theorem C06_radd_cells :
  forall (f : fmtstr) (o : operand), cells (radd f o) = op_cells o ++ cells f.
Proof. exact radd_cells. Qed.
Print Assumptions C06_radd_cells.

Theorem C06_add_text :
  forall (f : fmtstr) (o : operand), text (add f o) = text f ++ op_text o.
Proof. exact add_text. Qed.
Print Assumptions C06_add_text.

Theorem C06_radd_text :
  forall (f : fmtstr) (o : operand), text (radd f o) = op_text o ++ text f.
Proof. exact radd_text. Qed.
Print Assumptions C06_radd_text.

(* characters taken from a plain str are unformatted *)
Theorem C06_add_str_unformatted :
  forall (f : fmtstr) (s : str), cells (add f (OStr s)) = cells f ++ plain_cells s.
Proof. exact (fun f s => add_cells f (OStr s)). Qed.
Print Assumptions C06_add_str_unformatted.

(* ---- repetition (any int; a count <= 0 gives the empty FmtStr) ----------------- *)
Theorem C06_mul_cells :
  forall (f : fmtstr) (n : Z), cells (mul f n) = repeat_list (cells f) (Z.to_nat n).
Proof. exact mul_cells. Qed.
Print Assumptions C06_mul_cells.

Theorem C06_mul_text :
  forall (f : fmtstr) (n : Z), text (mul f n) = repeat_list (text f) (Z.to_nat n).
Proof. exact mul_text. Qed.
Print Assumptions C06_mul_text.

(* ---- join: every list of str / FmtStr items.  A str item goes through fmtstr();
        the scope hypothesis says that it does not contain ESC[ (parsing is C05/C17) -- *)
Theorem C06_join_cells :
  forall (sep : fmtstr) (items : list operand), forallb operand_plain items = true ->
    cells (join sep items) = join_lists (cells sep) (map op_cells items).
Proof. exact (fun sep items _ => join_cells sep items). Qed.
Print Assumptions C06_join_cells.

Theorem C06_join_text :
  forall (sep : fmtstr) (items : list operand), forallb operand_plain items = true ->
    text (join sep items) = join_lists (text sep) (map op_text items).
Proof. exact (fun sep items _ => join_text sep items). Qed.
Print Assumptions C06_join_text.

(* ---- len ------------------------------------------------------------------------- *)
Theorem C06_len_cells : forall f : fmtstr, len f = Z.of_nat (length (cells f)).
Proof. exact len_cells. Qed.
Print Assumptions C06_len_cells.

Theorem C06_len_text : forall f : fmtstr, len f = Z.of_nat (length (text f)).
Proof. exact len_text. Qed.
Print Assumptions C06_len_text.

(* ---- concrete non-trivial instances ---------------------------------------------- *)
Local Open Scope N_scope.
(* 'ab' red, '' bold-on-blue, 'cde' green+italic, 'f' plain *)
Definition ex_f : fmtstr :=
  [C [97;98] (A 2 0 0 0 0 0 0 0); C [] (A 0 5 1 0 0 0 0 0); C [99;100;101] (A 3 0 0 0 1 0 0 0); C [102] no_atts].

Example C06_slice_nonvacuous :   (* f[-5:4] = 'bcd', across the empty run *)
  res_map cells (getitem_slice ex_f (Some (-5)%Z) (Some 4%Z)) =
  Ok [(98, Sg 2 0 0 0 0 0 0 0); (99, Sg 3 0 0 0 1 0 0 0); (100, Sg 3 0 0 0 1 0 0 0)].
Proof. vm_compute. reflexivity. Qed.

Example C06_index_nonvacuous :   (* -len <= -2 < len, f[-2] = 'e' ; f[6] raises *)
  (- len ex_f <= -2 < len ex_f)%Z /\
  res_map cells (getitem_int ex_f (-2)%Z) = Ok [(101, Sg 3 0 0 0 1 0 0 0)] /\
  getitem_int ex_f 6%Z = Raise IndexError.
Proof. vm_compute. repeat split; congruence. Qed.

Example C06_join_nonvacuous :    (* the scope hypothesis is satisfiable with a lone ESC and a '[' *)
  forallb operand_plain [OStr [27; 120; 91]; OFmt ex_f; OStr []] = true /\
  text (join [C [44] (A 0 0 1 0 0 0 0 0)] [OStr [27; 120; 91]; OFmt ex_f; OStr []]) =
  [27; 120; 91; 44; 97; 98; 99; 100; 101; 102; 44].
Proof. vm_compute. split; reflexivity. Qed.

Example C06_mul_nonvacuous : text (mul ex_f 2%Z) = [97;98;99;100;101;102;97;98;99;100;101;102].
Proof. vm_compute. reflexivity. Qed.

Example C06_add_nonvacuous :     (* 'x' + f and f + f; the str's character is unformatted *)
  cells (radd [C [98] (A 2 0 0 0 0 0 0 0)] (OStr [120])) = [(120, sgr_default); (98, Sg 2 0 0 0 0 0 0 0)] /\
  text (add ex_f (OFmt ex_f)) = [97;98;99;100;101;102;97;98;99;100;101;102].
Proof. vm_compute. split; reflexivity. Qed.

Example C06_len_nonvacuous : len ex_f = 6%Z /\ len [] = 0%Z.
Proof. vm_compute. split; reflexivity. Qed.
