(* C07 -- CursorAwareWindow keeps history intact and accounts for every scroll.
   [cw_enter]/[cw_render]/[cw_exit] are the model of CursorAwareWindow.__enter__ /
   render_to_terminal / __exit__ (Model/CursorWin.v), [execs] the reference terminal
   (Spec/Term.v), [render_spec]/[exit_spec] the property in terms of the document
   = scrollback ++ screen (Spec/Doc.v):
     rs_scrolls  exactly surplus = max 0 (n - (h - top)) lines scroll,
     rs_above    no document line above the window's first row is altered,
     rs_shows    the array shows from that row down, everything below it is blank,
   with top' = top_after, return value = pushed_off, cursor = cursor_row_after.
   [far] is the row number scroll_down addresses (1000000 in the code): any number
   at least the terminal's last row. *)
From Curtsies Require Import Model.Base Spec.Sgr Spec.Term Spec.Show Spec.Doc Model.Fullscreen Model.CursorWin
     Proofs.CursorWin.
Close Scope N_scope.

(* one render, from any state the invariant allows: any scrollback and screen content
   above the top usable row, any cache that is sound for the rows from there down *)
Theorem C07_render :
  forall far ws t a cur,
    CwInv ws t -> t_h t - 1 <= far ->
    Forall (fun l => clean l = true) a -> Forall (fun l => flen l <= t_w t) a ->
    fst cur < Nat.max (length a) (t_h t - cw_top ws) -> snd cur < t_w t ->
    let res := cw_render far ws (t_h t) (t_w t) a cur in
    let ws' := snd (fst res) in
    exists t', execs t (fst (fst res)) = Some t'
      /\ CwInv ws' t'
      /\ render_spec t t' (cw_top ws) a
      /\ cw_top ws' = top_after (t_h t) (cw_top ws) (length a)
      /\ snd res = pushed_off (t_h t) (cw_top ws) (length a)
      /\ t_row t' = cursor_row_after (t_h t) (cw_top ws) (length a) (fst cur) /\ t_col t' = snd cur
      /\ t_visible t' = (if cw_hide ws then t_visible t else true)
      /\ cw_hide ws' = cw_hide ws /\ cw_keep ws' = cw_keep ws /\ cw_last ws' = Some (t_h t, t_w t).
Proof. exact cw_render_correct. Qed.
Print Assumptions C07_render.

(* one iteration of the scroll loop: the bottom row is written WITHOUT clear_eol, and
   that is sound because the line that scrolls in is fresh *)
Theorem C07_scroll_step :
  forall far t line,
    t_in_alt t = false -> t_sgr t = sgr_default -> 1 <= t_h t -> 1 <= t_w t -> t_h t - 1 <= far ->
    clean line = true -> flen line <= t_w t ->
    exists t', execs t (scroll_down far ++ [Cup (t_h t - 1) 0; Str (Render.render line)]) = Some t' /\
      t_h t' = t_h t /\ t_w t' = t_w t /\ t_in_alt t' = false /\ t_sgr t' = sgr_default /\
      t_visible t' = t_visible t /\ dbase t' = S (dbase t) /\
      (forall L c, dline t' L c = if Nat.eqb L (dbase t + t_h t) then nth c (cells line) blank else dline t L c).
Proof. exact scroll_iter. Qed.
Print Assumptions C07_scroll_step.

(* leaving the context *)
Theorem C07_exit :
  forall ws t,
    t_in_alt t = false -> t_sgr t = sgr_default ->
    exists t', execs t (cw_exit ws) = Some t' /\ exit_spec (cw_keep ws) t t' /\
      t_h t' = t_h t /\ t_w t' = t_w t /\ t_in_alt t' = false.
Proof. exact cw_exit_correct. Qed.
Print Assumptions C07_exit.

(* every history of renders, followed by leaving the context: the post-condition holds
   after EVERY render and after the exit *)
Theorem C07_all_histories :
  forall far ops ws t,
    CwInv ws t -> t_h t - 1 <= far -> Forall (valid_render (t_w t)) ops -> all_renders_ok far ws t ops.
Proof. exact cw_histories. Qed.
Print Assumptions C07_all_histories.

(* starting from __enter__ on ANY main screen: any number of lines in the scrollback,
   any content (junk below the cursor included), cursor on any row and column, wrap
   pending or not; both flags *)
Theorem C07_from_enter :
  forall far hide keep t ops,
    t_in_alt t = false -> t_sgr t = sgr_default -> 1 <= t_w t -> t_row t < t_h t -> t_h t - 1 <= far ->
    let ws := snd (cw_enter hide keep (t_row t)) in
    exists t0, execs t (fst (cw_enter hide keep (t_row t))) = Some t0 /\
      t_main t0 = t_main t /\ t_row t0 = t_row t /\ t_col t0 = t_col t /\
      t_visible t0 = (if hide then false else t_visible t) /\
      cw_top ws = t_row t /\
      (Forall (valid_render (t_w t)) ops -> all_renders_ok far ws t0 ops).
Proof. exact cw_histories_from_enter. Qed.
Print Assumptions C07_from_enter.

(* the list form of the property evaluated by the correspondence check is what
   render_spec says: document after = untouched lines ++ array rows ++ blank rows *)
Theorem C07_document_equation :
  forall t t' top a, render_spec t t' top a -> top <= t_h t -> doc t' = doc_after t top a.
Proof. exact render_spec_doc. Qed.
Print Assumptions C07_document_equation.

(* the cursor is on the cell cursor_pos designates when that array row is still on the
   screen, and clamped to row 0 when it has been pushed off the top *)
Theorem C07_cursor_on_cell :
  forall t t' top a cr,
    render_spec t t' top a -> pushed_off (t_h t) top (length a) <= cr ->
    dbase t' + cursor_row_after (t_h t) top (length a) cr = dbase t + top + cr.
Proof. exact cursor_on_its_line. Qed.
Print Assumptions C07_cursor_on_cell.

Theorem C07_cursor_clamped :
  forall h top n cr, cr < pushed_off h top n -> cursor_row_after h top n cr = 0.
Proof. exact cursor_row_clamped. Qed.
Print Assumptions C07_cursor_clamped.

(* whole histories: no render of the history and not the exit ever alters a document line
   that was above the window's first row when the history started (from __enter__: above
   the cursor row); lines only move into the scrollback *)
Theorem C07_history_intact :
  forall far ops ws t,
    CwInv ws t -> cw_top ws <= t_row t -> t_h t - 1 <= far -> Forall (valid_render (t_w t)) ops ->
    exists ws' t' te,
      run_history far ws t ops = Some (ws', t') /\ execs t' (cw_exit ws') = Some te /\
      dbase t <= dbase t' /\ dbase t' <= dbase te /\
      (forall L c, L < dbase t + cw_top ws -> dline t' L c = dline t L c /\ dline te L c = dline t L c).
Proof. exact cw_history_intact. Qed.
Print Assumptions C07_history_intact.
