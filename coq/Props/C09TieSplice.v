(* C09 -- the model of FmtStr.splice IS the method text in the repository (a file of its own, so
   that an edit of that one method un-discharges this obligation only) *)
(* Gen/PureFmt.v holds the syntax tree of curtsies.formatstring.FmtStr.splice, dumped from the
   Python AST of the working tree on every run; [PyMini.call_in] runs it -- the early `return self`,
   isinstance(new_str, FmtStr) / fmtstr(new_str), the `for` over
   zip(self.chunks, self.divides[:-1], self.divides[1:]) with its chained comparisons
   (`end == bfs_start == 0`, `bfs_start <= start < bfs_end`: the middle operand evaluated once,
   the chain cut at the first false comparison), the flag `inserted`, the local list
   `new_components` and its appends / extends, Chunk(text, atts=...) with a keyword argument,
   and FmtStr( *(s for s in new_components if s.s)) -- in the context Spec/PyEnvFmt.v [ctxF3]:
   self.divides is the generated getter of FmtStr.divides (tied in Props/C09Tie.v), bfs.s /
   bfs.atts are the generated getters of Chunk, and the named ORACLES Chunk(s, atts),
   FmtStr( *parts), fmtstr(s) (s without an escape introducer), len(fs) stand for the
   constructors and the memoised __len__.  The parameter names of Chunk that resolve `atts=`
   and the fact that Chunk / FmtStr are classes without subclasses are generated from the live
   module (Gen/PureFmt.v py_signatures, py_classes).
   For EVERY FmtStr f (any runs, texts, attributes), every operand (a str without ESC[ / CSI --
   the scope of fmtstr's oracle -- or any FmtStr), every int start and every end (an int, None, or
   omitted): running the repository's method text returns exactly the object the model
   [Splice.splice] describes -- the same runs in the same order, text AND attributes (empty runs
   filtered out as the code does).  Objects have no identity in the interpreter: where the code
   returns `self` the theorem says the returned object has self's runs (that splice does not
   mutate its operands is C13's subject).  An edit of splice that changes its meaning breaks this
   obligation (and no other). *)
From Curtsies Require Import Model.Base Model.Slice Model.Splice.
From Curtsies Require Spec.PyMini Gen.PureFmt Spec.PyEnvFmt Proofs.PureTieSplice.
Local Open Scope Z_scope.
Theorem C09_splice_is_the_repository_method :
  forall (f : fmtstr) (new : operand) (start : Z) (end_ : option Z),
    operand_plain new = true ->
    PyMini.call_in PyEnvFmt.ctxF3 PureFmt.py_FmtStr_splice
      [PyEnvFmt.embed_fmtstr f; PyEnvFmt.embed_operand new; PyMini.VInt start; PyEnvFmt.embed_optZ end_]
    = Ok (PyEnvFmt.embed_fmtstr (splice f new start end_)).
Proof. exact PureTieSplice.splice_tie. Qed.
Print Assumptions C09_splice_is_the_repository_method.

(* the third parameter left to its default value (None, read off the generated tree) *)
Theorem C09_splice_default_end_is_the_repository_method :
  forall (f : fmtstr) (new : operand) (start : Z),
    operand_plain new = true ->
    PyMini.call_in PyEnvFmt.ctxF3 PureFmt.py_FmtStr_splice
      [PyEnvFmt.embed_fmtstr f; PyEnvFmt.embed_operand new; PyMini.VInt start]
    = Ok (PyEnvFmt.embed_fmtstr (splice f new start None)).
Proof. exact PureTieSplice.splice_tie_default. Qed.
Print Assumptions C09_splice_default_end_is_the_repository_method.

(* not vacuous: a concrete splice, run by the interpreter on the repository's text *)
Example C09_splice_tie_nonvacuous :
  PyMini.call_in PyEnvFmt.ctxF3 PureFmt.py_FmtStr_splice
    [PyEnvFmt.embed_fmtstr [C [97; 98; 99]%N (A 2 0 0 0 0 0 0 0); C [100; 101]%N (A 0 5 1 0 0 0 0 0)];
     PyMini.VStr [88; 89]%N; PyMini.VInt 1; PyMini.VInt 4]
  = Ok (PyEnvFmt.embed_fmtstr [C [97]%N (A 2 0 0 0 0 0 0 0); C [88; 89]%N (A 0 0 0 0 0 0 0 0); C [101]%N (A 0 5 1 0 0 0 0 0)]).
Proof. vm_compute. reflexivity. Qed.
