(* C06 -- the model of FmtStr.__mul__ IS the method text in the repository (a file of its own, so that an
   edit of that one method un-discharges this obligation only) *)
(* Gen/PureFmt.v holds the syntax tree of curtsies.formatstring.FmtStr.__mul__,
       if isinstance(other, int): return sum((self for _ in range(other)), FmtStr())
   ; [PyMini.call_in] runs it in the context Spec/PyEnvFmt.v [ctxF4]: range(n) yields 0 .. n-1 (nothing for
   n <= 0), the generator expression yields self every time, sum(iterable, start) starts from FmtStr() -- the
   named ORACLE for the constructor: no runs -- and replaces its result by result + item, where `+` with a
   FmtStr on the left is the generated FmtStr.__add__ run by the same interpreter (tied in
   Props/C06TieAdd.v).  range and sum are language-level behaviour of the reference semantics
   (Spec/PyMini.v [iter_items], [sum_in]), validated against CPython on every run.
   For EVERY FmtStr and EVERY int (zero and negative ones: the FmtStr without runs): the text returns the
   object the model [Slice.mul] describes, runs and attributes.  (For any other operand the text answers
   NotImplemented, which is not a value of the interpreter: an error outcome there, and no theorem here.) *)
From Coq Require Import ZArith.
From Curtsies Require Import Model.Base Model.Slice.
From Curtsies Require Spec.PyMini Gen.PureFmt Spec.PyEnvFmt Proofs.PureTieMul.
Theorem C06_mul_is_the_repository_method :
  forall (f : fmtstr) (n : Z),
    PyMini.call_in PyEnvFmt.ctxF4 PureFmt.py_FmtStr_mul [PyEnvFmt.embed_fmtstr f; PyMini.VInt n]
    = Ok (PyEnvFmt.embed_fmtstr (mul f n)).
Proof. exact PureTieMul.mul_tie. Qed.
Print Assumptions C06_mul_is_the_repository_method.
