(* C15 -- str methods on a FmtStr agree with str on its text.
   [split] / [splitlines] / [just] / [delegate] model FmtStr.split / splitlines /
   ljust+rjust / the __getattr__ wrapper (Model/StrMeth.v) on the proved model of
   slicing; [str_split], [str_splitlines], [cut_spans], [interleave] are the
   references of Spec/StrSpec.v.  The regex engine is the argument [ms] (its match
   spans) for regex=True; an explicit separator is scanned by the model itself. *)
From Curtsies Require Import Model.Base Spec.ListOps Model.Slice Spec.StrSpec Model.StrMeth Proofs.StrMeth.
Close Scope N_scope.

(* f.split(sep), sep non-empty: the texts of the pieces are str.split's *)
Theorem C15_split_text_is_str_split :
  forall is_space f sep, sep <> [] ->
    exists rs, split is_space f (SepLit sep) None = Ok rs /\ map text rs = str_split (text f) sep.
Proof. exact split_lit_text. Qed.
Print Assumptions C15_split_text_is_str_split.

(* ... every piece is the sub-list of the per-character cells between two occurrences
   (each character keeps its own formatting); the occurrences are sorted and disjoint;
   putting the separators' cells back between the pieces gives cells f *)
Theorem C15_split_pieces_keep_their_cells :
  forall is_space f sep, sep <> [] ->
    let spans := nat_spans (lit_spans sep (text f)) in
    exists rs, split is_space f (SepLit sep) None = Ok rs /\
      map cells rs = cut_spans (cells f) spans /\
      spans_ok 0 (length (cells f)) spans /\
      interleave (map cells rs) (map (fun s => sub (cells f) (fst s) (snd s)) spans) = cells f.
Proof. exact split_lit_cells. Qed.
Print Assumptions C15_split_pieces_keep_their_cells.

(* the reference itself: sep.join(s.split(sep)) == s *)
Theorem C15_reference_split_inverts_join :
  forall s sep, sep <> [] -> join_lists sep (str_split s sep) = s.
Proof. exact join_str_split. Qed.
Print Assumptions C15_reference_split_inverts_join.

(* f.split(pattern, regex=True) for ANY list of sorted, disjoint match spans inside the text *)
Theorem C15_split_regex_any_engine :
  forall is_space f ms,
    nonneg_spans ms -> spans_ok 0 (length (cells f)) (nat_spans ms) ->
    let spans := nat_spans ms in
    exists rs, split is_space f (SepRegex ms) None = Ok rs /\
      map cells rs = cut_spans (cells f) spans /\
      map text rs = cut_spans (text f) spans /\
      interleave (map cells rs) (map (fun s => sub (cells f) (fst s) (snd s)) spans) = cells f.
Proof. exact split_regex_cells. Qed.
Print Assumptions C15_split_regex_any_engine.

(* f.splitlines(keepends), both values: the texts are str.splitlines' ("\n" the only boundary) *)
Theorem C15_splitlines_text :
  forall f keepends,
    exists rs, splitlines f keepends = Ok rs /\ map text rs = str_splitlines keepends (text f).
Proof. exact splitlines_text. Qed.
Print Assumptions C15_splitlines_text.
