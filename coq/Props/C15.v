(* C15 -- str methods on a FmtStr agree with str on its text.
   [split] / [splitlines] / [just] / [delegate] model FmtStr.split / splitlines /
   ljust+rjust / the __getattr__ wrapper (Model/StrMeth.v) on the proved model of
   slicing; [str_split], [str_splitlines], [cut_spans], [interleave] are the
   references of Spec/StrSpec.v.  The regex engine is the argument [ms] (its match
   spans) for regex=True; an explicit separator is scanned by the model itself. *)
From Curtsies Require Import Model.Base Spec.ListOps Model.Slice Spec.StrSpec Model.StrMeth Proofs.StrMeth.
Close Scope N_scope.

(* f.split(sep), sep non-empty: the texts of the pieces are str.split's *)
Theorem C15_split_text_is_str_split :
  forall is_space f sep, sep <> [] ->
    exists rs, split is_space f (SepLit sep) None = Ok rs /\ map text rs = str_split (text f) sep.
Proof. exact split_lit_text. Qed.
Print Assumptions C15_split_text_is_str_split.

(* ... every piece is the sub-list of the per-character cells between two occurrences
   (each character keeps its own formatting); the occurrences are sorted and disjoint;
   putting the separators' cells back between the pieces gives cells f *)
Theorem C15_split_pieces_keep_their_cells :
  forall is_space f sep, sep <> [] ->
    let spans := nat_spans (lit_spans sep (text f)) in
    exists rs, split is_space f (SepLit sep) None = Ok rs /\
      map cells rs = cut_spans (cells f) spans /\
      spans_ok 0 (length (cells f)) spans /\
      interleave (map cells rs) (map (fun s => sub (cells f) (fst s) (snd s)) spans) = cells f.
Proof. exact split_lit_cells. Qed.
Print Assumptions C15_split_pieces_keep_their_cells.

(* the reference itself: sep.join(s.split(sep)) == s *)
Theorem C15_reference_split_inverts_join :
  forall s sep, sep <> [] -> join_lists sep (str_split s sep) = s.
Proof. exact join_str_split. Qed.
Print Assumptions C15_reference_split_inverts_join.

(* f.split(pattern, regex=True) for ANY list of sorted, disjoint match spans inside the text *)
Theorem C15_split_regex_any_engine :
  forall is_space f ms,
    nonneg_spans ms -> spans_ok 0 (length (cells f)) (nat_spans ms) ->
    let spans := nat_spans ms in
    exists rs, split is_space f (SepRegex ms) None = Ok rs /\
      map cells rs = cut_spans (cells f) spans /\
      map text rs = cut_spans (text f) spans /\
      interleave (map cells rs) (map (fun s => sub (cells f) (fst s) (snd s)) spans) = cells f.
Proof. exact split_regex_cells. Qed.
Print Assumptions C15_split_regex_any_engine.

(* f.splitlines(keepends), both values: the texts are str.splitlines' ("\n" the only boundary) *)
Theorem C15_splitlines_text :
  forall f keepends,
    exists rs, splitlines f keepends = Ok rs /\ map text rs = str_splitlines keepends (text f).
Proof. exact splitlines_text. Qed.
Print Assumptions C15_splitlines_text.

(* ... and the CELLS: every line is the sub-list of the per-character cells of f at its
   offset (each character keeps its own formatting): [pieces_at l off gap lens] = the
   sub-lists of l of lengths lens, the first at off, consecutive ones gap apart - the
   newline between two lines without keepends, nothing with keepends; with keepends the
   lines, concatenated, are cells f *)
Theorem C15_splitlines_lines_keep_their_cells :
  forall f keepends,
    exists rs, splitlines f keepends = Ok rs /\
      map text rs = str_splitlines keepends (text f) /\
      map cells rs = pieces_at (cells f) 0 (if keepends then 0 else 1)
                               (map (@length char) (str_splitlines keepends (text f))) /\
      (keepends = true -> concat (map cells rs) = cells f).
Proof. exact splitlines_cells. Qed.
Print Assumptions C15_splitlines_lines_keep_their_cells.

Example C15_splitlines_lines_keep_their_cells_nonvacuous :
  let f := [C [97; 10]%N (A 2 0 0 0 0 0 0 0); C [98; 10; 10; 99]%N (A 0 3 1 0 0 0 0 0)] in
  (exists rs, splitlines f true = Ok rs /\ length rs = 4 /\ concat (map cells rs) = cells f) /\
  (exists rs, splitlines f false = Ok rs /\
     map cells rs = [[(97, Sg 2 0 0 0 0 0 0 0)]; [(98, Sg 0 3 1 0 0 0 0 0)]; []; [(99, Sg 0 3 1 0 0 0 0 0)]]%N).
Proof. split; eexists; vm_compute; repeat split. Qed.

(* the reference itself: "".join(s.splitlines(True)) == s *)
Theorem C15_reference_splitlines_keepends_concat :
  forall s, concat (str_splitlines true s) = s.
Proof. exact concat_str_splitlines_keepends. Qed.
Print Assumptions C15_reference_splitlines_keepends_concat.

(* ---- ljust / rjust ([just true] / [just false]) ------------------------------------------
   [fill_char fill = Some fc]: no fillchar (fc = None) or a fillchar of exactly one
   character (fc = Some c).  [just_scope]: the text handed to fmtstr() is one that
   FmtStr.from_str does not parse (only the fillchar branch hands text of f to it).
   [py_just left] = py_ljust / py_rjust of Spec/StrSpec.v = str.ljust / str.rjust. *)

(* the text is str.ljust / str.rjust of the text, for every f with at least one run *)
Theorem C15_just_text_is_str_just :
  forall left f width fill fc, f <> [] -> fill_char fill = Some fc -> just_scope left f width fc ->
    exists r, just left f width fill = Ok r /\ text r = py_just left (text f) width (fill_or_space fc).
Proof. exact just_text. Qed.
Print Assumptions C15_just_text_is_str_just.

(* what the code does with the formatting, exactly ([just_cells], Proofs/StrMeth.v section 8,
   on the cells of f and m = the formatting shared by all characters of f):
     fillchar given                      characters and padding all carry exactly m
     no fillchar, m has a background     characters untouched; padding = spaces with that
                                         background and nothing else
     no fillchar, no shared background   every character loses its background; padding = spaces with m *)
Theorem C15_just_cells_three_branches :
  forall left f width fill fc,
    cells f <> [] -> fill_char fill = Some fc -> just_scope left f width fc ->
    exists r, just left f width fill = Ok r /\
      cells r = just_cells left (cells f) (meet_sgr (states (cells f))) width fc.
Proof. exact just_cells_shared. Qed.
Print Assumptions C15_just_cells_three_branches.

(* "no formatting that no character had": the result is the original characters in order
   with the padding after (ljust) / before (rjust) them; an original character shows at
   most what it showed in f and at least what all characters of f show; a padding cell
   shows only what EVERY character of f shows (same attribute, same value) *)
Theorem C15_just_padding_within_shared_formatting :
  forall left f width fill fc,
    cells f <> [] -> fill_char fill = Some fc -> just_scope left f width fc ->
    let m := meet_sgr (states (cells f)) in
    let n := Z.to_nat (width - Z.of_nat (length (cells f))) in
    exists r orig,
      just left f width fill = Ok r /\
      let pad := repeat (fill_or_space fc, padding_state m fc) n in
      cells r = (if left then orig ++ pad else pad ++ orig) /\
      Forall2 (fun o c => fst o = fst c /\ sgr_le (snd o) (snd c) = true /\ sgr_le m (snd o) = true)
              orig (cells f) /\
      (forall c, In c (cells f) -> sgr_le (padding_state m fc) (snd c) = true).
Proof. exact just_no_new_formatting. Qed.
Print Assumptions C15_just_padding_within_shared_formatting.

Example C15_just_nonvacuous :
  let f := [C [97]%N (A 2 3 1 0 0 0 0 0); C []%N (A 5 0 0 0 0 0 0 0); C [98]%N (A 2 3 0 0 0 0 0 0)] in
  cells f <> [] /\ fill_char None = Some None /\ fill_char (Some [42%N]) = Some (Some 42%N) /\
  just_scope true f 4 None /\ just_scope false f 3 (Some 42%N) /\
  meet_sgr (states (cells f)) = Sg 2 3 0 0 0 0 0 0 /\
  (exists r, ljust f 4 None = Ok r /\
     cells r = [(97, Sg 2 3 1 0 0 0 0 0); (98, Sg 2 3 0 0 0 0 0 0); (32, Sg 0 3 0 0 0 0 0 0); (32, Sg 0 3 0 0 0 0 0 0)]%N) /\
  (exists r, rjust f 3 (Some [42%N]) = Ok r /\
     cells r = [(42, Sg 2 3 0 0 0 0 0 0); (97, Sg 2 3 0 0 0 0 0 0); (98, Sg 2 3 0 0 0 0 0 0)]%N).
Proof. vm_compute. repeat split; try discriminate; eexists; split; reflexivity. Qed.

(* the error branches: a fillchar that is not one character long is the builtin's TypeError
   (raised before the runs are looked at); a FmtStr without runs is an IndexError (shared_atts) *)
Theorem C15_just_bad_fillchar_is_TypeError :
  forall left f width fc, fill_char (Some fc) = None -> just left f width (Some fc) = Raise TypeError.
Proof. exact just_bad_fillchar. Qed.
Print Assumptions C15_just_bad_fillchar_is_TypeError.

Theorem C15_just_no_runs_is_IndexError :
  forall left width fill fc, fill_char fill = Some fc -> just left [] width fill = Raise IndexError.
Proof. exact just_no_runs. Qed.
Print Assumptions C15_just_no_runs_is_IndexError.

(* REFUTED (not claimed by the property, recorded): "the original characters keep their own
   cells".  (on_red('a') + on_blue('b')).ljust(4) and even .ljust(1) return the characters
   WITHOUT their backgrounds; with a fillchar every character is reduced to the shared formatting *)
Example C15_just_keeps_own_cells_refuted :
  let f := [C [97]%N (A 0 2 0 0 0 0 0 0); C [98]%N (A 0 5 0 0 0 0 0 0)] in
  (exists r, ljust f 4 None = Ok r /\ firstn 2 (cells r) <> cells f /\
             cells r = [(97, sgr_default); (98, sgr_default); (32, sgr_default); (32, sgr_default)]%N) /\
  (exists r, ljust f 1 None = Ok r /\ cells r <> cells f) /\
  (exists r, rjust [C [97]%N (A 2 0 1 0 0 0 0 0); C [98]%N (A 2 0 0 0 0 0 0 0)] 3 (Some [42%N]) = Ok r /\
             cells r = [(42, Sg 2 0 0 0 0 0 0 0); (97, Sg 2 0 0 0 0 0 0 0); (98, Sg 2 0 0 0 0 0 0 0)]%N).
Proof. exact just_keeps_own_cells_refuted. Qed.

(* ---- the __getattr__ wrapper, for an ARBITRARY str method m ---------------------------------
   m : the answer of getattr(f.s, att)( *args) as a function of f.s - a str, a list of strs,
   anything else, or an exception.  [tagged st s] = every character of s with the state st.
   Scope: answers that FmtStr.from_str does not parse ([has_esc_intro] false). *)

(* a str answer: the same text; every character carries exactly the formatting shared by all
   characters of f - which every character of f shows *)
Theorem C15_delegated_str_result :
  forall (X : Type) (m : str -> mres X) f s,
    cells f <> [] -> m (text f) = MStr s -> has_esc_intro s = false ->
    let sh := meet_sgr (states (cells f)) in
    exists r, delegate m f = Ok (DFmt r) /\ text r = s /\ cells r = tagged sh s /\
              (forall c, In c (cells f) -> sgr_le sh (snd c) = true).
Proof. exact @delegate_str. Qed.
Print Assumptions C15_delegated_str_result.

(* a list-of-str answer: likewise, item by item *)
Theorem C15_delegated_list_result :
  forall (X : Type) (m : str -> mres X) f l,
    cells f <> [] -> m (text f) = MList l -> Forall (fun s => has_esc_intro s = false) l ->
    let sh := meet_sgr (states (cells f)) in
    exists rs, delegate m f = Ok (DList rs) /\ map text rs = l /\ map cells rs = map (tagged sh) l /\
               (forall c, In c (cells f) -> sgr_le sh (snd c) = true).
Proof. exact @delegate_list. Qed.
Print Assumptions C15_delegated_list_result.

(* runs but no character: the attributes are whatever shared_atts answers (those of the first run) *)
Theorem C15_delegated_str_result_any_runs :
  forall (X : Type) (m : str -> mres X) f s sh,
    m (text f) = MStr s -> shared_atts f = Ok sh -> has_esc_intro s = false ->
    exists r, delegate m f = Ok (DFmt r) /\ text r = s /\ cells r = tagged (eff sh) s.
Proof. exact @delegate_str_exact. Qed.
Print Assumptions C15_delegated_str_result_any_runs.

(* a non-text answer is passed through unchanged, an exception propagates *)
Theorem C15_delegated_plain_result :
  forall (X : Type) (m : str -> mres X) f x, m (text f) = MOther x -> delegate m f = Ok (DOther x).
Proof. exact @delegate_other. Qed.
Print Assumptions C15_delegated_plain_result.

Theorem C15_delegated_exception :
  forall (X : Type) (m : str -> mres X) f e, m (text f) = MRaise e -> delegate m f = Raise e.
Proof. exact @delegate_raise. Qed.
Print Assumptions C15_delegated_exception.

(* a FmtStr without runs: IndexError (self.chunks[0] in shared_atts) as soon as a piece of
   text has to be wrapped; an empty list is returned as it is *)
Theorem C15_delegated_no_runs :
  forall (X : Type) (m : str -> mres X),
    (forall s, m [] = MStr s -> delegate m [] = Raise IndexError) /\
    (forall s l, m [] = MList (s :: l) -> delegate m [] = Raise IndexError) /\
    (m [] = MList [] -> delegate m [] = Ok (DList [])).
Proof. exact @delegate_no_runs. Qed.
Print Assumptions C15_delegated_no_runs.

Example C15_delegated_nonvacuous :
  let f := [C [97]%N (A 2 0 1 0 0 0 0 0); C [98; 44; 99]%N (A 2 0 0 0 0 0 0 0)] in
  let upper : str -> mres unit := fun s => MStr (map (fun c => if (N.leb 97 c && N.leb c 122)%bool then (c - 32)%N else c) s) in
  let pieces : str -> mres unit := fun s => MList (str_split s [44%N]) in
  cells f <> [] /\ meet_sgr (states (cells f)) = Sg 2 0 0 0 0 0 0 0 /\
  (exists r, delegate upper f = Ok (DFmt r) /\
     cells r = [(65, Sg 2 0 0 0 0 0 0 0); (66, Sg 2 0 0 0 0 0 0 0); (44, Sg 2 0 0 0 0 0 0 0); (67, Sg 2 0 0 0 0 0 0 0)]%N) /\
  (exists rs, delegate pieces f = Ok (DList rs) /\
     map cells rs = [[(97, Sg 2 0 0 0 0 0 0 0); (98, Sg 2 0 0 0 0 0 0 0)]; [(99, Sg 2 0 0 0 0 0 0 0)]]%N).
Proof. exact delegate_nonvacuous. Qed.

(* ---- what the code rejects --------------------------------------------------------------------- *)
(* split with a maxsplit argument: NotImplementedError("no maxsplit yet"), whatever the separator *)
Theorem C15_split_maxsplit_is_rejected :
  forall is_space f sep k, split is_space f sep (Some k) = Raise NotImplementedError.
Proof. exact split_maxsplit. Qed.
Print Assumptions C15_split_maxsplit_is_rejected.
