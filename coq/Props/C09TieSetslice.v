(* C09 -- the model of FmtStr.setslice_with_length IS the method text in the repository (a file of its
   own; FmtStr.setitem, which only calls it, is Props/C09TieSetitem.v) *)
(* Gen/PureFmt.v holds the syntax trees of curtsies.formatstring.FmtStr.setslice_with_length and
   FmtStr.setitem; [PyMini.call_in] runs them in the contexts Spec/PyEnvFmt.v [ctxF4] / [ctxF5]:
   the METHODS they call are generated trees run by the same interpreter -- self.splice (tied in
   Props/C09TieSplice.v), `" " * k + fs` / `fs + " " * k` with fs a FmtStr = FmtStr.__radd__ /
   __add__ (tied in Props/C06TieAdd.v), and for setitem self.setslice_with_length itself -- and
   len(fs) is the named oracle for the memoised __len__.  The padding with spaces, the assert
   (whose message is evaluated when it fails), the call of splice and the length check are the
   repository's statements.
   For EVERY FmtStr, all ints startindex / endindex / length and every operand (a str without
   ESC[ / CSI, or a FmtStr): the text returns the object the model [Splice.setslice_with_length]
   describes (runs and attributes), or raises AssertionError / ValueError exactly when the model
   does. *)
From Curtsies Require Import Model.Base Model.Slice Model.Splice.
From Curtsies Require Spec.PyMini Gen.PureFmt Spec.PyEnvFmt Proofs.PureTieFmtBase Proofs.PureTieSetslice.
Local Open Scope Z_scope.
Theorem C09_setslice_with_length_is_the_repository_method :
  forall (f : fmtstr) (startindex endindex : Z) (fs : operand) (length : Z),
    operand_plain fs = true ->
    PyMini.call_in PyEnvFmt.ctxF4 PureFmt.py_FmtStr_setslice_with_length
      [PyEnvFmt.embed_fmtstr f; PyMini.VInt startindex; PyMini.VInt endindex; PyEnvFmt.embed_operand fs;
       PyMini.VInt length]
    = PureTieFmtBase.embed_fs_res (setslice_with_length f startindex endindex fs length).
Proof. exact PureTieSetslice.setslice_tie. Qed.
Print Assumptions C09_setslice_with_length_is_the_repository_method.
