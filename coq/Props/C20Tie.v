(* C20 -- the models of _key_name / get_key ARE the function texts in the repository *)
(* ---- tie of the model's naming function to the function text in the repository ----------------
   Gen/Pure.v holds the syntax tree of curtsies.events._key_name (and of get_key, which calls it:
   Props/C03.v), dumped from the Python AST of the working tree on every run (gen/gen_pure.py);
   [PyMini.call_in] is the reference semantics of that Python subset (Spec/PyMini.v) run in the
   context of the events module (Spec/PyEnv.v: the generated tables, Keynames, and the oracle
   bytes.decode = Model/Utf8.decode).  For ALL byte strings, every encoding name of the alias
   table and the three naming modes, the repository's text of _key_name gives exactly the model's
   [key_name]: the table name, the decoded text, "x%02X" of an undecodable single byte,
   NotImplementedError / UnicodeDecodeError, or the bytes themselves under BYTES naming. *)
From Curtsies Require Import Model.Base Gen.Tables Model.Utf8 Model.Keys.
From Curtsies Require Spec.PyMini Gen.Pure Spec.PyEnv Proofs.PureTieKeys.
Local Open Scope N_scope.
Theorem C20_key_name_is_the_repository_function :
  forall (name : list N) (enc : encoding) (mode : keynames) (seq : list N),
    PyEnv.codec_of_name name = Some enc -> is_bytes seq = true ->
    PyMini.call_in PyEnv.ctx0 Pure.py_key_name [PyMini.VBytes seq; PyMini.VStr name; PureTieKeys.embed_mode mode]
    = PureTieKeys.embed_name mode (key_name enc mode seq).
Proof. exact PureTieKeys.key_name_tie. Qed.
Print Assumptions C20_key_name_is_the_repository_function.

(* ... and get_key hands its naming-mode argument to it unchanged (the full statement is
   C03_get_key_is_the_repository_function) *)
Theorem C20_get_key_is_the_repository_function :
  forall (name : list N) (enc : encoding) (mode : keynames) (full : bool) (chunks : list (list N)),
    PyEnv.codec_of_name name = Some enc -> is_bytes (concat chunks) = true ->
    PyMini.call_in PyEnv.ctx2 Pure.py_get_key
      [PureTieKeys.bytes_list chunks; PyMini.VStr name; PureTieKeys.embed_mode mode; PyMini.VBool full]
    = PureTieKeys.embed_outcome mode (get_key enc mode full (concat chunks)).
Proof. exact PureTieKeys.get_key_tie. Qed.
Print Assumptions C20_get_key_is_the_repository_function.
