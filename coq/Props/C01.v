(* C01 -- str(FmtStr) displays exactly its characters and formatting, then resets;
   apart from the text the string contains nothing but SGR sequences
   ([display] fails on anything else). *)
From Curtsies Require Import Model.Base Gen.Tables Model.Render Spec.Sgr Proofs.RenderSgr.

Theorem C01_render_displays_cells_and_resets :
  forall f : fmtstr, clean f = true ->
    display (render f) = Some (cells f, sgr_default, Ground).
Proof. exact render_displays. Qed.
Print Assumptions C01_render_displays_cells_and_resets.

(* the terminal string is built run by run *)
Theorem C01_render_of_a_concatenation :
  forall f g : fmtstr, render (f ++ g) = render f ++ render g.
Proof. exact render_app. Qed.
Print Assumptions C01_render_of_a_concatenation.

(* a FmtStr none of whose runs switches anything on (attributes absent or explicitly False, no
   colours) renders as its plain text: no escape sequence at all *)
Theorem C01_unstyled_renders_as_its_text :
  forall f : fmtstr, forallb (fun c => unstyled (c_a c)) f = true -> render f = text f.
Proof. exact render_unstyled. Qed.
Print Assumptions C01_unstyled_renders_as_its_text.

(* what is displayed depends on the cells only, not on where the runs are cut *)
Theorem C01_display_depends_on_the_cells_only :
  forall f g : fmtstr, clean f = true -> clean g = true -> cells f = cells g ->
    display (render f) = display (render g).
Proof. exact same_cells_same_display. Qed.
Print Assumptions C01_display_depends_on_the_cells_only.

Example C01_nonvacuous :
  let f := [C [104; 105; 10] (A 2 5 1 0 2 0 0 1); C [] (A 0 0 1 0 0 0 0 0); C [9; 65279; 120] (A 0 0 0 0 0 1 0 0)] in
  let u := [C [104; 105] (A 0 0 2 0 0 0 0 2); C [33] (A 0 0 0 0 0 0 0 0)] in
  clean f = true /\ length (cells f) = 6%nat /\ display (render f) = Some (cells f, sgr_default, Ground) /\
  forallb (fun c => unstyled (c_a c)) u = true /\ render u = [104; 105; 33].
Proof. vm_compute. repeat split. Qed.
