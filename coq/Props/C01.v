(* C01 -- str(FmtStr) displays exactly its characters and formatting, then resets;
   apart from the text the string contains nothing but SGR sequences
   ([display] fails on anything else). *)
From Curtsies Require Import Model.Base Gen.Tables Model.Render Spec.Sgr Proofs.RenderSgr.

Theorem C01_render_displays_cells_and_resets :
  forall f : fmtstr, clean f = true ->
    display (render f) = Some (cells f, sgr_default, Ground).
Proof. exact render_displays. Qed.
Print Assumptions C01_render_displays_cells_and_resets.
