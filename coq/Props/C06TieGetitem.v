(* C06 -- the model of FmtStr.__getitem__ IS the method text in the repository (a file of its own,
   so that an edit of that one method un-discharges this obligation only) *)
From Curtsies Require Import Model.Base Spec.ListOps Model.Slice.
From Curtsies Require Spec.PyMini Gen.Pure Proofs.PureTieSlice.
Local Open Scope Z_scope.
(* ---- tie of the model's FmtStr.__getitem__ to the method text in the repository ------------
   Gen/PureFmt.v holds the syntax tree of curtsies.formatstring.FmtStr.__getitem__ (and of the
   getters Chunk.s, Chunk.atts, Chunk.__len__ it uses), dumped from the Python AST of the
   working tree on every run; [PyMini.call_in] runs it -- the `for` over self.chunks with its
   `break`, the counter, the local list `parts` and its appends, the attribute reads, the
   construction of the result -- in the context Spec/PyEnvFmt.v [ctxF0]: normalize_slice is the
   generated function above, the Chunk getters are generated, and the named ORACLES
   len(fs) = sum of the run lengths, Chunk(s, atts), FmtStr( *parts), fmtstr("") stand for the
   constructors and the memoised __len__ (stated in Spec/PyEnvFmt.v, validated against CPython
   on every run).
   For EVERY FmtStr f (any number of runs, any texts and attributes; as an object: its list of
   Chunk objects, each with its text and its attribute dict) and every index (int, or slice with
   any mix of int / None bounds and step): running the repository's method text gives exactly
   what the model [getitem] computes -- the same runs, text AND attributes, as a FmtStr object,
   or IndexError / NotImplementedError.  An edit of __getitem__ that changes its meaning breaks
   this obligation (and no other). *)
From Curtsies Require Gen.PureFmt Spec.PyEnvFmt Proofs.PureTieFmtBase Proofs.PureTieGetitem.
Theorem C06_getitem_is_the_repository_method :
  forall (f : fmtstr) (ix : index),
    PyMini.call_in PyEnvFmt.ctxF0 PureFmt.py_FmtStr_getitem
      [PyEnvFmt.embed_fmtstr f; PureTieSlice.embed_index ix]
    = PureTieFmtBase.embed_fs_res (getitem f ix).
Proof. exact PureTieGetitem.getitem_tie. Qed.
Print Assumptions C06_getitem_is_the_repository_method.
