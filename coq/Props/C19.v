(* C19 -- equality, hashing and repr of FmtStr are coherent with what it displays.
   Model: Model/Atts.v (py_eq = FmtStr.__eq__ on FmtStr, py_eq_str / py_str_eq = == with a
   plain str in either operand order, py_hash = __hash__ for an arbitrary str hash,
   py_repr / eval_sum = __repr__ as an expression tree and its evaluation in the fmtfuncs
   namespace through the C14 model); render = str(f) (Model/Render.v); the display side is
   the reference SGR interpreter through theorem render_displays (C01). *)
From Curtsies Require Import Model.Base Gen.Tables Model.Render Model.Atts Spec.Sgr Spec.AttSpec
  Proofs.RenderSgr Proofs.Atts.

(* two FmtStrs compare equal exactly when they produce the same terminal string *)
Theorem C19_eq_iff_same_terminal_string :
  forall f g, py_eq f g = true <-> render f = render g.
Proof. exact py_eq_iff. Qed.
Print Assumptions C19_eq_iff_same_terminal_string.

(* ... hence (C01) equal values show the same characters with the same formatting *)
Theorem C19_eq_same_cells :
  forall f g, py_eq f g = true -> clean f = true -> clean g = true -> cells f = cells g.
Proof. exact py_eq_same_cells. Qed.
Print Assumptions C19_eq_same_cells.

(* == is an equivalence (reflexive, symmetric in the operands, transitive) *)
Theorem C19_eq_equivalence :
  (forall f, py_eq f f = true) /\ (forall f g, py_eq f g = py_eq g f) /\
  (forall f g h, py_eq f g = true -> py_eq g h = true -> py_eq f h = true).
Proof. split; [exact py_eq_refl | split; [exact py_eq_sym | exact py_eq_trans]]. Qed.
Print Assumptions C19_eq_equivalence.

(* a FmtStr equals a plain str exactly when its terminal string is that str, operands in either
   order; such a FmtStr shows the str unformatted *)
Theorem C19_eq_with_str :
  (forall f s, py_eq_str f s = true <-> render f = s) /\
  (forall s f, py_str_eq s f = py_eq_str f s) /\
  (forall f s, py_eq_str f s = true -> clean f = true -> clean_str s = true -> cells f = plain_cells s).
Proof. split; [exact py_eq_str_iff | split; [exact py_str_eq_sym | exact py_eq_str_cells]]. Qed.
Print Assumptions C19_eq_with_str.

(* equal values hash equal, for any hash function on str; a FmtStr hashes like its terminal
   string, so a FmtStr equal to a str hashes like that str *)
Theorem C19_hash_coherent :
  forall (H : Type) (hash_str : str -> H),
    (forall f g, py_eq f g = true -> py_hash hash_str f = py_hash hash_str g) /\
    (forall f, py_hash hash_str f = hash_str (render f)) /\
    (forall f s, py_eq_str f s = true -> py_hash hash_str f = hash_str s).
Proof.
  intros H hash_str. split; [apply py_eq_hash | split; [apply py_hash_is_hash_of_str | apply py_eq_str_hash]].
Qed.
Print Assumptions C19_hash_coherent.

(* repr(f), evaluated in the fmtfuncs namespace, has the characters and formatting of f
   (at least one run; no run's text contains ESC '[', which fmtstr() would parse) *)
Theorem C19_repr_eval :
  forall f, f <> [] -> no_esc f = true ->
    exists es v, py_repr f = Ok es /\ eval_sum es = Some (Ok v) /\ val_cells v = cells f.
Proof. exact repr_eval. Qed.
Print Assumptions C19_repr_eval.

Theorem C19_repr_eval_clean :
  forall f, f <> [] -> clean f = true ->
    exists es v, py_repr f = Ok es /\ eval_sum es = Some (Ok v) /\ val_cells v = cells f.
Proof. intros f N C. apply repr_eval; [assumption | now apply clean_no_esc]. Qed.
Print Assumptions C19_repr_eval_clean.

(* the number -> name tables used by repr give the reference names back *)
Theorem C19_repr_names :
  (forall c, fg_pp (Some c) = Ok (Some (color_name c))) /\
  (forall c, bg_pp (Some c) = Ok (Some (n_on ++ color_name c))).
Proof. split; [exact fg_pp_name | exact bg_pp_name]. Qed.
Print Assumptions C19_repr_names.
