(* C06 -- the model of FmtStr.__radd__ IS the method text in the repository (a file of its own; see
   Props/C06TieAdd.v for what is run and what is assumed: the same holds here, with the generator expression
   `(x for x in other.chunks + self.chunks)` consumed by `*`) *)
From Curtsies Require Import Model.Base Model.Slice.
From Curtsies Require Spec.PyMini Gen.PureFmt Spec.PyEnvFmt Proofs.PureTieRadd.
Theorem C06_radd_is_the_repository_method :
  forall (f : fmtstr) (other : operand),
    PyMini.call_in PyEnvFmt.ctxF3 PureFmt.py_FmtStr_radd [PyEnvFmt.embed_fmtstr f; PyEnvFmt.embed_operand other]
    = Ok (PyEnvFmt.embed_fmtstr (radd f other)).
Proof. exact PureTieRadd.radd_tie. Qed.
Print Assumptions C06_radd_is_the_repository_method.
