(* C09 -- the model of FmtStr.append IS the method text in the repository (a file of its own) *)
(* Gen/PureFmt.v holds the syntax tree of curtsies.formatstring.FmtStr.append
   (`return self.splice(string, len(self.s))`); [PyMini.call_in] runs it in the context
   Spec/PyEnvFmt.v [ctxF4], where the METHOD self.splice is the generated tree of FmtStr.splice run
   by the same interpreter (tied in Props/C09TieSplice.v) and self.s is the named oracle for the
   memoised text.  For EVERY FmtStr and every operand (a str without ESC[ / CSI, or a FmtStr): the
   text returns the object the model [Splice.append] describes, runs and attributes. *)
From Curtsies Require Import Model.Base Model.Slice Model.Splice.
From Curtsies Require Spec.PyMini Gen.PureFmt Spec.PyEnvFmt Proofs.PureTieAppend.
Local Open Scope Z_scope.
Theorem C09_append_is_the_repository_method :
  forall (f : fmtstr) (x : operand),
    operand_plain x = true ->
    PyMini.call_in PyEnvFmt.ctxF4 PureFmt.py_FmtStr_append [PyEnvFmt.embed_fmtstr f; PyEnvFmt.embed_operand x]
    = Ok (PyEnvFmt.embed_fmtstr (append f x)).
Proof. exact PureTieAppend.append_tie. Qed.
Print Assumptions C09_append_is_the_repository_method.
