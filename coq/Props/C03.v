(* C03 -- key decoding splits any byte stream losslessly into correctly named keys.
   Model: Model/Keys.v (events.get_key, _key_name, could_be_unfinished_*, the
   find_key loop of Input._send), Model/Utf8.v (the codecs); the tables are the
   generated ones (Gen/Tables.v); reference notions: Spec/KeySpec.v. *)
From Curtsies Require Import Model.Base Gen.Tables Model.Utf8 Model.Keys Model.KeyMap Spec.KeySpec Proofs.Keys.
Local Open Scope N_scope.

(* 1. lossless, for ALL byte strings, encodings, naming modes and any number of
      find_key calls: the bytes consumed by the keys, in order, followed by the
      unconsumed rest, are the buffer; every key consumed at least one byte and
      is the name (in that mode) of exactly the bytes it consumed *)
Theorem C03_lossless :
  forall enc mode n buf ks rest,
    find_keys_n n enc mode buf = Ok (ks, rest) ->
    concat (map snd ks) ++ rest = buf /\
    Forall (fun ku => snd ku <> [] /\ name_ok enc mode (snd ku) (fst ku) = true) ks.
Proof. exact find_keys_n_lossless. Qed.
Print Assumptions C03_lossless.

(* ... observed through BYTES naming: the keys themselves concatenate to the buffer *)
Theorem C03_lossless_bytes :
  forall enc n buf ks rest,
    find_keys_n n enc BYTES buf = Ok (ks, rest) -> concat (map fst ks) ++ rest = buf.
Proof. exact find_keys_bytes_lossless. Qed.
Print Assumptions C03_lossless_bytes.

(* ... and decoding to the end of the buffer leaves nothing behind *)
Theorem C03_lossless_whole_buffer :
  forall enc mode buf ks rest,
    find_keys enc mode buf = Ok (ks, rest) -> rest = [] /\ concat (map snd ks) = buf.
Proof. exact find_keys_lossless. Qed.
Print Assumptions C03_lossless_whole_buffer.

(* 2. exact failure characterisation, ALL byte strings: the only exceptions are
      ValueError (longer than the longest table sequence) and UnicodeDecodeError
      (not a table sequence, not decodable, not in KEYMAP_PREFIXES, and not -- by
      its FIRST byte only -- an unfinished character) *)
Theorem C03_get_key_raises_iff :
  forall enc mode full s e,
    get_key enc mode full s = Err e <->
    ((max_keypress_size < length s)%nat /\ e = ValueError) \/
    ((length s <= max_keypress_size)%nat /\ key_known enc s = false /\
     in_prefixes s = false /\ waiting enc s = false /\ e = UnicodeDecodeError).
Proof. exact get_key_raises_iff. Qed.
Print Assumptions C03_get_key_raises_iff.

(* 3. exactly when more input is asked for, ALL byte strings *)
Theorem C03_get_key_more_iff :
  forall enc mode full s,
    get_key enc mode full s = More <->
    (length s <= max_keypress_size)%nat /\ (full && key_known enc s = false) /\
    (in_prefixes s = true \/ waiting enc s = true).
Proof. exact get_key_more_iff. Qed.
Print Assumptions C03_get_key_more_iff.

(* KEYMAP_PREFIXES, as built by events.py, is exactly the set of non-empty
   proper prefixes of ESC-initiated table sequences (computed here from the tables) *)
Theorem C03_prefixes_correct : forall s, in_prefixes s = growable s.
Proof. exact prefixes_correct. Qed.
Print Assumptions C03_prefixes_correct.

(* 2/3 on the complete one-step tree: every node p (empty, or one of the
   members of KEYMAP_PREFIXES), every next byte (256), every encoding (3),
   naming mode (3), both [full]: the answer has the closed form [expected_step] *)
Theorem C03_one_step_tree :
  forall p b enc mode full, In p tree_nodes -> b < 256 ->
    shape_of (get_key enc mode full (p ++ [b])) = expected_step enc full p b.
Proof. exact one_step_tree. Qed.
Print Assumptions C03_one_step_tree.

(* ... the decoder fails on the tree IFF pending bytes in KEYMAP_PREFIXES are
   followed by a byte >= 0x80 under utf-8 / ascii: the known finding F-C03.
   Outside that family it never fails. *)
Theorem C03_one_step_raises_iff_FC03 :
  forall p b enc mode full e, In p tree_nodes -> b < 256 ->
    (get_key enc mode full (p ++ [b]) = Err e <->
     p <> [] /\ 128 <= b /\ enc <> Latin1 /\ e = UnicodeDecodeError).
Proof. exact one_step_raises_iff. Qed.
Print Assumptions C03_one_step_raises_iff_FC03.

(* the finding is real (witness ESC + e-acute, utf-8) *)
Theorem C03_never_fails_refuted :
  get_key Utf8 CURTSIES false [27; 195] = Err UnicodeDecodeError /\
  find_keys Utf8 BYTES [27; 195; 169] = Raise UnicodeDecodeError /\
  find_keys Utf8 BYTES [27] = Ok ([([27], [27])], []) /\
  find_keys Utf8 CURTSIES [195; 169] = Ok ([([233], [195; 169])], []).
Proof. exact fc03_refuted. Qed.
Print Assumptions C03_never_fails_refuted.

(* ... More on the tree only while growable: a proper prefix of a table
   sequence, or (utf-8, nothing pending) a lead byte by the five masks *)
Theorem C03_one_step_more_iff :
  forall p b enc mode full, In p tree_nodes -> b < 256 ->
    (get_key enc mode full (p ++ [b]) = More <->
     fc03_family enc (p ++ [b]) = false /\ full = false /\
     (growable (p ++ [b]) = true \/ (enc = Utf8 /\ p = [] /\ 192 <= b <= 253))).
Proof. exact one_step_more_iff. Qed.
Print Assumptions C03_one_step_more_iff.

(* ... and every node outside F-C03 satisfies the property relation *)
Theorem C03_one_step_property :
  forall p b enc mode full, In p tree_nodes -> b < 256 ->
    fc03_family enc (p ++ [b]) = true \/
    prop_ok enc mode full (p ++ [b]) (get_key enc mode full (p ++ [b])) = true.
Proof. exact one_step_property. Qed.
Print Assumptions C03_one_step_property.

(* 4. table names: kernel-evaluated over BOTH regenerated tables *)
Theorem C03_table_entries_checked : forallb entry_ok table_keys = true.
Proof. exact table_entries_checked. Qed.
Print Assumptions C03_table_entries_checked.

Theorem C03_table_entry_decoding :
  forall k enc mode, In k table_keys ->
    (forall i, (1 <= i < length k)%nat -> get_key enc mode false (firstn i k) = More) /\
    (exists n, get_key enc mode true k = Key n /\ name_ok enc mode k n = true) /\
    (growable k = true -> get_key enc mode false k = More) /\
    (growable k = false -> meta_collision enc k = false ->
       exists n, get_key enc mode false k = Key n /\ name_ok enc mode k n = true).
Proof. exact table_entry_decoding. Qed.
Print Assumptions C03_table_entry_decoding.

Theorem C03_table_entry_property :
  forall k enc mode full i, In k table_keys -> (1 <= i <= length k)%nat ->
    prop_ok enc mode full (firstn i k) (get_key enc mode full (firstn i k)) = true.
Proof. exact table_entry_property. Qed.
Print Assumptions C03_table_entry_property.

(* 5. every character as itself: every encoding, every character that has an
      encoding there (utf-8: EVERY Unicode scalar value, by byte-range reasoning)
      and is not itself a table sequence *)
Theorem C03_chars_as_themselves :
  forall enc mode c bs,
    encode_char enc c = Some bs -> is_table_seq bs = false ->
    (forall i, (1 <= i < length bs)%nat -> get_key enc mode false (firstn i bs) = More) /\
    (forall full, get_key enc mode full bs = Key (char_key mode bs c)).
Proof. exact chars_as_themselves. Qed.
Print Assumptions C03_chars_as_themselves.

(* the byte-range form (no encoder involved) *)
Theorem C03_utf8_char_3 :
  forall b0 b1 b2 mode, wf3 b0 b1 b2 = true ->
    get_key Utf8 mode false [b0] = More /\ get_key Utf8 mode false [b0; b1] = More /\
    forall full, get_key Utf8 mode full [b0; b1; b2] = Key (char_key mode [b0; b1; b2] (cp3 b0 b1 b2)).
Proof. exact utf8_char_3. Qed.
Print Assumptions C03_utf8_char_3.

(* never broken up, never merged: ALL streams of tokens (table sequences that
   cannot grow, characters that are not table sequences), any length, every
   encoding and naming mode, are cut exactly at the token boundaries *)
Theorem C03_tokens_decoded_exactly :
  forall enc mode toks, Forall (token enc) toks ->
    cuts (find_keys enc mode (concat toks)) = Ok (toks, []).
Proof. exact tokens_decoded_exactly. Qed.
Print Assumptions C03_tokens_decoded_exactly.

(* 2, corollary (never fails): on ALL valid streams the decoder can fail only
   with UnicodeDecodeError, only under utf-8 / ascii, and only if a member of
   KEYMAP_PREFIXES is directly followed by a byte >= 0x80 -- the known finding
   F-C03 (C03_never_fails_refuted shows it does happen) *)
Theorem C03_valid_streams_fail_only_in_FC03 :
  forall enc mode atoms n e,
    Forall (atom enc) atoms ->
    find_keys_n n enc mode (concat atoms) = Raise e ->
    e = UnicodeDecodeError /\ enc <> Latin1 /\ fc03_in (concat atoms).
Proof. exact valid_streams_fail_only_in_FC03. Qed.
Print Assumptions C03_valid_streams_fail_only_in_FC03.

(* every ESC-initiated table sequence consists of ASCII bytes (so streams of
   such sequences and characters are streams of [atom]s) *)
Theorem C03_esc_table_keys_ascii :
  forallb (fun k => negb (starts_esc k) || all_ascii k) table_keys = true.
Proof. exact esc_table_keys_ascii. Qed.
Print Assumptions C03_esc_table_keys_ascii.

(* tie of the model's could_be_unfinished_utf8 (the five lead-byte masks and length tests) to
   the function text in the repository: Gen/Pure.v holds the syntax tree of
   curtsies.events.could_be_unfinished_utf8 dumped from the Python AST of the working tree on
   every run, [PyMini.call] is the reference semantics of that Python subset
   (Spec/PyMini.v); for ALL byte strings they agree (TypeError on the empty one included) *)
From Curtsies Require Spec.PyMini Gen.Pure Proofs.PureTie.
Theorem C03_could_be_unfinished_utf8_is_the_repository_function :
  forall seq : list N,
    PyMini.call Pure.py_could_be_unfinished_utf8 [PyMini.VBytes seq]
    = PureTie.embed_bool (could_be_unfinished_utf8 seq).
Proof. exact PureTie.could_be_unfinished_utf8_tie. Qed.
Print Assumptions C03_could_be_unfinished_utf8_is_the_repository_function.

(* ---- tie of the model's decision cascade to the function text in the repository -------------
   Gen/Pure.v holds the syntax trees of curtsies.events.get_key, _key_name, decodable,
   could_be_unfinished_char and could_be_unfinished_utf8, dumped from the Python AST of the
   working tree on every run (gen/gen_pure.py, one AST node = one constructor);
   [PyMini.call_in] is the reference semantics of that Python subset (Spec/PyMini.v), run in
   the context of the events module (Spec/PyEnv.v): the module's tables are the generated ones
   (Gen/Tables.v); every call between these functions is interpreted by running the callee's
   own generated tree ([PyEnv.ctx0] < [ctx1] < [ctx2], nothing assumed about them); the only
   assumed behaviour is that of the standard library, the two ORACLES
     bytes.decode(name)         = Model/Utf8.decode of the codec [PyEnv.codec_of_name name]
     codecs.getdecoder(a) is codecs.getdecoder(b)  iff  a and b name the same codec.
   For ALL lists of bytes objects, every encoding name of the alias table, all naming modes,
   both values of [full]: running the repository's text of get_key -- the isinstance test and
   the join of the prologue included -- gives exactly what the model [get_key] answers on the
   concatenated bytes: the same key (a str, or the bytes under BYTES naming), None for "more
   input", or the same exception.  An edit of any of the five functions that changes their
   meaning breaks one of these obligations. *)
From Curtsies Require Spec.PyEnv Proofs.PureTieKeys.
Theorem C03_get_key_is_the_repository_function :
  forall (name : list N) (enc : encoding) (mode : keynames) (full : bool) (chunks : list (list N)),
    PyEnv.codec_of_name name = Some enc -> is_bytes (concat chunks) = true ->
    PyMini.call_in PyEnv.ctx2 Pure.py_get_key
      [PureTieKeys.bytes_list chunks; PyMini.VStr name; PureTieKeys.embed_mode mode; PyMini.VBool full]
    = PureTieKeys.embed_outcome mode (get_key enc mode full (concat chunks)).
Proof. exact PureTieKeys.get_key_tie. Qed.
Print Assumptions C03_get_key_is_the_repository_function.

(* ... in the form the decoder loop calls it: a list of one-byte bytes objects *)
Theorem C03_get_key_is_the_repository_function_bytes :
  forall (name : list N) (enc : encoding) (mode : keynames) (full : bool) (seq : list N),
    PyEnv.codec_of_name name = Some enc -> is_bytes seq = true ->
    PyMini.call_in PyEnv.ctx2 Pure.py_get_key
      [PyMini.VList (map (fun b => PyMini.VBytes [b]) seq); PyMini.VStr name; PureTieKeys.embed_mode mode; PyMini.VBool full]
    = PureTieKeys.embed_outcome mode (get_key enc mode full seq).
Proof. exact PureTieKeys.get_key_tie_list. Qed.
Print Assumptions C03_get_key_is_the_repository_function_bytes.

(* ... the default values of the parameters are keynames=Keynames.CURTSIES, full=False *)
Theorem C03_get_key_defaults_are_the_repository_ones :
  forall a b : PyMini.val,
    PyMini.call_in PyEnv.ctx2 Pure.py_get_key [a; b]
    = PyMini.call_in PyEnv.ctx2 Pure.py_get_key [a; b; PureTieKeys.embed_mode CURTSIES; PyMini.VBool false].
Proof. exact PureTieKeys.get_key_defaults. Qed.
Print Assumptions C03_get_key_defaults_are_the_repository_ones.

(* ... and a list with an element that is not a bytes object is refused with TypeError *)
Theorem C03_get_key_refuses_non_bytes :
  forall (l : list PyMini.val) (a2 a3 a4 : PyMini.val),
    forallb PureTieKeys.is_vbytes l = false ->
    PyMini.call_in PyEnv.ctx2 Pure.py_get_key [PyMini.VList l; a2; a3; a4] = Raise TypeError.
Proof. exact PureTieKeys.get_key_type_error. Qed.
Print Assumptions C03_get_key_refuses_non_bytes.

Theorem C03_could_be_unfinished_char_is_the_repository_function :
  forall (name : list N) (enc : encoding) (seq : list N),
    PyEnv.codec_of_name name = Some enc ->
    PyMini.call_in PyEnv.ctx1 Pure.py_could_be_unfinished_char [PyMini.VBytes seq; PyMini.VStr name]
    = PureTie.embed_bool (could_be_unfinished_char enc seq).
Proof. exact PureTieKeys.could_be_unfinished_char_tie. Qed.
Print Assumptions C03_could_be_unfinished_char_is_the_repository_function.

Theorem C03_decodable_is_the_repository_function :
  forall (name : list N) (enc : encoding) (seq : list N),
    PyEnv.codec_of_name name = Some enc ->
    PyMini.call_in PyEnv.ctx0 Pure.py_decodable [PyMini.VBytes seq; PyMini.VStr name]
    = Ok (PyMini.VBool (decodable enc seq)).
Proof. exact PureTieKeys.decodable_tie. Qed.
Print Assumptions C03_decodable_is_the_repository_function.

Theorem C03_key_name_is_the_repository_function :
  forall (name : list N) (enc : encoding) (mode : keynames) (seq : list N),
    PyEnv.codec_of_name name = Some enc -> is_bytes seq = true ->
    PyMini.call_in PyEnv.ctx0 Pure.py_key_name [PyMini.VBytes seq; PyMini.VStr name; PureTieKeys.embed_mode mode]
    = PureTieKeys.embed_name mode (key_name enc mode seq).
Proof. exact PureTieKeys.key_name_tie. Qed.
Print Assumptions C03_key_name_is_the_repository_function.

(* could_be_unfinished_utf8 again, as the callee the two functions above reach (run in the module's context) *)
Theorem C03_could_be_unfinished_utf8_in_module_context :
  forall seq : list N,
    PyMini.call_in PyEnv.ctx0 Pure.py_could_be_unfinished_utf8 [PyMini.VBytes seq]
    = PureTie.embed_bool (could_be_unfinished_utf8 seq).
Proof. exact PureTieKeys.could_be_unfinished_utf8_tie0. Qed.
Print Assumptions C03_could_be_unfinished_utf8_in_module_context.

(* the alias table is not empty: the three encodings of the property, "utf-8" "ascii" "latin-1" *)
Theorem C03_encoding_names :
  PyEnv.codec_of_name PureTieKeys.name_utf8 = Some Utf8 /\ PureTieKeys.name_utf8 = [117; 116; 102; 45; 56] /\
  PyEnv.codec_of_name PureTieKeys.name_ascii = Some Ascii /\ PureTieKeys.name_ascii = [97; 115; 99; 105; 105] /\
  PyEnv.codec_of_name PureTieKeys.name_latin1 = Some Latin1 /\ PureTieKeys.name_latin1 = [108; 97; 116; 105; 110; 45; 49].
Proof. exact PureTieKeys.codec_names_spelled. Qed.
Print Assumptions C03_encoding_names.
