(* C03 -- key decoding splits any byte stream losslessly into correctly named keys.
   Model: Model/Keys.v (events.get_key, _key_name, could_be_unfinished_*, the
   find_key loop of Input._send), Model/Utf8.v (the codecs); the tables are the
   generated ones (Gen/Tables.v); reference notions: Spec/KeySpec.v. *)
From Curtsies Require Import Model.Base Gen.Tables Model.Utf8 Model.Keys Model.KeyMap Spec.KeySpec Proofs.Keys.
Local Open Scope N_scope.

(* 1. lossless, for ALL byte strings, encodings, naming modes and any number of
      find_key calls: the bytes consumed by the keys, in order, followed by the
      unconsumed rest, are the buffer; every key consumed at least one byte and
      is the name (in that mode) of exactly the bytes it consumed *)
Theorem C03_lossless :
  forall enc mode n buf ks rest,
    find_keys_n n enc mode buf = Ok (ks, rest) ->
    concat (map snd ks) ++ rest = buf /\
    Forall (fun ku => snd ku <> [] /\ name_ok enc mode (snd ku) (fst ku) = true) ks.
Proof. exact find_keys_n_lossless. Qed.
Print Assumptions C03_lossless.

(* ... observed through BYTES naming: the keys themselves concatenate to the buffer *)
Theorem C03_lossless_bytes :
  forall enc n buf ks rest,
    find_keys_n n enc BYTES buf = Ok (ks, rest) -> concat (map fst ks) ++ rest = buf.
Proof. exact find_keys_bytes_lossless. Qed.
Print Assumptions C03_lossless_bytes.

(* ... and decoding to the end of the buffer leaves nothing behind *)
Theorem C03_lossless_whole_buffer :
  forall enc mode buf ks rest,
    find_keys enc mode buf = Ok (ks, rest) -> rest = [] /\ concat (map snd ks) = buf.
Proof. exact find_keys_lossless. Qed.
Print Assumptions C03_lossless_whole_buffer.

(* 2. exact failure characterisation, ALL byte strings: the only exceptions are
      ValueError (longer than the longest table sequence) and UnicodeDecodeError
      (not a table sequence, not decodable, not in KEYMAP_PREFIXES, and not -- by
      its FIRST byte only -- an unfinished character) *)
Theorem C03_get_key_raises_iff :
  forall enc mode full s e,
    get_key enc mode full s = Err e <->
    ((max_keypress_size < length s)%nat /\ e = ValueError) \/
    ((length s <= max_keypress_size)%nat /\ key_known enc s = false /\
     in_prefixes s = false /\ waiting enc s = false /\ e = UnicodeDecodeError).
Proof. exact get_key_raises_iff. Qed.
Print Assumptions C03_get_key_raises_iff.

(* 3. exactly when more input is asked for, ALL byte strings *)
Theorem C03_get_key_more_iff :
  forall enc mode full s,
    get_key enc mode full s = More <->
    (length s <= max_keypress_size)%nat /\ (full && key_known enc s = false) /\
    (in_prefixes s = true \/ waiting enc s = true).
Proof. exact get_key_more_iff. Qed.
Print Assumptions C03_get_key_more_iff.

(* KEYMAP_PREFIXES, as built by events.py, is exactly the set of non-empty
   proper prefixes of ESC-initiated table sequences (computed here from the tables) *)
Theorem C03_prefixes_correct : forall s, in_prefixes s = growable s.
Proof. exact prefixes_correct. Qed.
Print Assumptions C03_prefixes_correct.

(* 2/3 on the complete one-step tree: every node p (empty, or one of the
   members of KEYMAP_PREFIXES), every next byte (256), every encoding (3),
   naming mode (3), both [full]: the answer has the closed form [expected_step] *)
Theorem C03_one_step_tree :
  forall p b enc mode full, In p tree_nodes -> b < 256 ->
    shape_of (get_key enc mode full (p ++ [b])) = expected_step enc full p b.
Proof. exact one_step_tree. Qed.
Print Assumptions C03_one_step_tree.

(* ... the decoder fails on the tree IFF pending bytes in KEYMAP_PREFIXES are
   followed by a byte >= 0x80 under utf-8 / ascii: the known finding F-C03.
   Outside that family it never fails. *)
Theorem C03_one_step_raises_iff_FC03 :
  forall p b enc mode full e, In p tree_nodes -> b < 256 ->
    (get_key enc mode full (p ++ [b]) = Err e <->
     p <> [] /\ 128 <= b /\ enc <> Latin1 /\ e = UnicodeDecodeError).
Proof. exact one_step_raises_iff. Qed.
Print Assumptions C03_one_step_raises_iff_FC03.

(* the finding is real (witness ESC + e-acute, utf-8) *)
Theorem C03_never_fails_refuted :
  get_key Utf8 CURTSIES false [27; 195] = Err UnicodeDecodeError /\
  find_keys Utf8 BYTES [27; 195; 169] = Raise UnicodeDecodeError /\
  find_keys Utf8 BYTES [27] = Ok ([([27], [27])], []) /\
  find_keys Utf8 CURTSIES [195; 169] = Ok ([([233], [195; 169])], []).
Proof. exact fc03_refuted. Qed.
Print Assumptions C03_never_fails_refuted.

(* ... More on the tree only while growable: a proper prefix of a table
   sequence, or (utf-8, nothing pending) a lead byte by the five masks *)
Theorem C03_one_step_more_iff :
  forall p b enc mode full, In p tree_nodes -> b < 256 ->
    (get_key enc mode full (p ++ [b]) = More <->
     fc03_family enc (p ++ [b]) = false /\ full = false /\
     (growable (p ++ [b]) = true \/ (enc = Utf8 /\ p = [] /\ 192 <= b <= 253))).
Proof. exact one_step_more_iff. Qed.
Print Assumptions C03_one_step_more_iff.

(* ... and every node outside F-C03 satisfies the property relation *)
Theorem C03_one_step_property :
  forall p b enc mode full, In p tree_nodes -> b < 256 ->
    fc03_family enc (p ++ [b]) = true \/
    prop_ok enc mode full (p ++ [b]) (get_key enc mode full (p ++ [b])) = true.
Proof. exact one_step_property. Qed.
Print Assumptions C03_one_step_property.

(* 4. table names: kernel-evaluated over BOTH regenerated tables *)
Theorem C03_table_entries_checked : forallb entry_ok table_keys = true.
Proof. exact table_entries_checked. Qed.
Print Assumptions C03_table_entries_checked.

Theorem C03_table_entry_decoding :
  forall k enc mode, In k table_keys ->
    (forall i, (1 <= i < length k)%nat -> get_key enc mode false (firstn i k) = More) /\
    (exists n, get_key enc mode true k = Key n /\ name_ok enc mode k n = true) /\
    (growable k = true -> get_key enc mode false k = More) /\
    (growable k = false -> meta_collision enc k = false ->
       exists n, get_key enc mode false k = Key n /\ name_ok enc mode k n = true).
Proof. exact table_entry_decoding. Qed.
Print Assumptions C03_table_entry_decoding.

Theorem C03_table_entry_property :
  forall k enc mode full i, In k table_keys -> (1 <= i <= length k)%nat ->
    prop_ok enc mode full (firstn i k) (get_key enc mode full (firstn i k)) = true.
Proof. exact table_entry_property. Qed.
Print Assumptions C03_table_entry_property.

(* 5. every character as itself: every encoding, every character that has an
      encoding there (utf-8: EVERY Unicode scalar value, by byte-range reasoning)
      and is not itself a table sequence *)
Theorem C03_chars_as_themselves :
  forall enc mode c bs,
    encode_char enc c = Some bs -> is_table_seq bs = false ->
    (forall i, (1 <= i < length bs)%nat -> get_key enc mode false (firstn i bs) = More) /\
    (forall full, get_key enc mode full bs = Key (char_key mode bs c)).
Proof. exact chars_as_themselves. Qed.
Print Assumptions C03_chars_as_themselves.

(* the byte-range form (no encoder involved) *)
Theorem C03_utf8_char_3 :
  forall b0 b1 b2 mode, wf3 b0 b1 b2 = true ->
    get_key Utf8 mode false [b0] = More /\ get_key Utf8 mode false [b0; b1] = More /\
    forall full, get_key Utf8 mode full [b0; b1; b2] = Key (char_key mode [b0; b1; b2] (cp3 b0 b1 b2)).
Proof. exact utf8_char_3. Qed.
Print Assumptions C03_utf8_char_3.

(* never broken up, never merged: ALL streams of tokens (table sequences that
   cannot grow, characters that are not table sequences), any length, every
   encoding and naming mode, are cut exactly at the token boundaries *)
Theorem C03_tokens_decoded_exactly :
  forall enc mode toks, Forall (token enc) toks ->
    cuts (find_keys enc mode (concat toks)) = Ok (toks, []).
Proof. exact tokens_decoded_exactly. Qed.
Print Assumptions C03_tokens_decoded_exactly.

(* 2, corollary (never fails): on ALL valid streams the decoder can fail only
   with UnicodeDecodeError, only under utf-8 / ascii, and only if a member of
   KEYMAP_PREFIXES is directly followed by a byte >= 0x80 -- the known finding
   F-C03 (C03_never_fails_refuted shows it does happen) *)
Theorem C03_valid_streams_fail_only_in_FC03 :
  forall enc mode atoms n e,
    Forall (atom enc) atoms ->
    find_keys_n n enc mode (concat atoms) = Raise e ->
    e = UnicodeDecodeError /\ enc <> Latin1 /\ fc03_in (concat atoms).
Proof. exact valid_streams_fail_only_in_FC03. Qed.
Print Assumptions C03_valid_streams_fail_only_in_FC03.

(* every ESC-initiated table sequence consists of ASCII bytes (so streams of
   such sequences and characters are streams of [atom]s) *)
Theorem C03_esc_table_keys_ascii :
  forallb (fun k => negb (starts_esc k) || all_ascii k) table_keys = true.
Proof. exact esc_table_keys_ascii. Qed.
Print Assumptions C03_esc_table_keys_ascii.
