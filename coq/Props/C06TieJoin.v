(* C06 -- the model of FmtStr.join IS the method text in the repository (a file of its own, so that an
   edit of that one method un-discharges this obligation only) *)
(* Gen/PureFmt.v holds the syntax tree of curtsies.formatstring.FmtStr.join; [PyMini.call_in] runs it --
   the `for` over the items, the two locals it carries (the list `chunks` that grows by extend, and
   `before`: nothing in the first round, self.chunks from then on), isinstance(s, FmtStr) and
   isinstance(s, (bytes, str)) (FmtStr is a class of the module without subclasses: checked by the
   translator), the TypeError of the last branch (its message, `"..." % type(s)`, cannot itself raise and
   is not modelled: exceptions are identified by their class) -- in the context Spec/PyEnvFmt.v [ctxF3],
   with the named ORACLES FmtStr( *chunks) for the constructor and fmtstr(s) = one unformatted run for a
   str s without ESC[ / CSI (the parsing branch of fmtstr is C05/C17's subject).
   For EVERY FmtStr (the separator) and every LIST of items, each a FmtStr or a str without ESC[ / CSI
   (the same scope condition as the replacement of splice / setslice_with_length / setitem: it is what
   the fmtstr oracle covers; FmtStr items are unrestricted): the text returns the object the model
   [Slice.join] describes, runs and attributes -- no separator for no or one item, the separator's runs
   between two items whatever the items hold (also items without runs).
   And an item that is neither -- an int, a bool, None, a list, a tuple, a dict, a set, a slice
   ([PureTieJoin.bad_item]) -- makes the text raise TypeError when the loop reaches it, whatever came
   before it (such items) and whatever follows it (any values). *)
From Coq Require Import List.
From Curtsies Require Import Model.Base Model.Slice.
From Curtsies Require Spec.PyMini Gen.PureFmt Spec.PyEnvFmt Proofs.PureTieJoin.
Theorem C06_join_is_the_repository_method :
  forall (f : fmtstr) (items : list operand),
    forallb operand_plain items = true ->
    PyMini.call_in PyEnvFmt.ctxF3 PureFmt.py_FmtStr_join
      [PyEnvFmt.embed_fmtstr f; PyMini.VList (map PyEnvFmt.embed_operand items)]
    = Ok (PyEnvFmt.embed_fmtstr (join f items)).
Proof. exact PureTieJoin.join_tie. Qed.
Print Assumptions C06_join_is_the_repository_method.

Theorem C06_join_raises_TypeError_for_other_items :
  forall (f : fmtstr) (items : list operand) (v : PyMini.val) (rest : list PyMini.val),
    forallb operand_plain items = true ->
    PureTieJoin.bad_item v = true ->
    PyMini.call_in PyEnvFmt.ctxF3 PureFmt.py_FmtStr_join
      [PyEnvFmt.embed_fmtstr f; PyMini.VList (map PyEnvFmt.embed_operand items ++ v :: rest)]
    = Raise TypeError.
Proof. exact PureTieJoin.join_tie_bad_item. Qed.
Print Assumptions C06_join_raises_TypeError_for_other_items.
