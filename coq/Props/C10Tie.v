(* C10 -- the model of interval_overlap IS the function text in the repository *)
(* tie of the model's interval_overlap to the function text in the repository: Gen/Pure.v
   holds the syntax tree of curtsies.formatstring.interval_overlap dumped from the Python
   AST of the working tree on every run, [PyMini.call] is the reference semantics of that
   Python subset (Spec/PyMini.v); for ALL integer arguments they agree *)
From Curtsies Require Import Model.Base Model.Width.
From Curtsies Require Spec.PyMini Gen.Pure Proofs.PureTieOverlap.
Local Open Scope Z_scope.
Theorem C10_interval_overlap_is_the_repository_function :
  forall a b x y : Z,
    PyMini.call Pure.py_interval_overlap [PyMini.VInt a; PyMini.VInt b; PyMini.VInt x; PyMini.VInt y]
    = Ok (PyMini.VInt (interval_overlap a b x y)).
Proof. exact PureTieOverlap.interval_overlap_tie. Qed.
Print Assumptions C10_interval_overlap_is_the_repository_function.
