(* C09 -- the model of FmtStr.divides IS the property text in the repository (kept apart from
   Props/C09.v so that an edit of that one property un-discharges this obligation only) *)
(* Gen/PureFmt.v holds the syntax tree of the getter of the property
   curtsies.formatstring.FmtStr.divides (the run boundaries splice works with), dumped from the
   Python AST of the working tree on every run; [PyMini.call_in] runs it -- the list `acc` built
   with append and read with [-1] in a `for` over self.chunks -- in the context Spec/PyEnvFmt.v
   [ctxF0] (len(chunk) is the generated Chunk.__len__).  For EVERY FmtStr: the text computes the
   list [divides f] of the model. *)
From Curtsies Require Import Model.Base Model.Slice Model.Splice.
From Curtsies Require Spec.PyMini Gen.PureFmt Spec.PyEnvFmt Proofs.PureTieDivides.
Local Open Scope Z_scope.
Theorem C09_divides_is_the_repository_property :
  forall f : fmtstr,
    PyMini.call_in PyEnvFmt.ctxF0 PureFmt.py_FmtStr_divides [PyEnvFmt.embed_fmtstr f]
    = Ok (PyMini.VList (map PyMini.VInt (divides f))).
Proof. exact PureTieDivides.divides_tie. Qed.
Print Assumptions C09_divides_is_the_repository_property.
