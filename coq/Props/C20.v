(* C20 -- key naming modes and config-file key names are mutually consistent. *)
From Curtsies Require Import Model.Base Gen.Tables Model.Utf8 Model.Keys Model.KeyMap Spec.KeySpec Proofs.Keys.
Local Open Scope N_scope.

(* the naming mode never changes whether get_key answers key / more / which
   exception: ALL byte strings, encodings, both [full] *)
Theorem C20_shape_mode_independent :
  forall enc m1 m2 full s,
    shape_of (get_key enc m1 full s) = shape_of (get_key enc m2 full s).
Proof. exact shape_mode_independent. Qed.
Print Assumptions C20_shape_mode_independent.

(* hence whole streams are cut at the same places (or fail with the same
   exception) in all three modes: ALL buffers, any number of find_key calls *)
Theorem C20_cuts_mode_independent :
  forall enc m1 m2 n buf,
    cuts (find_keys_n n enc m1 buf) = cuts (find_keys_n n enc m2 buf).
Proof. exact cuts_mode_independent. Qed.
Print Assumptions C20_cuts_mode_independent.

(* BYTES naming returns exactly the bytes of the keypress *)
Theorem C20_bytes_mode_exact :
  forall enc full s k, get_key enc BYTES full s = Key k -> k = s.
Proof. exact bytes_mode_exact. Qed.
Print Assumptions C20_bytes_mode_exact.

(* in every mode the key is the name of the consumed bytes in that mode's sense *)
Theorem C20_get_key_named :
  forall enc mode full s n, get_key enc mode full s = Key n -> name_ok enc mode s n = true.
Proof. exact get_key_named. Qed.
Print Assumptions C20_get_key_named.

(* every sequence with a curses-style name has a curtsies name *)
Theorem C20_curses_keys_have_curtsies_names :
  forallb (fun k => in_table curtsies_names k) (map fst curses_names) = true.
Proof. exact curses_keys_have_curtsies_names. Qed.
Print Assumptions C20_curses_keys_have_curtsies_names.

(* the generated-table fact that makes _key_name's NotImplementedError unreachable *)
Theorem C20_high_table_keys_are_single_bytes :
  forallb high_key_single (curtsies_names ++ curses_names) = true.
Proof. exact table_high_keys_single. Qed.
Print Assumptions C20_high_table_keys_are_single_bytes.

(* every valid config name (C-a..C-z, M-<printable non-space ASCII>, F1..F12,
   the generated SPECIALS) maps to a non-empty tuple of names, each carried by a
   table sequence *)
Theorem C20_config_names_reachable :
  forallb (fun k => config_ok (keymap_get k)) valid_config_names = true.
Proof. exact config_names_reachable. Qed.
Print Assumptions C20_config_names_reachable.

(* ... and such a name is what the decoder reports for that sequence *)
Theorem C20_reachable_produced :
  forall n, reachable n = true ->
    exists k, In k table_keys /\ forall enc, get_key enc CURTSIES true k = Key n.
Proof. exact reachable_produced. Qed.
Print Assumptions C20_reachable_produced.

(* an unbound key maps to nothing *)
Theorem C20_config_unbound : keymap_get [] = Ok [].
Proof. exact config_unbound. Qed.
Print Assumptions C20_config_unbound.
