(* C03 -- the models of the key-decoding cascade ARE the function texts in the repository *)
(* tie of the model's could_be_unfinished_utf8 (the five lead-byte masks and length tests) to
   the function text in the repository: Gen/Pure.v holds the syntax tree of
   curtsies.events.could_be_unfinished_utf8 dumped from the Python AST of the working tree on
   every run, [PyMini.call] is the reference semantics of that Python subset
   (Spec/PyMini.v); for ALL byte strings they agree (TypeError on the empty one included) *)
From Curtsies Require Import Model.Base Gen.Tables Model.Utf8 Model.Keys.
From Curtsies Require Spec.PyMini Gen.Pure Proofs.PureTieBase Proofs.PureTieUtf8.
Local Open Scope N_scope.
Theorem C03_could_be_unfinished_utf8_is_the_repository_function :
  forall seq : list N,
    PyMini.call Pure.py_could_be_unfinished_utf8 [PyMini.VBytes seq]
    = PureTieBase.embed_bool (could_be_unfinished_utf8 seq).
Proof. exact PureTieUtf8.could_be_unfinished_utf8_tie. Qed.
Print Assumptions C03_could_be_unfinished_utf8_is_the_repository_function.

(* ---- tie of the model's decision cascade to the function text in the repository -------------
   Gen/Pure.v holds the syntax trees of curtsies.events.get_key, _key_name, decodable,
   could_be_unfinished_char and could_be_unfinished_utf8, dumped from the Python AST of the
   working tree on every run (gen/gen_pure.py, one AST node = one constructor);
   [PyMini.call_in] is the reference semantics of that Python subset (Spec/PyMini.v), run in
   the context of the events module (Spec/PyEnv.v): the module's tables are the generated ones
   (Gen/Tables.v); every call between these functions is interpreted by running the callee's
   own generated tree ([PyEnv.ctx0] < [ctx1] < [ctx2], nothing assumed about them); the only
   assumed behaviour is that of the standard library, the two ORACLES
     bytes.decode(name)         = Model/Utf8.decode of the codec [PyEnv.codec_of_name name]
     codecs.getdecoder(a) is codecs.getdecoder(b)  iff  a and b name the same codec.
   For ALL lists of bytes objects, every encoding name of the alias table, all naming modes,
   both values of [full]: running the repository's text of get_key -- the isinstance test and
   the join of the prologue included -- gives exactly what the model [get_key] answers on the
   concatenated bytes: the same key (a str, or the bytes under BYTES naming), None for "more
   input", or the same exception.  An edit of any of the five functions that changes their
   meaning breaks one of these obligations. *)
From Curtsies Require Spec.PyEnv Proofs.PureTieKeys.
Theorem C03_get_key_is_the_repository_function :
  forall (name : list N) (enc : encoding) (mode : keynames) (full : bool) (chunks : list (list N)),
    PyEnv.codec_of_name name = Some enc -> is_bytes (concat chunks) = true ->
    PyMini.call_in PyEnv.ctx2 Pure.py_get_key
      [PureTieKeys.bytes_list chunks; PyMini.VStr name; PureTieKeys.embed_mode mode; PyMini.VBool full]
    = PureTieKeys.embed_outcome mode (get_key enc mode full (concat chunks)).
Proof. exact PureTieKeys.get_key_tie. Qed.
Print Assumptions C03_get_key_is_the_repository_function.

(* ... in the form the decoder loop calls it: a list of one-byte bytes objects *)
Theorem C03_get_key_is_the_repository_function_bytes :
  forall (name : list N) (enc : encoding) (mode : keynames) (full : bool) (seq : list N),
    PyEnv.codec_of_name name = Some enc -> is_bytes seq = true ->
    PyMini.call_in PyEnv.ctx2 Pure.py_get_key
      [PyMini.VList (map (fun b => PyMini.VBytes [b]) seq); PyMini.VStr name; PureTieKeys.embed_mode mode; PyMini.VBool full]
    = PureTieKeys.embed_outcome mode (get_key enc mode full seq).
Proof. exact PureTieKeys.get_key_tie_list. Qed.
Print Assumptions C03_get_key_is_the_repository_function_bytes.

(* ... the default values of the parameters are keynames=Keynames.CURTSIES, full=False *)
Theorem C03_get_key_defaults_are_the_repository_ones :
  forall a b : PyMini.val,
    PyMini.call_in PyEnv.ctx2 Pure.py_get_key [a; b]
    = PyMini.call_in PyEnv.ctx2 Pure.py_get_key [a; b; PureTieKeys.embed_mode CURTSIES; PyMini.VBool false].
Proof. exact PureTieKeys.get_key_defaults. Qed.
Print Assumptions C03_get_key_defaults_are_the_repository_ones.

(* ... and a list with an element that is not a bytes object is refused with TypeError *)
Theorem C03_get_key_refuses_non_bytes :
  forall (l : list PyMini.val) (a2 a3 a4 : PyMini.val),
    forallb PureTieKeys.is_vbytes l = false ->
    PyMini.call_in PyEnv.ctx2 Pure.py_get_key [PyMini.VList l; a2; a3; a4] = Raise TypeError.
Proof. exact PureTieKeys.get_key_type_error. Qed.
Print Assumptions C03_get_key_refuses_non_bytes.

Theorem C03_could_be_unfinished_char_is_the_repository_function :
  forall (name : list N) (enc : encoding) (seq : list N),
    PyEnv.codec_of_name name = Some enc ->
    PyMini.call_in PyEnv.ctx1 Pure.py_could_be_unfinished_char [PyMini.VBytes seq; PyMini.VStr name]
    = PureTieBase.embed_bool (could_be_unfinished_char enc seq).
Proof. exact PureTieKeys.could_be_unfinished_char_tie. Qed.
Print Assumptions C03_could_be_unfinished_char_is_the_repository_function.

Theorem C03_decodable_is_the_repository_function :
  forall (name : list N) (enc : encoding) (seq : list N),
    PyEnv.codec_of_name name = Some enc ->
    PyMini.call_in PyEnv.ctx0 Pure.py_decodable [PyMini.VBytes seq; PyMini.VStr name]
    = Ok (PyMini.VBool (decodable enc seq)).
Proof. exact PureTieKeys.decodable_tie. Qed.
Print Assumptions C03_decodable_is_the_repository_function.

Theorem C03_key_name_is_the_repository_function :
  forall (name : list N) (enc : encoding) (mode : keynames) (seq : list N),
    PyEnv.codec_of_name name = Some enc -> is_bytes seq = true ->
    PyMini.call_in PyEnv.ctx0 Pure.py_key_name [PyMini.VBytes seq; PyMini.VStr name; PureTieKeys.embed_mode mode]
    = PureTieKeys.embed_name mode (key_name enc mode seq).
Proof. exact PureTieKeys.key_name_tie. Qed.
Print Assumptions C03_key_name_is_the_repository_function.

(* could_be_unfinished_utf8 again, as the callee the two functions above reach (run in the module's context) *)
Theorem C03_could_be_unfinished_utf8_in_module_context :
  forall seq : list N,
    PyMini.call_in PyEnv.ctx0 Pure.py_could_be_unfinished_utf8 [PyMini.VBytes seq]
    = PureTieBase.embed_bool (could_be_unfinished_utf8 seq).
Proof. exact PureTieKeys.could_be_unfinished_utf8_tie0. Qed.
Print Assumptions C03_could_be_unfinished_utf8_in_module_context.

(* the alias table is not empty: the three encodings of the property, "utf-8" "ascii" "latin-1" *)
Theorem C03_encoding_names :
  PyEnv.codec_of_name PureTieKeys.name_utf8 = Some Utf8 /\ PureTieKeys.name_utf8 = [117; 116; 102; 45; 56] /\
  PyEnv.codec_of_name PureTieKeys.name_ascii = Some Ascii /\ PureTieKeys.name_ascii = [97; 115; 99; 105; 105] /\
  PyEnv.codec_of_name PureTieKeys.name_latin1 = Some Latin1 /\ PureTieKeys.name_latin1 = [108; 97; 116; 105; 110; 45; 49].
Proof. exact PureTieKeys.codec_names_spelled. Qed.
Print Assumptions C03_encoding_names.
