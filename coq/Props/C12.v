(* C12 -- leaving any curtsies context restores terminal, tty and signal state.
   PARTIAL by nature: an exception is raised BETWEEN atomic steps (statements of a body,
   writes of a render, the select / os.read / decode steps of a request); an asynchronous
   exception arriving while an __enter__/__exit__ itself or a C call is executing cannot
   be expressed in the model.

   [prun main d p b e]: run program [p] - any nesting of `with` regions of the managers of
   Model/Ctx.v (Input, Cbreak, Termmode, Nonblocking, ReplacedSigIntHandler, BaseWindow,
   FullscreenWindow, CursorAwareWindow, every configuration) around atomic steps - on the
   main / a non-main thread, from environment [e]; the exception is raised after [b] ticks
   ([None]: never); `with` semantics: __exit__ runs iff __enter__ returned.  [prun_list] runs
   a sequence of programs (repetition = [concat (repeat body k)]).
   [wf e]: descriptor numbers distinct, SIGINT handler visible to Python (getsignal() not None).
   [enters_ok p]: the cursor query of every CursorAwareWindow.__enter__ is answered. *)
From Curtsies Require Import Model.Base Spec.Sgr Spec.Term Model.Ctx Spec.CtxSpec Proofs.Ctx.
Close Scope N_scope.

(* every program, every cut point, every initial environment, both kinds of thread:
   tty attributes, status flags, SIGINT handler, wake-up descriptor identical; descriptor
   table identical up to trigger pipes created meanwhile *)
Theorem C12_restore_every_cut_point :
  forall p main b e, enters_ok p = true -> wf e -> restore_eq e (r_env (prun main 0 p b e)).
Proof. intros p main b e Hok Hwf. apply post_restore. apply prun_post; assumption. Qed.
Print Assumptions C12_restore_every_cut_point.

(* the same for sequences, in particular any number of repetitions of any body; without
   trigger creation the descriptor table is exactly the one before: nothing leaks *)
Theorem C12_repetition_no_leak :
  forall main body k b e, forallb enters_ok body = true -> wf e ->
    restore_eq e (r_env (prun_list main 0 (concat (repeat body k)) b e))
    /\ (forallb no_triggers body = true -> no_leak e (r_env (prun_list main 0 (concat (repeat body k)) b e))).
Proof. exact repetition_restores. Qed.
Print Assumptions C12_repetition_no_leak.

Theorem C12_no_leak_every_cut_point :
  forall p main b e, enters_ok p = true -> no_triggers p = true -> wf e -> no_leak e (r_env (prun main 0 p b e)).
Proof. intros p main b e Hok Hnt Hwf. apply prun_no_leak; assumption. Qed.
Print Assumptions C12_no_leak_every_cut_point.

(* a window context that was entered ([b <> Some 0]: the exception does not precede the with
   statement), around any body that does not itself switch screens (any other managers,
   requests, renders, ...), cut anywhere: cursor visible, main screen active, and for the
   FullscreenWindow the main buffer (scrollback included) is the one before *)
Theorem C12_window_terminal_restored :
  forall m body main d b e,
    is_window m = true -> b <> Some 0 ->
    (match m with MCursorAware _ _ ok => ok | _ => true end) = true ->
    forallb alt_free body = true ->
    (is_fullscreen m = true \/ t_in_alt (e_term e) = false) ->
    term_restored (is_fullscreen m) (e_term e) (e_term (r_env (prun main d (With m body) b e))).
Proof. exact window_term_restored. Qed.
Print Assumptions C12_window_terminal_restored.

(* at every tick of every run that is not inside a Nonblocking region - in particular between
   requests - the file status flags are the initial ones *)
Theorem C12_never_left_nonblocking :
  forall p main b e, enters_ok p = true -> wf e ->
    flags_outside_nonblocking (e_flags e) (r_trace (prun main 0 p b e)).
Proof. intros. apply flags_outside_nonblocking_holds; assumption. Qed.
Print Assumptions C12_never_left_nonblocking.

(* a request (send), with its inner `with ReplacedSigIntHandler` and `with Nonblocking`
   regions, interrupted at any of its steps or not at all *)
Theorem C12_request :
  forall main c id early reads b e, wf e ->
    restore_eq e (r_env (prun_list main 0 (request_prog main c id early reads) b e))
    /\ no_leak e (r_env (prun_list main 0 (request_prog main c id early reads) b e)).
Proof. exact request_restores. Qed.
Print Assumptions C12_request.

(* the executable forms of the spec, which the correspondence check evaluates on the values
   OBSERVED on the real pty, are implied by the relations proved above *)
Theorem C12_executable_spec_agrees :
  (forall ntrig e e', restore_eq e e' -> length (e_fds e') = length (e_fds e) + 2 * ntrig ->
                      restore_eqb ntrig (observe e) (observe e') = true)
  /\ (forall fs t t', term_restored fs t t' -> t_h t' = t_h t -> t_w t' = t_w t -> term_restoredb fs t t' = true).
Proof. split; [exact restore_eq_sound|exact term_restored_sound]. Qed.
Print Assumptions C12_executable_spec_agrees.

(* non-vacuity: a FullscreenWindow around an Input(sigint_event, disable_terminal_start_stop) around a
   request with two reads, a trigger, a render, a nested Input with a request and a Cbreak, on the main
   thread; cut after 9 ticks it is inside the second `with Nonblocking` (O_NONBLOCK on, cbreak on,
   handler replaced, wake-up descriptor replaced, alternate screen, cursor hidden) and raises; yet the
   observable environment afterwards passes the executable form of the spec; run to the end it has
   created one trigger (two descriptors more) *)
Example C12_nonvacuous :
  wf sample_env /\ enters_ok sample_prog = true /\
  (let r := prun true 0 sample_prog (Some 9) sample_env in
   match r_out r with Raised => true | Done _ => false end
   && match last (r_trace r) (0, LEnter MCbreak, sample_env) with
      | (d, LStep (Pure NRead 1 1), x) =>
          (d =? 1) && fl_nonblock (e_flags x) && negb (ty_echo (e_tty x)) && N.eqb (ty_vstop (e_tty x)) 0
          && handler_eqb (e_handler x) (HInput 1) && opt_eqb Nat.eqb (e_wakeup x) (Some 4)
          && t_in_alt (e_term x) && negb (t_visible (e_term x))
      | _ => false
      end
   && restore_eqb 0 (observe sample_env) (observe (r_env r))
   && term_restoredb true sample_term (e_term (r_env r))) = true /\
  (let r := prun true 0 sample_prog None sample_env in
   restore_eqb 1 (observe sample_env) (observe (r_env r)) && negb (restore_eqb 0 (observe sample_env) (observe (r_env r)))
   && term_restoredb true sample_term (e_term (r_env r))) = true.
Proof. split; [exact sample_wf|]. split; [reflexivity|]. split; vm_compute; reflexivity. Qed.

(* ---- where restoration fails (outside the hypotheses above; reported) ------------------ *)
(* wf: a SIGINT handler that Python cannot see is replaced by Input(sigint_event=True) for good *)
Theorem C12_refuted_none_handler :
  exists e, NoDup (keys (e_fds e)) /\
    e_handler (r_env (prun true 0 (With (MInput (mkIcfg 1 true false)) []) None e)) <> e_handler e.
Proof. exact none_handler_not_restored. Qed.
Print Assumptions C12_refuted_none_handler.

(* enters_ok: CursorAwareWindow.__enter__ raising in the cursor query leaves the tty in cbreak mode *)
Theorem C12_refuted_cursor_query_failure :
  exists e hide keep, wf e /\
    e_tty (r_env (prun true 0 (With (MCursorAware hide keep false) []) None e)) <> e_tty e.
Proof. exact cursor_query_failure_leaves_cbreak. Qed.
Print Assumptions C12_refuted_cursor_query_failure.

(* alt_free: a FullscreenWindow inside the body of another one on the same terminal *)
Theorem C12_refuted_nested_fullscreen :
  exists e body, wf e /\ forallb enters_ok body = true /\
    t_main (e_term (r_env (prun true 0 (With (MFullscreen true) body) None e))) <> t_main (e_term e).
Proof. exact nested_fullscreen_touches_main. Qed.
Print Assumptions C12_refuted_nested_fullscreen.
