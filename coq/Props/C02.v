(* C02 -- FullscreenWindow: after every render the screen equals the array. (theorems under construction) *)
From Curtsies Require Import Model.Base Spec.Term Spec.Show Model.Fullscreen.
Close Scope N_scope.
Lemma C02_placeholder_partial : fs_init true = mkFs true [] None.
Proof. reflexivity. Qed.
Print Assumptions C02_placeholder_partial.
