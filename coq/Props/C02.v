(* C02 -- FullscreenWindow: after every render the screen equals the array.
   [fs_render] is the model of FullscreenWindow.render_to_terminal, [execs] the
   reference terminal, [shows] "row i of the array on screen row i, every other
   cell blank and unformatted". *)
From Curtsies Require Import Model.Base Spec.Sgr Spec.Term Spec.Show Model.Fullscreen Proofs.Fullscreen.
Close Scope N_scope.

(* one render, from any state the invariant allows (any cache, any screen junk after a size change) *)
Theorem C02_render_shows_array :
  forall ws t a cur,
    Inv ws t -> Forall (fun l => clean l = true) a -> fst cur < t_h t -> snd cur < t_w t ->
    exists t', execs t (fst (fs_render ws (t_h t) (t_w t) a cur)) = Some t'
      /\ Inv (snd (fs_render ws (t_h t) (t_w t) a cur)) t'
      /\ TermLemmas.same_frame t t'
      /\ shows t' a
      /\ t_row t' = fst cur /\ t_col t' = snd cur
      /\ scrolled t' = scrolled t
      /\ t_visible t' = (if fw_hide ws then t_visible t else true).
Proof. exact fs_render_correct. Qed.
Print Assumptions C02_render_shows_array.

(* every history of renders and resizes: the post-condition holds after EVERY render *)
Theorem C02_all_histories :
  forall ops ws t,
    Inv ws t -> valid_hist (fw_last ws) (t_h t) (t_w t) (t_in_alt t) ops -> all_renders_ok ws t ops.
Proof. exact fs_histories. Qed.
Print Assumptions C02_all_histories.

(* starting from __enter__ on any terminal (hide_cursor on or off) *)
Theorem C02_from_enter :
  forall hide t ops,
    t_sgr t = sgr_default -> 1 <= t_h t -> 1 <= t_w t ->
    exists t0, execs t (fs_enter (fs_init hide)) = Some t0 /\ t_in_alt t0 = true /\
      (valid_hist None (t_h t0) (t_w t0) true ops -> all_renders_ok (fs_init hide) t0 ops).
Proof. exact fs_histories_from_enter. Qed.
Print Assumptions C02_from_enter.
