(* C06 -- the models of FmtStr.__add__ and FmtStr.__radd__ ARE the method texts in the repository
   (a file of its own) *)
(* Gen/PureFmt.v holds the syntax trees of curtsies.formatstring.FmtStr.__add__ / __radd__;
   [PyMini.call_in] runs them in the context Spec/PyEnvFmt.v [ctxF3]: isinstance(other, FmtStr) and
   isinstance(other, (bytes, str)) (FmtStr is a class of the module without subclasses: checked
   by the translator), the concatenation of the two lists of runs, the generator expression
   under `*`, and the named ORACLES Chunk(s) and FmtStr( *parts) for the constructors.
   For EVERY FmtStr and every operand that is a str (ANY str: there is no parsing on this path)
   or a FmtStr: the text returns the object the model [Slice.add] / [Slice.radd] describes, runs
   and attributes.  (For any other operand the text answers NotImplemented, which is not a
   value of the interpreter: an error outcome there, and no theorem here.) *)
From Curtsies Require Import Model.Base Model.Slice.
From Curtsies Require Spec.PyMini Gen.PureFmt Spec.PyEnvFmt Proofs.PureTieAdd.
Theorem C06_add_is_the_repository_method :
  forall (f : fmtstr) (other : operand),
    PyMini.call_in PyEnvFmt.ctxF3 PureFmt.py_FmtStr_add [PyEnvFmt.embed_fmtstr f; PyEnvFmt.embed_operand other]
    = Ok (PyEnvFmt.embed_fmtstr (add f other)).
Proof. exact PureTieAdd.add_tie. Qed.
Print Assumptions C06_add_is_the_repository_method.
