(* C09 -- splice replaces exactly the requested range and nothing else.
   Observation: [cells f]; reference: [list_splice l x s e = firstn s l ++ x ++ skipn e l]
   (Spec/ListOps.v).  All theorems are for arbitrary FmtStrs (any number of runs,
   empty runs, no runs) and arbitrary replacement values [new] (a str or a FmtStr,
   empty, without runs, with empty runs).  [end_of s e] is e, or s when e is omitted.
   A str replacement goes through fmtstr(); the scope hypothesis [operand_plain]
   says that it does not contain ESC[ (parsing is C05/C17). *)
From Curtsies Require Import Model.Base Spec.ListOps Model.Slice Model.Splice Proofs.Slice Proofs.Splice.
Local Close Scope N_scope.
Local Open Scope Z_scope.

Theorem C09_splice_cells :
  forall (f : fmtstr) (new : operand) (s : Z) (e : option Z),
    operand_plain new = true -> 0 <= s -> s <= end_of s e ->
    cells (splice f new s e) =
    list_splice (cells f) (op_cells new) (Z.to_nat s) (Z.to_nat (end_of s e)).
Proof. exact (fun f new s e _ => splice_cells f new s e). Qed.
Print Assumptions C09_splice_cells.

Theorem C09_splice_text :
  forall (f : fmtstr) (new : operand) (s : Z) (e : option Z),
    operand_plain new = true -> 0 <= s -> s <= end_of s e ->
    text (splice f new s e) =
    list_splice (text f) (op_text new) (Z.to_nat s) (Z.to_nat (end_of s e)).
Proof. exact (fun f new s e _ => splice_text f new s e). Qed.
Print Assumptions C09_splice_text.

(* a start past the end appends *)
Theorem C09_splice_past_end_appends :
  forall (f : fmtstr) (new : operand) (s : Z) (e : option Z),
    operand_plain new = true -> len f <= s -> s <= end_of s e ->
    cells (splice f new s e) = cells f ++ op_cells new.
Proof. exact (fun f new s e _ => splice_past_end f new s e). Qed.
Print Assumptions C09_splice_past_end_appends.

(* append(x) is splice at the end *)
Theorem C09_append_is_splice_at_len :
  forall (f : fmtstr) (x : operand), append f x = splice f x (len f) None.
Proof. exact append_is_splice_at_len. Qed.
Print Assumptions C09_append_is_splice_at_len.

Theorem C09_append_cells :
  forall (f : fmtstr) (x : operand), operand_plain x = true ->
    cells (append f x) = cells f ++ op_cells x.
Proof. exact (fun f x _ => append_cells f x). Qed.
Print Assumptions C09_append_cells.

(* replacing nothing by nothing returns the operand itself (the early return) *)
Theorem C09_splice_nothing_is_self :
  forall (f : fmtstr) (new : operand) (s : Z) (e : option Z),
    op_len new = 0 -> end_of s e <= s -> splice f new s e = f.
Proof. exact splice_nothing. Qed.
Print Assumptions C09_splice_nothing_is_self.

(* ---- what setslice_with_length / setitem are built on (used by C04) ---------------- *)
Theorem C09_setslice_cells :
  forall (f : fmtstr) (s e : Z) (fs : operand) (limit : Z),
    operand_plain fs = true -> 0 <= s <= e ->
    res_map cells (setslice_with_length f s e fs limit) =
    setslice_ref blank (cells f) (op_cells fs) (Z.to_nat s) (Z.to_nat e) limit.
Proof. exact (fun f s e fs limit _ => setslice_cells f s e fs limit). Qed.
Print Assumptions C09_setslice_cells.

Theorem C09_setitem_cells :
  forall (f : fmtstr) (i : Z) (fs : operand),
    operand_plain fs = true -> 0 <= i ->
    res_map cells (setitem f i fs) =
    setslice_ref blank (cells f) (op_cells fs) (Z.to_nat i) (Z.to_nat (i + 1))
                 (Z.of_nat (length (cells f))).
Proof. exact (fun f i fs _ => setitem_cells f i fs). Qed.
Print Assumptions C09_setitem_cells.

(* ---- concrete non-trivial instances ---------------------------------------------------- *)
Local Open Scope N_scope.
(* 'ab' red, '' bold-on-blue, 'cde' green+italic *)
Definition ex_f : fmtstr :=
  [C [97;98] (A 2 0 0 0 0 0 0 0); C [] (A 0 5 1 0 0 0 0 0); C [99;100;101] (A 3 0 0 0 1 0 0 0)].
Definition ex_new : operand := OFmt [C [88] (A 4 0 0 0 0 0 0 0); C [] no_atts; C [89] no_atts].

Example C09_splice_nonvacuous :   (* replace [2,4) -- start exactly on the inner run boundary *)
  operand_plain ex_new = true /\ (0 <= 2)%Z /\ (2 <= end_of 2 (Some 4))%Z /\
  text (splice ex_f ex_new 2%Z (Some 4%Z)) = [97; 98; 88; 89; 101] /\
  text (splice ex_f (OStr [90]) 2%Z None) = [97; 98; 90; 99; 100; 101] /\
  text (splice ex_f (OStr []) 1%Z (Some 7%Z)) = [97].
Proof. vm_compute. repeat split; congruence. Qed.

Example C09_setslice_nonvacuous :
  res_map text (setslice_with_length ex_f 1%Z 3%Z (OStr [90]) 5%Z) = Ok [97; 90; 32; 100; 101] /\
  setslice_with_length ex_f 1%Z 3%Z (OStr [90;90;90]) 5%Z = Raise AssertionError /\
  setslice_with_length ex_f 4%Z 5%Z (OStr [90;90]) 5%Z = Raise ValueError.
Proof. vm_compute. repeat split; reflexivity. Qed.

Example C09_append_nonvacuous :
  operand_plain (OStr [90]) = true /\ text (append ex_f (OStr [90])) = [97; 98; 99; 100; 101; 90] /\
  text (splice ex_f ex_new 9%Z (Some 11%Z)) = [97; 98; 99; 100; 101; 88; 89].
Proof. vm_compute. repeat split; reflexivity. Qed.
