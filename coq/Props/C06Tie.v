(* C06 -- the model of normalize_slice IS the function text in the repository (kept apart from
   Props/C06.v so that an edit of that one function un-discharges this obligation only) *)
(* ---- tie of the model's normalize_slice to the function text in the repository ----------
   Gen/Pure.v holds the syntax tree of curtsies.formatstring.normalize_slice, dumped from the
   Python AST of the working tree on every run (gen/gen_pure.py); [PyMini.call] is the
   reference semantics of that Python subset (Spec/PyMini.v).  For EVERY length and every
   index (int, or slice with any mix of int / None bounds and step): running the
   repository's function text gives exactly what the model computes -- the same slice
   bounds, IndexError, or NotImplementedError.  An edit of normalize_slice that changes its
   meaning breaks this obligation. *)
From Curtsies Require Import Model.Base Spec.ListOps Model.Slice.
From Curtsies Require Spec.PyMini Gen.Pure Proofs.PureTieSlice.
Local Open Scope Z_scope.
Theorem C06_normalize_slice_is_the_repository_function :
  forall (length : Z) (ix : index),
    PyMini.call Pure.py_normalize_slice [PyMini.VInt length; PureTieSlice.embed_index ix]
    = PureTieSlice.embed_bounds (normalize_slice length ix).
Proof. exact PureTieSlice.normalize_slice_tie. Qed.
Print Assumptions C06_normalize_slice_is_the_repository_function.
