(* C13 -- FmtStr values are immutable and their memoised views never go stale.
   Heap model: Model/Heap.v (objects, list references, memo slots; every operation a heap
   transformer mirroring the allocation / aliasing behaviour of curtsies/formatstring.py).
   Level: proof of the heap discipline of the model + kernel-evaluated acceptance of the
   effect summary extracted from the source on every run; the Python object model (what
   list(...), slicing, `+` on lists and *args copy) is assumed as modelled. *)
From Curtsies Require Import Model.Base Gen.Tables Model.Render Model.Heap Gen.Effects Spec.HeapSpec Proofs.Heap.
Local Open Scope nat_scope.

(* (1) the tie to the source: every heap effect gen_effects.py finds in formatstring.py is one
   the policy [safe] accepts -- stores only to self in __init__ / in the memo slot's own getter /
   ChunkSplitter bookkeeping, in-place mutation only of objects allocated in the same call *)
Theorem C13_effects_safe : forallb safe Effects.table = true.
Proof. exact effects_safe. Qed.
Print Assumptions C13_effects_safe.

Theorem C13_effects_frozen_attributes_block_every_dict_mutator : frozen_blocks_mutators = true.
Proof. exact effects_frozen_attributes_block_every_dict_mutator. Qed.
Print Assumptions C13_effects_frozen_attributes_block_every_dict_mutator.

Theorem C13_effects_init_copies_and_resets : init_present = true.
Proof. exact effects_init_copies_and_resets. Qed.
Print Assumptions C13_effects_init_copies_and_resets.

(* (2) frame theorem, one step: every operation of the model, any pool, any arguments, any
   outcome (result or exception) *)
Theorem C13_step_frame :
  forall (wc : char -> Z) (pool : list nat) (x : op) (h : heap),
    inv wc h ->
    let h' := snd (exec wc pool x h) in
    inv wc h' /\ forall o, o < length (h_fs h) -> value h' o = value h o.
Proof. exact step_frame. Qed.
Print Assumptions C13_step_frame.

(* the model's transformers stay inside the discipline that [safe] demands of the source: on
   objects that existed before the step they change nothing but memo slots (see [ext]) *)
Theorem C13_model_effects_confined :
  forall (wc : char -> Z) (pool : list nat) (x : op) (h : heap),
    inv wc h -> ext (length (h_ls h)) h (snd (exec wc pool x h)).
Proof. exact exec_effects_confined. Qed.
Print Assumptions C13_model_effects_confined.

(* ... every straight-line program, cut at every position: the objects that exist after p1 keep
   their value through p2, and every filled memo slot equals the recomputed value at both points *)
Theorem C13_program_frame :
  forall (wc : char -> Z) (p1 p2 : list op),
    let '(pool1, h1) := run wc p1 [] empty_heap in
    let h2 := snd (run wc p2 pool1 h1) in
    memo_ok wc h1 /\ memo_ok wc h2 /\ forall o, o < length (h_fs h1) -> value h2 o = value h1 o.
Proof. exact program_frame_from_empty. Qed.
Print Assumptions C13_program_frame.

Theorem C13_program_frame_from_any_heap :
  forall (wc : char -> Z) (p1 p2 : list op) (pool : list nat) (h : heap),
    inv wc h ->
    let '(pool1, h1) := run wc p1 pool h in
    let h2 := snd (run wc p2 pool1 h1) in
    memo_ok wc h1 /\ memo_ok wc h2 /\ forall o, o < length (h_fs h1) -> value h2 o = value h1 o.
Proof. exact program_frame. Qed.
Print Assumptions C13_program_frame_from_any_heap.

(* (3) formatting cannot be edited in place *)
Theorem C13_setitem_raises :
  forall (wc : char -> Z) pool p h, exec wc pool (OSetitem p) h = (Raise OtherError, h).
Proof. exact setitem_raises. Qed.
Print Assumptions C13_setitem_raises.

Theorem C13_atts_mutation_raises :
  forall (wc : char -> Z) pool p i how h, exec wc pool (OAttsMutate p i how) h = (Raise OtherError, h).
Proof. exact atts_mutation_raises. Qed.
Print Assumptions C13_atts_mutation_raises.
