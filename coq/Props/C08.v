(* C08 -- Input returns every byte and triggered event exactly once, in order.
   PARTIAL by nature: the theorems are about the model (Model/InputQ.v: _send,
   _wait_for_read_ready_or_timeout, the trigger factories and the kernel objects
   they use), for ALL histories of environment steps and requests; real thread
   interleavings finer than those steps, select wake-up order and signal delivery
   are exercised by the correspondence run, not proved.  The key decoder is a
   parameter of the general theorems; the C08_real_decoder_* theorems below are
   their instances for the model of the REAL decoder (events.get_key driven by
   the find_key loop of _send: find_key_real, Model/InputKeys.v), for every
   encoding and naming mode, with fk_lossless / fk_progress PROVED
   (Proofs/InputKeys.v, on top of C03's Proofs/Keys.v): no hypothesis is left. *)
From Coq Require Import Permutation.
From Curtsies Require Import Model.Base Gen.Tables Model.Utf8 Model.Keys Model.KeyMap Spec.KeySpec Proofs.Keys
  Model.InputQ Model.InputKeys Spec.QueueSpec Proofs.InputQ Proofs.InputKeys.
Close Scope N_scope.
Local Open Scope Z_scope.

(* delivered ++ pending = injected, per source, after every history *)
Theorem C08_exactly_once_all_histories :
  forall find_key, fk_lossless find_key -> fk_progress find_key ->
  forall (h : list item) (th : option Z) (ntrig : nat) tr s',
    run find_key th (init ntrig) h = (tr, s') ->
    let D := outcomes tr in
    flat_map d_consumed D ++ unproc s' ++ kq s' = g_bytes s' /\
    flat_map d_ev D ++ qev s' = map snd (g_ev s') /\
    flat_map d_int D ++ qint s' = map snd (g_int s') /\
    (forall w, filter (has_when w) (flat_map d_sched D) ++ filter (has_when w) (qsched s')
               = filter (has_when w) (g_sched s')) /\
    Permutation (flat_map d_sig D ++ sigints s') (g_sig s').
Proof. exact exactly_once_all_histories. Qed.
Print Assumptions C08_exactly_once_all_histories.

(* as long as the decoder raised nothing: the bytes of the delivered keypresses
   and paste events, then the buffered ones, then the kernel's, ARE the stream *)
Theorem C08_bytes_exactly_once_in_order :
  forall find_key, fk_lossless find_key -> fk_progress find_key ->
  forall h th ntrig tr s',
    run find_key th (init ntrig) h = (tr, s') -> no_raise (outcomes tr) ->
    flat_map d_bytes (outcomes tr) ++ unproc s' ++ kq s' = g_bytes s'.
Proof. exact bytes_exactly_once_in_order. Qed.
Print Assumptions C08_bytes_exactly_once_in_order.

(* per trigger: what was delivered is a prefix of what its callback injected *)
Theorem C08_events_in_trigger_order :
  forall find_key, fk_lossless find_key -> fk_progress find_key ->
  forall h th ntrig tr s',
    run find_key th (init ntrig) h = (tr, s') ->
    (exists Gd Gp, g_ev s' = Gd ++ Gp /\ map snd Gd = flat_map d_ev (outcomes tr) /\ map snd Gp = qev s' /\
       forall i, filter (fun p => N.eqb (fst p) i) (g_ev s')
                 = filter (fun p => N.eqb (fst p) i) Gd ++ filter (fun p => N.eqb (fst p) i) Gp) /\
    (exists Gd Gp, g_int s' = Gd ++ Gp /\ map snd Gd = flat_map d_int (outcomes tr) /\ map snd Gp = qint s' /\
       forall i, filter (fun p => Nat.eqb (fst p) i) (g_int s')
                 = filter (fun p => Nat.eqb (fst p) i) Gd ++ filter (fun p => Nat.eqb (fst p) i) Gp).
Proof. exact events_in_trigger_order. Qed.
Print Assumptions C08_events_in_trigger_order.

(* ---- the same for the REAL decoder: no hypotheses ------------------------------ *)
Theorem C08_real_decoder_hypotheses :
  forall enc mode, fk_lossless (find_key_real enc mode) /\ fk_progress (find_key_real enc mode).
Proof. intros enc mode. split; [apply find_key_real_lossless|apply find_key_real_progress]. Qed.
Print Assumptions C08_real_decoder_hypotheses.

Theorem C08_real_decoder_exactly_once :
  forall enc mode (h : list item) (th : option Z) (ntrig : nat) tr s',
    run (find_key_real enc mode) th (init ntrig) h = (tr, s') ->
    let D := outcomes tr in
    flat_map d_consumed D ++ unproc s' ++ kq s' = g_bytes s' /\
    flat_map d_ev D ++ qev s' = map snd (g_ev s') /\
    flat_map d_int D ++ qint s' = map snd (g_int s') /\
    (forall w, filter (has_when w) (flat_map d_sched D) ++ filter (has_when w) (qsched s')
               = filter (has_when w) (g_sched s')) /\
    Permutation (flat_map d_sig D ++ sigints s') (g_sig s').
Proof. exact real_decoder_exactly_once. Qed.
Print Assumptions C08_real_decoder_exactly_once.

Theorem C08_real_decoder_bytes_in_order :
  forall enc mode h th ntrig tr s',
    run (find_key_real enc mode) th (init ntrig) h = (tr, s') -> no_raise (outcomes tr) ->
    flat_map d_bytes (outcomes tr) ++ unproc s' ++ kq s' = g_bytes s'.
Proof. exact real_decoder_bytes_in_order. Qed.
Print Assumptions C08_real_decoder_bytes_in_order.

Theorem C08_real_decoder_events_in_trigger_order :
  forall enc mode h th ntrig tr s',
    run (find_key_real enc mode) th (init ntrig) h = (tr, s') ->
    (exists Gd Gp, g_ev s' = Gd ++ Gp /\ map snd Gd = flat_map d_ev (outcomes tr) /\ map snd Gp = qev s' /\
       forall i, filter (fun p => N.eqb (fst p) i) (g_ev s')
                 = filter (fun p => N.eqb (fst p) i) Gd ++ filter (fun p => N.eqb (fst p) i) Gp) /\
    (exists Gd Gp, g_int s' = Gd ++ Gp /\ map snd Gd = flat_map d_int (outcomes tr) /\ map snd Gp = qint s' /\
       forall i, filter (fun p => Nat.eqb (fst p) i) (g_int s')
                 = filter (fun p => Nat.eqb (fst p) i) Gd ++ filter (fun p => Nat.eqb (fst p) i) Gp).
Proof. exact real_decoder_events_in_trigger_order. Qed.
Print Assumptions C08_real_decoder_events_in_trigger_order.

(* with nothing scheduled, None is returned no earlier than the timeout -- whatever
   wakes the request up in between (code as of commit 4c90127) *)
Theorem C08_none_only_after_timeout :
  forall find_key th t s sc s' sc',
    qsched s = [] -> 0 <= t ->
    send find_key th (Some t) s sc = (s', sc', ONone) -> now s + t <= now s'.
Proof. exact none_only_after_timeout. Qed.
Print Assumptions C08_none_only_after_timeout.

(* ---- scheduled events: never before their time, earliest first --------------------
   For a request made in ANY state (so: after every history), any decoder.  If it
   returns the scheduled event (w, id): its time has passed (w < clock at the return);
   every scheduled event still queued has a `when` >= w, except those scheduled by
   the request's own script, i.e. from another thread while this very request was
   blocked ([extra]; DESIGN section 6 puts them outside the property; witness
   Proofs/InputQ.v sched_delivery_extra_witness); and per `when` it is the one
   that was scheduled first (ties in trigger order). *)
Theorem C08_sched_not_early_and_in_order :
  forall find_key old th tmo s sc s' sc' w id,
  send_gen find_key old th tmo s sc = (s', sc', OSched w id) ->
  w < now s' /\
  exists extra,
    (forall q, In q extra -> sched_in sc q) /\
    (forall q, In q (qsched s') -> w <= fst q \/ In q extra) /\
    (forall w', filter (has_when w') (qsched s ++ extra) = filter (has_when w') ((w, id) :: qsched s')).
Proof. exact sched_delivery. Qed.
Print Assumptions C08_sched_not_early_and_in_order.

(* nothing scheduled while the request is blocked: everything still queued is later or equal *)
Theorem C08_sched_earliest_first :
  forall find_key old th tmo s sc s' sc' w id,
  (forall w0 id0, ~ In (Sched w0 id0) sc) ->
  send_gen find_key old th tmo s sc = (s', sc', OSched w id) ->
  w < now s' /\ (forall q, In q (qsched s') -> w <= fst q) /\
  (forall w', filter (has_when w') (qsched s) = filter (has_when w') ((w, id) :: qsched s')).
Proof. exact sched_delivery_earliest. Qed.
Print Assumptions C08_sched_earliest_first.

(* over ALL histories: every scheduled event in the trace is returned by a request
   that returns strictly after the event's time *)
Theorem C08_sched_never_early_all_histories :
  forall find_key h th s tr s',
  run find_key th s h = (tr, s') ->
  forall w id t0 t1, In (OSched w id, t0, t1) tr -> w < t1.
Proof. exact sched_never_early. Qed.
Print Assumptions C08_sched_never_early_all_histories.

(* ---- a request does not block or time out while something is deliverable -----------
   ANY state in which a SIGINT, a queued event, an interrupting event, a scheduled
   event that is due, buffered bytes or bytes waiting in the kernel exist: the
   request returns something, the clock has not moved, no step of the
   environment script was consumed. *)
Theorem C08_deliverable_returns_at_once :
  forall find_key, fk_lossless find_key -> fk_progress find_key ->
  forall old th tmo s sc s' sc' o,
  deliverable_at_call s -> send_gen find_key old th tmo s sc = (s', sc', o) ->
  now s' = now s /\ sc' = sc /\ o <> ONone /\ o <> OBlocked /\ o <> OFuel.
Proof. exact deliverable_at_once. Qed.
Print Assumptions C08_deliverable_returns_at_once.

Theorem C08_real_decoder_deliverable_returns_at_once :
  forall enc mode th tmo s sc s' sc' o,
  deliverable_at_call s -> send (find_key_real enc mode) th tmo s sc = (s', sc', o) ->
  now s' = now s /\ sc' = sc /\ o <> ONone /\ o <> OBlocked /\ o <> OFuel.
Proof. exact real_decoder_deliverable_at_once. Qed.
Print Assumptions C08_real_decoder_deliverable_returns_at_once.

(* ---- the paste clause ------------------------------------------------------------------
   ANY state in which only a burst of bytes in the kernel is deliverable.  Unless the
   decoder raises: if the one read (n = min(READ_SIZE, waiting) bytes) is larger than
   paste_threshold, ONE paste event whose keypresses are decoder answers, whose bytes in
   order are ALL the waiting bytes (the loop refills beyond READ_SIZE), nothing left;
   otherwise ONE keypress and the rest stays queued. *)
Theorem C08_paste_single_event :
  forall find_key, fk_lossless find_key -> fk_progress find_key ->
  forall old th tmo s sc s' sc' o,
  sigints s = [] -> qev s = [] -> qint s = [] -> (forall q, In q (qsched s) -> now s <= fst q) ->
  unproc s = [] -> kq s <> [] ->
  send_gen find_key old th tmo s sc = (s', sc', o) ->
  let n := Nat.min read_size_nat (length (kq s)) in
  now s' = now s /\ sc' = sc /\
  ((exists e d, o = ORaise e d /\ decoder_raised find_key e) \/
   if match th with Some t => t <? Z.of_nat n | None => false end
   then exists ks, o = OPaste ks /\ concat (map snd ks) = kq s /\ Forall (decoded_key find_key) ks /\
                   unproc s' = [] /\ kq s' = []
   else exists k used, o = OKey k used /\ decoded_key find_key (k, used) /\ used <> [] /\
                       used ++ unproc s' ++ kq s' = kq s).
Proof. exact read_burst. Qed.
Print Assumptions C08_paste_single_event.

(* the same with the real decoder: every keypress is the C03 name (name_ok) of exactly its bytes *)
Theorem C08_real_decoder_paste_single_event :
  forall enc mode th tmo s sc s' sc' o,
  sigints s = [] -> qev s = [] -> qint s = [] -> (forall q, In q (qsched s) -> now s <= fst q) ->
  unproc s = [] -> kq s <> [] ->
  send (find_key_real enc mode) th tmo s sc = (s', sc', o) ->
  let n := Nat.min read_size_nat (length (kq s)) in
  now s' = now s /\ sc' = sc /\
  ((exists e d, o = ORaise e d /\ decoder_raised (find_key_real enc mode) e) \/
   if match th with Some t => t <? Z.of_nat n | None => false end
   then exists ks, o = OPaste ks /\ concat (map snd ks) = kq s /\
                   Forall (fun ku => snd ku <> [] /\ name_ok enc mode (snd ku) (fst ku) = true) ks /\
                   unproc s' = [] /\ kq s' = []
   else exists k used, o = OKey k used /\ name_ok enc mode used k = true /\ used <> [] /\
                       used ++ unproc s' ++ kq s' = kq s).
Proof. exact real_decoder_read_burst. Qed.
Print Assumptions C08_real_decoder_paste_single_event.

(* ---- where exceptions come from ------------------------------------------------------
   A request raises only when the decoder raised, or (UnboundLocalError of _send)
   when nothing was scheduled at the call and an event was scheduled from another
   thread while the request was blocked (outside the property as read, DESIGN 6). *)
Theorem C08_real_decoder_raise_origin :
  forall enc mode th tmo s sc s' sc' e d,
  send (find_key_real enc mode) th tmo s sc = (s', sc', ORaise e d) ->
  decoder_raised (find_key_real enc mode) e \/
  (e = OtherError /\ d = [] /\ qsched s = [] /\ exists q, sched_in sc q).
Proof. exact real_decoder_raise_origin. Qed.
Print Assumptions C08_real_decoder_raise_origin.

(* PARTIAL.  Full statement wanted: for every history whose byte stream is valid
   input (Proofs/Keys.v [atom]s), every ORaise in the trace belongs to F-C03
   (a KEYMAP_PREFIXES member directly followed by a byte >= 0x80) or to F-C08a/b (a
   read boundary strictly inside a multi-byte character after >= 2 of its bytes).
   Proved here: the decoder-level statement, for EVERY buffer made of valid pieces
   (complete atoms and stray continuation bytes left over from a character whose
   first bytes went with an earlier read) with possibly a character cut by the
   read boundary at its end, all encodings and naming modes; together with
   C08_real_decoder_raise_origin (a request raises only if the decoder raised)
   and C08_real_decoder_key_on_valid (what stays buffered after a key is again
   such a buffer).  Missing: the invariant over histories that unprocessed_bytes
   always IS such a buffer when the whole stream is valid (needs the future of the
   stream in the invariant, and unget_bytes restricted to valid pieces). *)
Theorem C08_real_decoder_raises_only_known_partial :
  forall enc mode ps tl e used rest,
  Forall (piece enc) ps -> cut_tail enc tl ->
  find_key_real enc mode (concat ps ++ tl) = FkRaise e used rest ->
  (e = UnicodeDecodeError /\ enc <> Latin1 /\ fc03_in (concat ps ++ tl)) \/
  (e = ValueError /\ enc = Utf8 /\ ps = [] /\ (2 <= length tl)%nat /\ used = tl /\ rest = []).
Proof. exact real_decoder_raises_only_known. Qed.
Print Assumptions C08_real_decoder_raises_only_known_partial.

Theorem C08_real_decoder_key_on_valid :
  forall enc mode ps tl k used rest,
  Forall (piece enc) ps -> cut_tail enc tl ->
  find_key_real enc mode (concat ps ++ tl) = FkKey k used rest ->
  (exists used' ps', ps = used' ++ ps' /\ used = concat used' /\ rest = concat ps' ++ tl) \/
  (ps = [] /\ length tl = 1%nat /\ used = tl /\ rest = []).
Proof. exact real_decoder_key_on_valid. Qed.
Print Assumptions C08_real_decoder_key_on_valid.

(* the hypotheses on the decoder are satisfiable, the invariant theorem is not vacuous *)
Example C08_decoder_hypotheses_nonvacuous : fk_lossless toy_fk /\ fk_progress toy_fk.
Proof. exact decoder_hypotheses_nonvacuous. Qed.

(* a late select wake-up (environment step Late d) delivers a scheduled event through
   the SECOND pop site of _send (behind the wait), the others stay sorted behind it *)
Example C08_late_wakeup_second_pop_site :
  let s := apply_envs [Sched 6 1; Sched 2 2; Sched 4 3] (init 0) in
  let '(s', sc', o) := send toy_fk None None s [Late 1; Tick 9] in
  o = OSched 2 2 /\ now s' = 3 /\ qsched s' = [(4, 3%N); (6, 1%N)] /\ sc' = [Tick 9].
Proof. exact late_wakeup_second_pop_site. Qed.

(* the formula before commit 4c90127 returned None at clock 6 for a request made
   at clock 0 with timeout 10 and nothing scheduled (regression witness, corpus/C08) *)
Example C08_old_recompute_refuted :
  qsched early_none_witness_state = [] /\ now early_none_witness_state = 0 /\
  let '(s', _, o) := send_gen toy_fk true None (Some 10) early_none_witness_state early_none_witness_script in
  o = ONone /\ now s' = 6.
Proof. exact old_recompute_refuted. Qed.

(* Known finding F-C08a, with the model of the real decoder (utf-8, curtsies names):
   a read ending after 2 bytes of a 3-byte character: ValueError, the 2 bytes are
   gone; the third byte later comes out as a Meta key. *)
Example C08_F_C08a_bytes_dropped :
  map (fun e => fst (fst e))
      (fst (run (find_key_real Utf8 CURTSIES) None (init 0)
                [Env (Arrive [226; 130]%N); Req (Some 0) []; Env (Arrive [172]%N); Req (Some 0) []]))
  = [ORaise ValueError [226; 130]%N; OKey [60; 77; 101; 116; 97; 45; 44; 62]%N [172]%N].
Proof. vm_compute. reflexivity. Qed.

(* Known finding F-C08b: the same inside the paste loop throws away the whole
   paste event under construction ('a','b','c' here) *)
Example C08_F_C08b_paste_dropped :
  map (fun e => fst (fst e))
      (fst (run (find_key_real Utf8 CURTSIES) (Some 1) (init 0)
                [Env (Arrive [97; 98; 99; 226; 130]%N); Req (Some 0) []; Env (Arrive [172]%N); Req (Some 0) []]))
  = [ORaise ValueError [97; 98; 99; 226; 130]%N; OKey [60; 77; 101; 116; 97; 45; 44; 62]%N [172]%N].
Proof. vm_compute. reflexivity. Qed.
